#!/usr/bin/env python3
"""Driver for the ggql verification harness.

  run.py <Cxx> <quick|thorough>     run one check (exit 0 held / 1 violation / 2 infrastructure)
  run.py replay <Cxx> <case.json>   re-run one saved case without the generator library
  run.py setup                      build every engine from /repo's working tree
  run.py all <quick|thorough>       development convenience: run every registered check

Every run rebuilds the engine's test binary from /repo's current working tree
(Go module replace => /repo) with the `verif` build tag on.
"""
import hashlib, json, os, re, shutil, subprocess, sys, time
from concurrent.futures import ThreadPoolExecutor

VERIF = os.path.dirname(os.path.abspath(__file__))
HARNESS = os.path.join(VERIF, "harness")
BUILD = os.path.join(VERIF, ".build")
OUT = os.path.join(BUILD, "out")
EVID = os.path.join(VERIF, "evidence")
REPLAYS = os.path.join(EVID, "replay")
KNOWN = os.path.join(VERIF, "known_findings.json")
sys.path.insert(0, VERIF)
from checks import PROPS  # noqa: E402

GOENV = dict(os.environ, GOFLAGS="-mod=mod", GOPROXY="off", GOSUMDB="off", GOTOOLCHAIN="local",
             CGO_ENABLED=os.environ.get("CGO_ENABLED", "1"))

# VERIF_REPO (development only): run the checks against another checkout of the library, e.g. a
# scratch worktree with a seeded change applied. Binaries, stats, evidence and replays of such a run
# go to a separate directory so that /verif/evidence always describes /repo itself.
REPO = os.path.abspath(os.environ.get("VERIF_REPO", "/repo"))
ALT = REPO != "/repo"
if ALT:
    _tag = hashlib.sha1(REPO.encode()).hexdigest()[:8]
    BUILD = os.path.join(BUILD, "alt-" + _tag)
    OUT = os.path.join(BUILD, "out")
    EVID = os.path.join(BUILD, "evidence")
    REPLAYS = os.path.join(EVID, "replay")


def log(*a):
    print(*a, file=sys.stderr, flush=True)


def build(pkg, race):
    os.makedirs(BUILD, exist_ok=True)
    name = pkg.replace("/", "_") + (".race" if race else "") + ".test"
    out = os.path.join(BUILD, name)
    cmd = ["go", "test", "-c", "-vet=off", "-tags", "verif", "-o", out]
    if ALT:
        modfile = os.path.join(BUILD, "go.mod")
        src = open(os.path.join(HARNESS, "go.mod")).read().replace("=> /repo", "=> " + REPO)
        with open(modfile, "w") as f:
            f.write(src)
        shutil.copy(os.path.join(HARNESS, "go.sum"), os.path.join(BUILD, "go.sum"))
        cmd += ["-modfile", modfile]
    if race:
        cmd.append("-race")
    cmd.append("./" + pkg + "/")
    t0 = time.time()
    p = subprocess.run(cmd, cwd=HARNESS, env=GOENV, capture_output=True, text=True)
    if p.returncode != 0:
        log("BUILD FAILED:", " ".join(cmd))
        log(p.stdout[-4000:])
        log(p.stderr[-4000:])
        return None
    log(f"built {name} in {time.time() - t0:.1f}s")
    return out


def shard_seed(prop, seed, shard):
    h = int(hashlib.sha1(prop.encode()).hexdigest()[:8], 16)
    s = (seed * 1000003 + shard * 7919 + h * 31 + 12345) % (2 ** 62)
    return s or 1


CRASH_RE = re.compile(r"^(fatal error:|panic:|WARNING: DATA RACE|runtime: goroutine stack exceeds)", re.M)


def run_shard(binary, cfg, prop, tier, seed, shard, checks, extra_env=None, timeout=None):
    os.makedirs(OUT, exist_ok=True)
    outf = os.path.join(OUT, f"{prop}.{tier}.{shard}.json")
    for f in (outf, outf + ".fail.json", outf + ".crumb"):
        if os.path.exists(f):
            os.remove(f)
    env = dict(GOENV, VERIF_OUT=outf, VERIF_KNOWN=KNOWN, VERIF_TIER=tier, VERIF_PROP=prop,
               VERIF_SHARD=str(shard), VERIF_CHECKS=str(checks), VERIF_SEED=str(seed),
               VERIF_REPO=REPO,
               GORACE="halt_on_error=1 history_size=3")
    env.pop("VERIF_REPLAY", None)
    if extra_env:
        env.update(extra_env)
    tmo = timeout or cfg.get("timeout", {}).get(tier, 1500)
    cmd = [binary, "-test.run", "^" + cfg["test"] + "$", "-test.timeout", f"{tmo}s", "-test.count=1",
           f"-rapid.checks={checks}", f"-rapid.seed={shard_seed(prop, seed, shard)}",
           "-rapid.nofailfile", f"-rapid.shrinktime={cfg.get('shrinktime', '20s')}"]
    if cfg.get("steps"):
        cmd.append(f"-rapid.steps={cfg['steps']}")
    t0 = time.time()
    try:
        p = subprocess.run(cmd, cwd=os.path.join(HARNESS, cfg["pkg"]), env=env, capture_output=True,
                           text=True, errors="replace", timeout=tmo + 60)
        rc, so, se = p.returncode, p.stdout, p.stderr
    except subprocess.TimeoutExpired as e:
        rc, so, se = -9, (e.stdout or b"").decode(errors="replace") if isinstance(e.stdout, bytes) else (e.stdout or ""), "driver timeout"
    stats = None
    if os.path.exists(outf):
        try:
            stats = json.load(open(outf))
        except Exception as ex:  # noqa
            stats = None
    passed = None
    m = re.search(r"OK, passed (\d+) tests", so)
    if m:
        passed = int(m.group(1))
    return dict(shard=shard, rc=rc, stdout=so, stderr=se, stats=stats, passed=passed, outf=outf,
                wall=time.time() - t0, requested=checks)


def save_replay(prop, src_path=None, text=None, suffix="json"):
    os.makedirs(REPLAYS, exist_ok=True)
    if src_path and os.path.exists(src_path):
        data = open(src_path, "rb").read()
    else:
        data = (text or "").encode()
    h = hashlib.sha1(data).hexdigest()[:12]
    dst = os.path.join(REPLAYS, f"{prop}-{h}.{suffix}")
    with open(dst, "wb") as f:
        f.write(data)
    return dst


def load_known():
    try:
        return json.load(open(KNOWN)).get("findings", [])
    except Exception:
        return []


def replay_one(binary, cfg, prop, path, test=None, timeout=300):
    env = dict(GOENV, VERIF_REPLAY=path, VERIF_KNOWN=KNOWN, VERIF_PROP=prop,
               VERIF_REPO=os.environ.get("VERIF_REPO", "/repo"), GORACE="halt_on_error=1")
    env.pop("VERIF_OUT", None)
    cmd = [binary, "-test.run", "^" + (test or cfg["test"]) + "$", "-test.timeout", f"{timeout}s", "-test.count=1", "-test.v"]
    try:
        p = subprocess.run(cmd, cwd=os.path.join(HARNESS, cfg["pkg"]), env=env, capture_output=True, text=True,
                           errors="replace", timeout=timeout + 30)
        return p.returncode, p.stdout + "\n" + p.stderr
    except subprocess.TimeoutExpired:
        return -9, "replay timeout"


def check_known(binary, cfg, prop, lines):
    """Replay pinned reproducers. Returns (violations, known_lines)."""
    viol = []
    for f in load_known():
        if prop not in f.get("properties", []):
            continue
        rep = (f.get("reproducers") or {}).get(prop)  # a reproducer in this check's own case format
        if not rep:
            if f.get("test") and f["test"] != cfg["test"]:
                continue  # the reproducer belongs to another check's case format
            rep = f.get("reproducer")
        if not rep:
            continue
        path = os.path.join(VERIF, rep)
        rc, out = replay_one(binary, cfg, prop, path, None if (f.get("reproducers") or {}).get(prop) else f.get("test"))
        sigs = re.findall(r"REPLAY-KNOWN sig=(\S+)", out)
        if f.get("status") == "open":
            if f.get("signature") in sigs and "REPLAY-FAIL" not in out:
                lines.append(f"KNOWN-FINDING: property={prop} {f['id']}: {f['what']}")
            elif rc != 0 or "REPLAY-FAIL" in out:
                # something else (or more) than the listed finding fails on the pinned input
                dst = save_replay(prop, path)
                log(out[-3000:])
                viol.append((dst, f"pinned reproducer of {f['id']} fails with an unlisted discrepancy"))
            else:
                log(f"note: open finding {f['id']} no longer reproduces on this tree")
        else:  # fixed: must pass (an open finding that the same input also shows is that finding's business)
            if rc != 0 or "REPLAY-FAIL" in out:
                dst = save_replay(prop, path)
                log(out[-3000:])
                viol.append((dst, f"regression: fixed finding {f['id']} is back"))
    return viol


def merge_evidence(prop, cfg, tier, seed, results, wall, violations, known_lines, extra=None):
    evals = 0
    nt = set()
    classes, excluded, hits, samples = {}, {}, {}, []
    extras = {}
    for r in results:
        s = r.get("stats")
        if not s:
            continue
        evals += s.get("evaluations", 0)
        nt.update(s.get("nt_hashes") or [])
        for k, v in (s.get("classes") or {}).items():
            classes[k] = classes.get(k, 0) + v
        for k, v in (s.get("excluded") or {}).items():
            excluded[k] = excluded.get(k, 0) + v
        for k, v in (s.get("known_finding_hits") or {}).items():
            hits[k] = hits.get(k, 0) + v
        for smp in (s.get("samples") or []):
            if len(samples) < 6:
                samples.append(smp)
        for k, v in (s.get("extra") or {}).items():
            if k in cfg.get("extra_max", []):
                extras[k] = max(extras.get(k, 0), v)
            elif isinstance(v, (int, float)) and not isinstance(v, bool):
                extras[k] = extras.get(k, 0) + v
            else:
                extras.setdefault(k, v)
    health = []
    floor = cfg.get("nt_floor", {}).get(tier)
    if floor and len(nt) < floor:
        health.append(f"distinct_nontrivial {len(nt)} below floor {floor}")
    for c in cfg.get("must_classes", []):
        if not classes.get(c):
            health.append(f"class '{c}' never generated")
    cov = dict(evaluations=evals, distinct_nontrivial=len(nt), rule=cfg["rule"], samples=samples,
               classes=dict(sorted(classes.items())), excluded=excluded, known_finding_hits=hits,
               known_findings_reported=known_lines, shards=len(results),
               requested_per_shard=[r["requested"] for r in results],
               generator_health=health)
    if cfg.get("exhaustive_key") and extras.get(cfg["exhaustive_key"]):
        cov["exhaustive"] = True
    cov.update(extras)
    if extra:
        cov.update(extra)
    ev = dict(property_id=prop, tier=tier, seed=seed, level=cfg.get("level", "exploration"), coverage=cov,
              assumptions=cfg.get("assumptions", []), wall_s=round(wall, 2), violations=len(violations))
    os.makedirs(EVID, exist_ok=True)
    tmp = os.path.join(EVID, f".{prop}.json.tmp")
    with open(tmp, "w") as f:
        json.dump(ev, f, indent=1, sort_keys=False)
    os.replace(tmp, os.path.join(EVID, f"{prop}.json"))
    for h in health:
        log(f"generator-health warning [{prop}]: {h}")
    return ev


def run_fuzz(binary, cfg, prop, tier, violations):
    """Bounded native fuzz campaigns (thorough tier only). A crasher becomes a replay file."""
    info = {}
    for target, secs in cfg.get("fuzz", []):
        pkgdir = os.path.join(HARNESS, cfg["pkg"])
        cache = os.path.join(BUILD, "fuzzcache", prop, target)
        os.makedirs(cache, exist_ok=True)
        crashdir = os.path.join(pkgdir, "testdata", "fuzz", target)
        before = set(os.listdir(crashdir)) if os.path.isdir(crashdir) else set()
        env = dict(GOENV, VERIF_KNOWN=KNOWN, VERIF_PROP=prop, VERIF_REPO=os.environ.get("VERIF_REPO", "/repo"))
        env.pop("VERIF_OUT", None)
        cmd = [binary, "-test.run", "^$", "-test.fuzz", "^" + target + "$", "-test.fuzztime", f"{secs}s",
               "-test.fuzzcachedir", cache, "-test.parallel", str(os.cpu_count() or 8)]
        t0 = time.time()
        try:
            p = subprocess.run(cmd, cwd=pkgdir, env=env, capture_output=True, text=True, errors="replace",
                               timeout=secs + 300)
            rc, out = p.returncode, p.stdout + p.stderr
        except subprocess.TimeoutExpired:
            rc, out = -9, "fuzz driver timeout"
        execs = 0
        for m in re.finditer(r"execs: (\d+)", out):
            execs = max(execs, int(m.group(1)))
        info[target] = dict(seconds=round(time.time() - t0, 1), execs=execs, rc=rc)
        after = set(os.listdir(crashdir)) if os.path.isdir(crashdir) else set()
        new = sorted(after - before)
        if rc not in (0, -9) and (new or "FAIL" in out):
            if new:
                src = os.path.join(crashdir, new[0])
                dst = save_replay(prop, src, suffix="fuzz")
                for n in new:
                    os.remove(os.path.join(crashdir, n))
            else:
                dst = save_replay(prop, text=out[-20000:], suffix="log")
            log(out[-3000:])
            violations.append((dst, f"native fuzz target {target} failed"))
        elif rc == -9:
            log(f"fuzz target {target}: time budget exhausted (inconclusive)")
    return info


def run_check(prop, tier):
    cfg = PROPS[prop]
    seed = int(os.environ.get("VERIF_SEED", "1") or "1")
    t0 = time.time()
    binary = build(cfg["pkg"], cfg.get("race", False))
    if not binary:
        return 2
    tcfg = cfg[tier]
    shards = tcfg["shards"]
    per = max(1, tcfg["checks"] // shards)
    maxpar = tcfg.get("parallel", min(shards, os.cpu_count() or 4))
    with ThreadPoolExecutor(max_workers=maxpar) as ex:
        futs = [ex.submit(run_shard, binary, cfg, prop, tier, seed, i, per, tcfg.get("env")) for i in range(shards)]
        results = [f.result() for f in futs]
    violations, infra = [], []
    for r in results:
        s = r["stats"] or {}
        vs = s.get("violations") or []
        crash = CRASH_RE.search(r["stdout"] + "\n" + r["stderr"])
        if r["rc"] == 0:
            if vs:
                for v in vs:
                    violations.append((save_replay(prop, v.get("replay")), v.get("message", "")))
            elif r["passed"] is not None and r["passed"] < r["requested"] and not cfg.get("own_loop"):
                infra.append(f"shard {r['shard']}: only {r['passed']}/{r['requested']} cases ran (deadline)")
            continue
        if vs:
            for v in vs:
                dst = save_replay(prop, v.get("replay")) if v.get("replay") else save_replay(prop, text=r["stdout"][-20000:], suffix="log")
                violations.append((dst, v.get("message", "")))
        elif crash and ("uhn/ggql" in r["stdout"] + r["stderr"] or "DATA RACE" in crash.group(0)):
            crumb = r["outf"] + ".crumb"
            text = ""
            if os.path.exists(crumb):
                text = "=== breadcrumb (last input before the crash) ===\n" + open(crumb, errors="replace").read() + "\n"
            text += "=== output ===\n" + (r["stdout"] + "\n" + r["stderr"])[-30000:]
            violations.append((save_replay(prop, text=text, suffix="crash.log"), "worker died: " + crash.group(0)))
        elif r["rc"] == -9:
            infra.append(f"shard {r['shard']}: driver timeout")
        else:
            infra.append(f"shard {r['shard']}: exit {r['rc']} without a recorded violation:\n" + (r["stdout"] + r["stderr"])[-3000:])
    known_lines = []
    violations += check_known(binary, cfg, prop, known_lines)
    extra = {}
    if tier == "thorough" and cfg.get("fuzz") and not violations:
        extra["native_fuzz"] = run_fuzz(binary, cfg, prop, tier, violations)
    wall = time.time() - t0
    merge_evidence(prop, cfg, tier, seed, results, wall, violations, known_lines, extra)
    for ln in known_lines:
        print(ln)
    for dst, msg in violations:
        print(f"VIOLATION property={prop} replay={dst}")
        log("  " + msg[:2000])
    if violations:
        return 1
    if infra:
        for i in infra:
            log("INFRASTRUCTURE:", i)
        return 2
    tot = sum((r["stats"] or {}).get("evaluations", 0) for r in results)
    print(f"OK property={prop} tier={tier} seed={seed} cases={tot} wall={wall:.1f}s")
    return 0


def main():
    a = sys.argv[1:]
    if not a:
        print(__doc__)
        return 2
    if a[0] == "setup":
        ok = True
        seen = set()
        for prop, cfg in PROPS.items():
            key = (cfg["pkg"], cfg.get("race", False))
            if key in seen:
                continue
            seen.add(key)
            ok = bool(build(*key)) and ok
        return 0 if ok else 2
    if a[0] == "replay":
        prop, path = a[1], os.path.abspath(a[2])
        cfg = PROPS[prop]
        binary = build(cfg["pkg"], cfg.get("race", False))
        if not binary:
            return 2
        rc, out = replay_one(binary, cfg, prop, path)
        print(out[-6000:])
        if "REPLAY-FAIL" in out or rc != 0:
            print(f"VIOLATION property={prop} replay={path}")
            return 1
        return 0
    if a[0] == "all":
        tier = a[1] if len(a) > 1 else "quick"
        worst = 0
        for prop in PROPS:
            rc = run_check(prop, tier)
            worst = max(worst, rc)
        return worst
    prop, tier = a[0], (a[1] if len(a) > 1 else os.environ.get("VERIF_TIER", "quick"))
    if prop not in PROPS or tier not in ("quick", "thorough"):
        print(__doc__)
        return 2
    return run_check(prop, tier)


if __name__ == "__main__":
    sys.exit(main())
