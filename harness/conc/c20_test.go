//go:build verif

// Package conc hosts the concurrency checks: the subscription registry under a
// harness-owned scheduler and under the race detector (C20), and concurrent
// requests on a cold root (C12).
package conc

import (
	"bytes"
	"errors"
	"fmt"
	"os"
	"runtime"
	"sort"
	"strconv"
	"strings"
	"sync"
	"sync/atomic"
	"testing"
	"time"

	"github.com/uhn/ggql/pkg/ggql"
	"pgregory.net/rapid"

	"verifharness/hx"
)

const c20SDL = `
type Query { a: Int }
type Event { n: Int }
type Subscription { watch(id: String!): Event }
`

// ---------------------------------------------------------------------------
// programs

// Op20 is one call of a worker's program.
type Op20 struct {
	Kind     string `json:"kind"` // sub | pub | unsub
	ID       string `json:"id"`
	Wildcard bool   `json:"wildcard,omitempty"`
	Fail     bool   `json:"fail,omitempty"` // sub: every delivery to this subscriber fails
}

func (o Op20) String() string {
	switch o.Kind {
	case "sub":
		k := ""
		if o.Wildcard {
			k = "*"
		}
		if o.Fail {
			k += "!fails"
		}
		return fmt.Sprintf("subscribe(%s%s)", o.ID, k)
	case "pub":
		return fmt.Sprintf("publish(%s)", o.ID)
	}
	return fmt.Sprintf("unsubscribe(%s)", o.ID)
}

type c20Case struct {
	Programs [][]Op20 `json:"programs"`
	Schedule []int    `json:"schedule"`
	Pre      []Op20   `json:"pre,omitempty"` // subscriptions registered before the workers start
}

// ---------------------------------------------------------------------------
// fixtures

type csub struct {
	num      int
	pattern  string
	wildcard bool
	fail     bool
	rec      *recorder

	subscribeReturned int64
	sends             []sendRec
	cleanups          []int64
}

type sendRec struct {
	stamp  int64
	call   int // index of the publish call that sent it (-1 unknown)
	failed bool
}

func (s *csub) Match(id string) bool {
	if s.wildcard {
		return strings.HasPrefix(id, s.pattern)
	}
	return id == s.pattern
}

var errDeliver = errors.New("delivery failed")

func (s *csub) Send(v interface{}) error {
	s.rec.mu.Lock()
	s.sends = append(s.sends, sendRec{stamp: s.rec.tick(), call: s.rec.currentCall(), failed: s.fail})
	s.rec.mu.Unlock()
	if s.fail {
		return errDeliver
	}
	return nil
}

func (s *csub) Unsubscribe() {
	s.rec.mu.Lock()
	s.cleanups = append(s.cleanups, s.rec.tick())
	s.rec.mu.Unlock()
}

type callRec struct {
	worker     int
	op         Op20
	start, end int64
	count      int
	err        bool
	sub        *csub
}

type recorder struct {
	mu      sync.Mutex
	clock   int64
	calls   []*callRec
	subs    []*csub
	curCall sync.Map // goroutine id -> call index
}

func (r *recorder) tick() int64 { return atomic.AddInt64(&r.clock, 1) }

func (r *recorder) currentCall() int {
	if v, ok := r.curCall.Load(goid()); ok {
		return v.(int)
	}
	return -1
}

func goid() int64 {
	var buf [64]byte
	n := runtime.Stack(buf[:], false)
	f := bytes.Fields(buf[:n])
	id, _ := strconv.ParseInt(string(f[1]), 10, 64)
	return id
}

type subRoot struct{ w *world20 }
type subObj struct{ w *world20 }

func (r *subRoot) Resolve(field *ggql.Field, args map[string]interface{}) (interface{}, error) {
	return &subObj{w: r.w}, nil
}

func (o *subObj) Resolve(field *ggql.Field, args map[string]interface{}) (interface{}, error) {
	v, _ := o.w.pending.Load(goid())
	s, _ := v.(*csub)
	if s == nil {
		return nil, fmt.Errorf("no pending subscriber for this goroutine")
	}
	return ggql.NewSubscription(s, field, args), nil
}

type event struct{ N int }

type world20 struct {
	root    *ggql.Root
	rec     *recorder
	pending sync.Map // goroutine id -> *csub
}

func newWorld20() (*world20, error) {
	ggql.Sort = true
	w := &world20{rec: &recorder{}}
	w.root = ggql.NewRoot(&subRoot{w: w})
	if err := w.root.ParseString(c20SDL); err != nil {
		return nil, err
	}
	return w, nil
}

// do executes one op on behalf of a worker and records it.
func (w *world20) do(worker int, op Op20) *callRec {
	rec := w.rec
	cr := &callRec{worker: worker, op: op}
	rec.mu.Lock()
	idx := len(rec.calls)
	rec.calls = append(rec.calls, cr)
	if op.Kind == "sub" {
		cr.sub = &csub{num: len(rec.subs), pattern: op.ID, wildcard: op.Wildcard, fail: op.Fail, rec: rec}
		rec.subs = append(rec.subs, cr.sub)
	}
	cr.start = rec.tick()
	rec.mu.Unlock()
	g := goid()
	rec.curCall.Store(g, idx)
	switch op.Kind {
	case "sub":
		w.pending.Store(g, cr.sub)
		res := w.root.ResolveString(`subscription { watch(id: "`+op.ID+`") { n } }`, "", nil)
		w.pending.Delete(g)
		if _, bad := res["errors"]; bad {
			cr.err = true
		}
	case "pub":
		cnt, err := w.root.AddEvent(op.ID, &event{N: idx})
		cr.count, cr.err = cnt, err != nil
	case "unsub":
		cr.count = w.root.Unsubscribe(op.ID)
	}
	rec.curCall.Delete(g)
	rec.mu.Lock()
	cr.end = rec.tick()
	if cr.sub != nil {
		cr.sub.subscribeReturned = cr.end
	}
	rec.mu.Unlock()
	return cr
}

// ---------------------------------------------------------------------------
// harness-owned scheduler

type parkMsg struct {
	worker int
	site   string
	done   bool
}

type sched struct {
	parkCh  chan parkMsg
	resume  []chan struct{}
	workers sync.Map // goroutine id -> worker index
}

var registrySites = map[string]bool{"start": true, "subscribe": true, "unsubscribe": true, "publish": true, "publish-cleanup": true}

func (s *sched) yield(site string) {
	if !registrySites[site] {
		return // the reflection-binding sites can lie inside the registry's critical section
	}
	v, ok := s.workers.Load(goid())
	if !ok {
		return // not a scheduled goroutine
	}
	w := v.(int)
	s.parkCh <- parkMsg{worker: w, site: site}
	<-s.resume[w]
}

// runScheduled executes the programs under the given schedule. It returns the trace of
// (worker, site) decisions, the number of choices at each decision and whether a deadlock was seen.
func runScheduled(c *c20Case) (w *world20, trace []string, fanout []int, deadlock bool, err error) {
	w, err = newWorld20()
	if err != nil {
		return
	}
	for _, op := range c.Pre {
		w.do(-1, op)
	}
	n := len(c.Programs)
	s := &sched{parkCh: make(chan parkMsg), resume: make([]chan struct{}, n)}
	for i := range s.resume {
		s.resume[i] = make(chan struct{})
	}
	ggql.VerifYield = s.yield
	defer func() { ggql.VerifYield = nil }()
	for i := 0; i < n; i++ {
		go func(i int) {
			s.workers.Store(goid(), i)
			s.yield("start")
			for _, op := range c.Programs[i] {
				w.do(i, op)
			}
			s.workers.Delete(goid())
			s.parkCh <- parkMsg{worker: i, done: true}
		}(i)
	}
	parked := map[int]string{}
	active := n
	wait := func() bool { // wait for one message; false on watchdog
		select {
		case m := <-s.parkCh:
			if m.done {
				active--
			} else {
				parked[m.worker] = m.site
			}
			return true
		case <-time.After(10 * time.Second):
			// the clock only decides when to look: it is a deadlock if a worker sits in a lock wait
			// (twice in a row); a worker that is merely slow is running or runnable and is waited for
			for tries := 0; tries < 30; tries++ {
				if syncParked("conc.runScheduled.func") > 0 {
					time.Sleep(time.Second)
					if syncParked("conc.runScheduled.func") > 0 {
						return false
					}
				}
				select {
				case m := <-s.parkCh:
					if m.done {
						active--
					} else {
						parked[m.worker] = m.site
					}
					return true
				case <-time.After(10 * time.Second):
				}
			}
			return false
		}
	}
	for len(parked) < n {
		if !wait() {
			return w, trace, fanout, true, nil
		}
	}
	k := 0
	for active > 0 {
		var choices []int
		for wk := range parked {
			choices = append(choices, wk)
		}
		sort.Ints(choices)
		if len(choices) == 0 {
			return w, trace, fanout, true, nil
		}
		pick := 0
		if k < len(c.Schedule) {
			pick = c.Schedule[k] % len(choices)
		}
		k++
		fanout = append(fanout, len(choices))
		wk := choices[pick]
		trace = append(trace, fmt.Sprintf("w%d@%s", wk, parked[wk]))
		delete(parked, wk)
		s.resume[wk] <- struct{}{}
		if !wait() {
			return w, trace, fanout, true, nil
		}
	}
	return w, trace, fanout, false, nil
}

// ---------------------------------------------------------------------------
// oracle: the conditions the statement enumerates, on stamped logs

func checkLogs(w *world20, programs [][]Op20, pre []Op20) (problems []string) {
	rec := w.rec
	bad := func(format string, args ...interface{}) { problems = append(problems, fmt.Sprintf(format, args...)) }
	for _, s := range rec.subs {
		// (1) at most one delivery per (publish, subscriber)
		perCall := map[int]int{}
		for _, sd := range s.sends {
			perCall[sd.call]++
		}
		for call, n := range perCall {
			if n > 1 {
				bad("subscriber #%d received %d deliveries of one publish (call %d %v)", s.num, n, call, rec.calls[call].op)
			}
		}
		// (2) at most one clean-up
		if len(s.cleanups) > 1 {
			bad("subscriber #%d was cleaned up %d times", s.num, len(s.cleanups))
		}
		// (3) nothing is delivered after the unsubscribe call that removed it has returned
		for _, cr := range rec.calls {
			if cr.op.Kind != "unsub" || !s.Match(cr.op.ID) || s.subscribeReturned == 0 || cr.start < s.subscribeReturned {
				continue
			}
			for _, sd := range s.sends {
				if sd.stamp > cr.end {
					bad("subscriber #%d (%q) received a message at t=%d after %v returned at t=%d", s.num, s.pattern, sd.stamp, cr.op, cr.end)
				}
			}
		}
		// a delivery always belongs to a publish whose id the subscriber matches
		for _, sd := range s.sends {
			if sd.call >= 0 && !s.Match(rec.calls[sd.call].op.ID) {
				bad("subscriber #%d (%q) received the event of %v", s.num, s.pattern, rec.calls[sd.call].op)
			}
		}
	}
	// (4) an event published after a subscription request returned reaches that subscriber
	for ci, cr := range rec.calls {
		if cr.op.Kind != "pub" {
			continue
		}
		for _, s := range rec.subs {
			if s.subscribeReturned == 0 || s.subscribeReturned > cr.start || !s.Match(cr.op.ID) {
				continue
			}
			removed := false
			for _, other := range rec.calls {
				if other.op.Kind == "unsub" && s.Match(other.op.ID) && other.start < cr.end {
					removed = true
				}
			}
			for _, sd := range s.sends {
				if sd.failed && sd.stamp < cr.end && sd.call != ci {
					removed = true // a failed delivery removes the subscriber
				}
			}
			if removed {
				continue
			}
			got := false
			for _, sd := range s.sends {
				if sd.call == ci {
					got = true
				}
			}
			if !got {
				bad("%v started at t=%d, after subscriber #%d (%q) was registered (t=%d), but never reached it", cr.op, cr.start, s.num, s.pattern, s.subscribeReturned)
			}
		}
	}
	// subscription requests succeed
	for _, cr := range rec.calls {
		if cr.op.Kind == "sub" && cr.err {
			bad("%v returned errors", cr.op)
		}
	}
	// the registry the calls leave behind is one some sequential order leaves behind: probed with one
	// publish per id after everything has returned (worker -2)
	lo, hi, always, ever := sequentialOutcomes(programs, pre)
	firstProbe := -1
	for ci, cr := range rec.calls {
		if cr.worker == -2 && firstProbe < 0 {
			firstProbe = ci
		}
	}
	if firstProbe >= 0 {
		for _, cr := range rec.calls {
			if cr.sub == nil || cr.worker == -2 {
				continue
			}
			key := callKey(cr.worker, indexInProgram(rec, cr))
			reached, probed := false, false
			for _, id := range ids20 {
				if cr.sub.Match(id) {
					probed = true
				}
			}
			for _, sd := range cr.sub.sends {
				if sd.call >= firstProbe {
					reached = true
				}
			}
			switch {
			case probed && always[key] && !reached:
				bad("subscriber #%d (%q, registered by %v) is registered at the end of every sequential order of the calls, but an event published after all calls returned did not reach it", cr.sub.num, cr.sub.pattern, cr.op)
			case !ever[key] && reached:
				bad("subscriber #%d (%q, registered by %v) is gone at the end of every sequential order of the calls, but an event published after all calls returned reached it", cr.sub.num, cr.sub.pattern, cr.op)
			}
		}
	}
	// returned counts lie within what some sequential order of the same calls allows
	for _, cr := range rec.calls {
		if cr.worker < 0 || cr.op.Kind == "sub" {
			continue
		}
		key := callKey(cr.worker, indexInProgram(rec, cr))
		if cr.count < lo[key] || cr.count > hi[key] {
			bad("%v (worker %d) returned %d, every sequential order of the calls gives %d..%d", cr.op, cr.worker, cr.count, lo[key], hi[key])
		}
	}
	return
}

func callKey(worker, idx int) string { return fmt.Sprintf("%d/%d", worker, idx) }

func indexInProgram(rec *recorder, cr *callRec) int {
	n := 0
	for _, other := range rec.calls {
		if other == cr {
			return n
		}
		if other.worker == cr.worker {
			n++
		}
	}
	return n
}

// sequentialBounds enumerates every interleaving of the programs at call granularity on the
// list model and returns the minimum and maximum count each call can return.
func sequentialBounds(programs [][]Op20, pre []Op20) (lo, hi map[string]int) {
	lo, hi, _, _ = sequentialOutcomes(programs, pre)
	return
}

// sequentialOutcomes is sequentialBounds plus the final registry: the subscribers (named by the
// call that registered them) that are registered at the end of EVERY sequential order, and those
// registered at the end of at least one.
func sequentialOutcomes(programs [][]Op20, pre []Op20) (lo, hi map[string]int, always, ever map[string]bool) {
	lo, hi = map[string]int{}, map[string]int{}
	ever = map[string]bool{}
	leaves := 0
	liveCount := map[string]int{}
	type msub struct {
		pattern  string
		wildcard bool
		fail     bool
		key      string
	}
	match := func(s msub, id string) bool {
		if s.wildcard {
			return strings.HasPrefix(id, s.pattern)
		}
		return id == s.pattern
	}
	var rec func(pos []int, live []msub)
	curKey := ""
	apply := func(op Op20, live []msub) ([]msub, int) {
		switch op.Kind {
		case "sub":
			return append(append([]msub{}, live...), msub{op.ID, op.Wildcard, op.Fail, curKey}), 0
		case "pub":
			cnt := 0
			var keep []msub
			for _, s := range live {
				if match(s, op.ID) {
					cnt++
					if s.fail {
						continue
					}
				}
				keep = append(keep, s)
			}
			return keep, cnt
		default:
			cnt := 0
			var keep []msub
			for _, s := range live {
				if match(s, op.ID) {
					cnt++
				} else {
					keep = append(keep, s)
				}
			}
			return keep, cnt
		}
	}
	rec = func(pos []int, live []msub) {
		done := true
		for w := range programs {
			if pos[w] < len(programs[w]) {
				done = false
			}
		}
		if done {
			leaves++
			for _, m := range live {
				liveCount[m.key]++
				ever[m.key] = true
			}
			return
		}
		for w := range programs {
			if pos[w] >= len(programs[w]) {
				continue
			}
			op := programs[w][pos[w]]
			curKey = callKey(w, pos[w])
			nl, cnt := apply(op, live)
			key := callKey(w, pos[w])
			if cur, ok := lo[key]; !ok || cnt < cur {
				lo[key] = cnt
			}
			if cur, ok := hi[key]; !ok || cnt > cur {
				hi[key] = cnt
			}
			np := append([]int{}, pos...)
			np[w]++
			rec(np, nl)
		}
	}
	var live []msub
	for i, op := range pre {
		curKey = callKey(-1, i)
		live, _ = apply(op, live)
	}
	rec(make([]int, len(programs)), live)
	always = map[string]bool{}
	for k, n := range liveCount {
		if n == leaves {
			always[k] = true
		}
	}
	return
}

// ---------------------------------------------------------------------------

var ids20 = []string{"a", "b", "a1"}

func genOp20(t *rapid.T, label string) Op20 {
	kind := rapid.SampledFrom([]string{"sub", "pub", "pub", "unsub"}).Draw(t, label+"kind")
	op := Op20{Kind: kind, ID: rapid.SampledFrom(ids20).Draw(t, label+"id")}
	if kind == "sub" {
		if rapid.IntRange(0, 2).Draw(t, label+"wild") == 0 {
			op.Wildcard, op.ID = true, rapid.SampledFrom([]string{"a", ""}).Draw(t, label+"prefix")
		}
		op.Fail = rapid.IntRange(0, 2).Draw(t, label+"fail") == 0
	}
	return op
}

func genCaseC20(t *rapid.T) *c20Case {
	c := &c20Case{}
	for i := 0; i < rapid.IntRange(0, 3).Draw(t, "nPre"); i++ {
		op := genOp20(t, fmt.Sprintf("pre%d", i))
		op.Kind = "sub"
		if rapid.Bool().Draw(t, fmt.Sprintf("pre%dfail", i)) {
			op.Fail = true
		}
		c.Pre = append(c.Pre, op)
	}
	n := rapid.IntRange(2, 4).Draw(t, "workers")
	for w := 0; w < n; w++ {
		var prog []Op20
		for j := 0; j < rapid.IntRange(1, 3).Draw(t, fmt.Sprintf("w%dlen", w)); j++ {
			prog = append(prog, genOp20(t, fmt.Sprintf("w%d_%d", w, j)))
		}
		c.Programs = append(c.Programs, prog)
	}
	c.Schedule = rapid.SliceOfN(rapid.IntRange(0, 3), 0, 40).Draw(t, "schedule")
	return c
}

func describe20(c *c20Case, trace []string) string {
	var b strings.Builder
	fmt.Fprintf(&b, "pre-registered: %v\n", c.Pre)
	for i, p := range c.Programs {
		fmt.Fprintf(&b, "worker %d: %v\n", i, p)
	}
	fmt.Fprintf(&b, "schedule (worker@site released one at a time): %v", trace)
	return b.String()
}

func blocks(c *c20Case) int {
	n := 0
	for _, p := range c.Programs {
		n++ // start
		for _, op := range p {
			if op.Kind == "pub" {
				n += 2
			} else {
				n++
			}
		}
	}
	return n
}

// interleavesPublish reports whether another worker ran between the two phases of some publish.
func interleavesPublish(trace []string) bool {
	for i, tr := range trace {
		if strings.HasSuffix(tr, "@publish") {
			w := tr[:strings.IndexByte(tr, '@')]
			for j := i + 1; j < len(trace); j++ {
				if strings.HasPrefix(trace[j], w+"@") {
					break
				}
				return true
			}
		}
	}
	return false
}

func runOne20(c *c20Case) (ds []hx.Discrepancy, trace []string, fanout []int) {
	w, trace, fanout, deadlock, err := runScheduled(c)
	if err != nil {
		return []hx.Discrepancy{{Kind: "setup", Detail: err.Error()}}, trace, fanout
	}
	if deadlock {
		return []hx.Discrepancy{{Kind: "deadlock", Detail: "a worker sits in a lock wait and neither reaches its next yield point nor returns\n" + describe20(c, trace)}}, trace, fanout
	}
	// (the probe publishes run on a goroutine of their own: a lock that one of the calls above kept
	// shows as a probe parked for good)
	probed := make(chan struct{})
	go c20Probe(w, probed)
	if stuck := hx.AwaitOrStuck(probed, "conc.c20Probe"); stuck != "" {
		return []hx.Discrepancy{{Kind: "deadlock", Detail: "a publish after all the calls had returned never returns (a lock was kept): " + hx.Trunc(stuck, 1500) + "\n" + describe20(c, trace)}}, trace, fanout
	}
	for _, p := range checkLogs(w, c.Programs, c.Pre) {
		ds = append(ds, hx.Discrepancy{Kind: "registry", Detail: p + "\n" + describe20(c, trace)})
	}
	return
}

// enumerate runs every block interleaving of the programs (depth-first over the choice points).
func enumerate(c *c20Case, limit int, visit func(cc *c20Case, ds []hx.Discrepancy, trace []string) bool) (runs int, complete bool) {
	var prefix []int
	for {
		cc := &c20Case{Programs: c.Programs, Pre: c.Pre, Schedule: append([]int{}, prefix...)}
		ds, trace, fanout := runOne20(cc)
		runs++
		if !visit(cc, ds, trace) || runs >= limit {
			return runs, false
		}
		// next schedule in lexicographic order
		full := make([]int, len(fanout))
		copy(full, prefix)
		i := len(fanout) - 1
		for ; i >= 0; i-- {
			if full[i]+1 < fanout[i] {
				break
			}
		}
		if i < 0 {
			return runs, true
		}
		prefix = append(append([]int{}, full[:i]...), full[i]+1)
	}
}

func TestC20(t *testing.T) {
	run := hx.NewRun("C20")
	defer run.Flush()
	record := func(c *c20Case, trace []string, extra ...string) {
		cl := append([]string{fmt.Sprintf("workers=%d", len(c.Programs))}, extra...)
		nt := interleavesPublish(trace)
		if nt {
			cl = append(cl, "publish-phases-interleaved")
		}
		run.Case(hx.Hash(map[string]interface{}{"p": c.Programs, "pre": c.Pre, "t": trace}), nt, cl...)
		run.Sample(func() interface{} {
			return map[string]interface{}{"programs": fmt.Sprint(c.Programs), "pre": fmt.Sprint(c.Pre), "schedule": trace}
		})
	}
	if f := hx.Replaying(); f != "" {
		var c c20Case
		if err := hx.LoadCase(f, &c); err != nil {
			t.Fatalf("load %s: %v", f, err)
		}
		ds, trace, _ := runOne20(&c)
		record(&c, trace)
		if real := run.Triage(ds); len(real) > 0 {
			t.Fatalf("REPLAY-FAIL %s", run.ReportFailure(&c, real))
		}
		return
	}
	// Part 1: canonical small programs, every block interleaving enumerated.
	canon := []*c20Case{
		{Pre: []Op20{{Kind: "sub", ID: "a", Fail: true}}, Programs: [][]Op20{{{Kind: "pub", ID: "a"}}, {{Kind: "pub", ID: "a"}}}},
		{Pre: []Op20{{Kind: "sub", ID: "a", Fail: true}, {Kind: "sub", ID: "a"}}, Programs: [][]Op20{{{Kind: "pub", ID: "a"}}, {{Kind: "unsub", ID: "a"}}}},
		{Pre: []Op20{{Kind: "sub", ID: "a"}}, Programs: [][]Op20{{{Kind: "pub", ID: "a"}, {Kind: "pub", ID: "a"}}, {{Kind: "unsub", ID: "a"}}, {{Kind: "sub", ID: "a"}}}},
		{Programs: [][]Op20{{{Kind: "sub", ID: "a"}, {Kind: "pub", ID: "a"}}, {{Kind: "sub", ID: "", Wildcard: true, Fail: true}, {Kind: "pub", ID: "a1"}}, {{Kind: "unsub", ID: "a"}}}},
		{Pre: []Op20{{Kind: "sub", ID: "a", Fail: true}, {Kind: "sub", ID: "b"}}, Programs: [][]Op20{{{Kind: "pub", ID: "a"}}, {{Kind: "pub", ID: "a"}}, {{Kind: "pub", ID: "b"}, {Kind: "unsub", ID: "b"}}}},
		// the registry changes around a failed subscriber between the two phases of the publish that failed on it:
		// others registered before it are removed (it moves down), others are added (it stays), both
		{Pre: []Op20{{Kind: "sub", ID: "a"}, {Kind: "sub", ID: "b", Fail: true}}, Programs: [][]Op20{{{Kind: "pub", ID: "b"}}, {{Kind: "unsub", ID: "a"}}}},
		{Pre: []Op20{{Kind: "sub", ID: "a"}, {Kind: "sub", ID: "a1"}, {Kind: "sub", ID: "b", Fail: true}, {Kind: "sub", ID: "b"}}, Programs: [][]Op20{{{Kind: "pub", ID: "b"}}, {{Kind: "unsub", ID: "a"}, {Kind: "unsub", ID: "a1"}}}},
		{Pre: []Op20{{Kind: "sub", ID: "a"}, {Kind: "sub", ID: "b", Fail: true}, {Kind: "sub", ID: "a", Fail: true}}, Programs: [][]Op20{{{Kind: "pub", ID: "b"}}, {{Kind: "pub", ID: "a"}}, {{Kind: "sub", ID: "b"}}}},
		// one publish fails on two subscribers, and between its two phases somebody else removes one of
		// them: the earlier one, the later one (the other is still the publish's to remove, once)
		{Pre: []Op20{{Kind: "sub", ID: "a", Wildcard: true, Fail: true}, {Kind: "sub", ID: "a1", Fail: true}}, Programs: [][]Op20{{{Kind: "pub", ID: "a1"}, {Kind: "pub", ID: "a1"}}, {{Kind: "unsub", ID: "a"}}}},
		{Pre: []Op20{{Kind: "sub", ID: "a1", Fail: true}, {Kind: "sub", ID: "a", Wildcard: true, Fail: true}, {Kind: "sub", ID: "a1"}}, Programs: [][]Op20{{{Kind: "pub", ID: "a1"}, {Kind: "pub", ID: "a1"}}, {{Kind: "unsub", ID: "a"}}}},
	}
	exhaustiveRuns := 0
	allComplete := true
	for _, c := range canon {
		runs, complete := enumerate(c, 100000, func(cc *c20Case, ds []hx.Discrepancy, trace []string) bool {
			record(cc, trace, "exhaustive-part")
			if real := run.Triage(ds); len(real) > 0 {
				t.Fatalf("C20 violated: %s", run.ReportFailure(cc, real))
			}
			return true
		})
		exhaustiveRuns += runs
		allComplete = allComplete && complete
	}
	run.Extra("exhaustive_interleavings", exhaustiveRuns)
	run.Extra("exhaustive_programs", len(canon))
	if !allComplete {
		run.Extra("exhaustive_incomplete", true)
	}
	// Part 2: generated programs; small ones enumerated completely, larger ones under a drawn schedule.
	enumerated := 0
	rapid.Check(t, func(rt *rapid.T) {
		c := genCaseC20(rt)
		if blocks(c) <= 8 {
			enumerated++
			enumerate(c, 3000, func(cc *c20Case, ds []hx.Discrepancy, trace []string) bool {
				record(cc, trace, "generated-program-enumerated")
				if real := run.Triage(ds); len(real) > 0 {
					rt.Fatalf("C20 violated: %s", run.ReportFailure(cc, real))
				}
				return true
			})
			return
		}
		ds, trace, _ := runOne20(c)
		record(c, trace, "generated-program-sampled-schedule")
		if real := run.Triage(ds); len(real) > 0 {
			rt.Fatalf("C20 violated: %s", run.ReportFailure(c, real))
		}
	})
	run.Extra("generated_programs_enumerated", enumerated)
	// Part 3: unscheduled stress under the race detector (hooks inert).
	stress20(t, run)
	// Part 4: wide fan-out - a registry of a hundred and more subscribers that stay, while others in
	// front of them come and go.
	fanout20(t, run)
}

// fanout20: many subscribers that are never removed (exact "a", never failing) sit behind a few
// that are removed and re-made all the time (prefix "", some failing: removed by Unsubscribe("b")
// and by the publishers' own clean-up). Every publish of "a" happens after all the stable ones were
// subscribed and none of them is ever unsubscribed: each must get every event exactly once and each
// publish must count them all.
func fanout20(t *testing.T, run *hx.Run) {
	rounds := 3
	if n, err := strconv.Atoi(getenv("VERIF_CHECKS", "0")); err == nil && n > 2000 {
		rounds = 16
	}
	seed := int64(1)
	if n, err := strconv.ParseInt(getenv("VERIF_SEED", "1"), 10, 64); err == nil {
		seed = n
	}
	for r := 0; r < rounds; r++ {
		w, err := newWorld20()
		if err != nil {
			t.Fatal(err)
		}
		x := uint64(seed)*2654435761 + uint64(r)*40503
		nVolatile := 3 + int(x>>8)%8
		nStable := 66 + int(x>>16)%140
		for i := 0; i < nVolatile; i++ {
			w.do(-1, Op20{Kind: "sub", ID: "", Wildcard: true, Fail: i%3 == 1})
		}
		for i := 0; i < nStable; i++ {
			w.do(-1, Op20{Kind: "sub", ID: "a"})
		}
		const publishers, churners, perPublisher, perChurner = 3, 3, 120, 80
		var wg sync.WaitGroup
		start := make(chan struct{})
		for i := 0; i < publishers; i++ {
			var prog []Op20
			for j := 0; j < perPublisher; j++ {
				prog = append(prog, Op20{Kind: "pub", ID: "a"})
			}
			wg.Add(1)
			go c20FanoutWorker(w, i, prog, start, &wg)
		}
		for i := 0; i < churners; i++ {
			var prog []Op20
			for j := 0; j < perChurner; j++ {
				prog = append(prog, Op20{Kind: "unsub", ID: "b"}, Op20{Kind: "sub", ID: "", Wildcard: true, Fail: (i+j)%4 == 0})
			}
			wg.Add(1)
			go c20FanoutWorker(w, publishers+i, prog, start, &wg)
		}
		close(start)
		done := make(chan struct{})
		go func() { wg.Wait(); close(done) }()
		what := fmt.Sprintf("fan-out round %d: %d subscribers (prefix \"\", some failing) in front, %d stable subscribers of \"a\", %d publishers x %d publish(\"a\"), %d goroutines x %d (Unsubscribe(\"b\"), subscribe prefix \"\")",
			r, nVolatile, nStable, publishers, perPublisher, churners, perChurner)
		if stuck := hx.AwaitOrStuck(done, "conc.c20FanoutWorker"); stuck != "" {
			d := []hx.Discrepancy{{Kind: "deadlock", Detail: what + ": " + stuck}}
			fmt.Printf("--- FAIL: C20 violated: %s\n", run.ReportFailure(map[string]interface{}{"fanout": what}, d))
			os.Exit(1)
		}
		probs := checkLogsStress(w)
		total := publishers * perPublisher
		for _, s := range w.rec.subs {
			if s.wildcard {
				continue
			}
			if len(s.sends) != total {
				probs = append(probs, fmt.Sprintf("stable subscriber #%d (subscribed before any publish, never unsubscribed, never failing) received %d of the %d events published", s.num, len(s.sends), total))
			}
			if len(s.cleanups) != 0 {
				probs = append(probs, fmt.Sprintf("stable subscriber #%d was cleaned up although nothing removed it", s.num))
			}
		}
		for _, cr := range w.rec.calls {
			if cr.op.Kind == "pub" && cr.count < nStable {
				probs = append(probs, fmt.Sprintf("a publish of \"a\" reported %d matching subscribers, %d are registered throughout", cr.count, nStable))
			}
		}
		run.Case(hx.Hash(map[string]interface{}{"fanout": what}), true, "wide-fan-out-round(-race)")
		if len(probs) > 0 {
			if len(probs) > 6 {
				probs = append(probs[:6], fmt.Sprintf("... and %d more", len(probs)-6))
			}
			d := []hx.Discrepancy{{Kind: "registry", Detail: strings.Join(probs, "; ") + "\n" + what}}
			t.Fatalf("C20 violated: %s", run.ReportFailure(map[string]interface{}{"fanout": what}, d))
		}
	}
	run.Extra("fanout_rounds", rounds)
}

func c20FanoutWorker(w *world20, i int, program []Op20, start chan struct{}, wg *sync.WaitGroup) {
	defer wg.Done()
	<-start
	for _, op := range program {
		w.do(i, op)
	}
}

// stress20 hammers one root from many goroutines with the real scheduler; the race detector
// (the engine is built with -race) and a deadlock watchdog are the extra oracles.
func stress20(t *testing.T, run *hx.Run) {
	rounds := 30
	if n, err := strconv.Atoi(getenv("VERIF_CHECKS", "0")); err == nil && n > 2000 {
		rounds = 300
	}
	seed := int64(1)
	if n, err := strconv.ParseInt(getenv("VERIF_SEED", "1"), 10, 64); err == nil {
		seed = n
	}
	for r := 0; r < rounds; r++ {
		w, err := newWorld20()
		if err != nil {
			t.Fatal(err)
		}
		g := 4 + r%13
		programs := make([][]Op20, g)
		for i := range programs {
			x := uint64(seed)*1000003 + uint64(r)*7919 + uint64(i)*104729
			for j := 0; j < 6; j++ {
				x = x*6364136223846793005 + 1442695040888963407
				op := Op20{Kind: []string{"sub", "pub", "pub", "unsub"}[(x>>33)%4], ID: ids20[(x>>40)%3]}
				if op.Kind == "sub" {
					op.Fail = (x>>45)%3 == 0
					if (x>>47)%3 == 0 {
						op.Wildcard, op.ID = true, "a"
					}
				}
				programs[i] = append(programs[i], op)
			}
		}
		var wg sync.WaitGroup
		start := make(chan struct{})
		for i := range programs {
			wg.Add(1)
			go c20StressWorker(w, i, programs[i], start, &wg)
		}
		close(start)
		done := make(chan struct{})
		go func() { wg.Wait(); close(done) }()
		if stuck := hx.AwaitOrStuck(done, "conc.c20StressWorker"); stuck != "" {
			d := []hx.Discrepancy{{Kind: "deadlock", Detail: fmt.Sprintf("stress round %d with %d goroutines: %s\nprograms: %v", r, g, stuck, programs)}}
			fmt.Printf("--- FAIL: C20 violated: %s\n", run.ReportFailure(map[string]interface{}{"stress_programs": programs}, d))
			os.Exit(1)
		}
		// conditions 1-3 hold for any schedule (stamps are taken under the recorder's lock)
		var probs []string
		for _, p := range checkLogsStress(w) {
			probs = append(probs, p)
		}
		run.Case(hx.Hash(map[string]interface{}{"stress": programs}), true, "stress-round(-race)")
		if len(probs) > 0 {
			d := []hx.Discrepancy{{Kind: "registry", Detail: strings.Join(probs, "; ") + fmt.Sprintf("\nstress programs: %v", programs)}}
			t.Fatalf("C20 violated: %s", run.ReportFailure(map[string]interface{}{"stress_programs": programs}, d))
		}
	}
	run.Extra("stress_rounds", rounds)
}

func checkLogsStress(w *world20) (problems []string) {
	rec := w.rec
	for _, s := range rec.subs {
		perCall := map[int]int{}
		for _, sd := range s.sends {
			perCall[sd.call]++
		}
		for call, n := range perCall {
			if n > 1 {
				problems = append(problems, fmt.Sprintf("subscriber #%d received %d deliveries of one publish (call %d)", s.num, n, call))
			}
		}
		if len(s.cleanups) > 1 {
			problems = append(problems, fmt.Sprintf("subscriber #%d was cleaned up %d times", s.num, len(s.cleanups)))
		}
		// a publish whose delivery to the subscriber failed has removed it by the time it returns: no
		// publish that STARTS after that return reaches it (in no sequential order of the calls would one)
		for _, sd := range s.sends {
			if !sd.failed || sd.call < 0 || sd.call >= len(rec.calls) {
				continue
			}
			failedEnd := rec.calls[sd.call].end
			for _, later := range s.sends {
				if later.call >= 0 && later.call < len(rec.calls) && failedEnd > 0 && rec.calls[later.call].start > failedEnd {
					problems = append(problems, fmt.Sprintf("subscriber #%d: the publish (call %d) whose delivery to it failed returned at t=%d, a publish that started at t=%d (call %d) still delivered to it", s.num, sd.call, failedEnd, rec.calls[later.call].start, later.call))
					break
				}
			}
		}
		for _, cr := range rec.calls {
			if cr.op.Kind != "unsub" || !s.Match(cr.op.ID) || s.subscribeReturned == 0 || cr.start < s.subscribeReturned {
				continue
			}
			for _, sd := range s.sends {
				if sd.stamp > cr.end {
					problems = append(problems, fmt.Sprintf("subscriber #%d received a message (t=%d) after %v returned (t=%d)", s.num, sd.stamp, cr.op, cr.end))
				}
			}
		}
	}
	return
}

func getenv(k, d string) string {
	if v := strings.TrimSpace(envLookup(k)); v != "" {
		return v
	}
	return d
}

// syncParked counts the goroutines with the marker frame that are parked in a lock wait.
func syncParked(marker string) int {
	buf := make([]byte, 8<<20)
	buf = buf[:runtime.Stack(buf, true)]
	n := 0
	for _, g := range strings.Split(string(buf), "\n\n") {
		if !strings.Contains(g, marker) {
			continue
		}
		head := g
		if i := strings.IndexByte(g, '\n'); i >= 0 {
			head = g[:i]
		}
		i, j := strings.IndexByte(head, '['), strings.IndexByte(head, ']')
		if i < 0 || j < i {
			continue
		}
		state := head[i+1 : j]
		if k := strings.IndexByte(state, ','); k >= 0 {
			state = state[:k]
		}
		if strings.HasPrefix(state, "sync.Mutex") || strings.HasPrefix(state, "sync.RWMutex") || state == "semacquire" {
			n++
		}
	}
	return n
}

func c20StressWorker(w *world20, i int, program []Op20, start chan struct{}, wg *sync.WaitGroup) {
	defer wg.Done()
	<-start
	for _, op := range program {
		w.do(i, op)
	}
}

func c20Probe(w *world20, done chan struct{}) {
	defer close(done)
	for _, id := range ids20 {
		w.do(-2, Op20{Kind: "pub", ID: id})
	}
}
