//go:build verif

package conc

import (
	"encoding/json"
	"fmt"
	"os"
	"runtime"
	"sort"
	"sync"
	"testing"

	"github.com/uhn/ggql/pkg/ggql"
	"pgregory.net/rapid"

	"verifharness/exec"
	"verifharness/hx"
)

const c12Introspection = `{__schema{queryType{name} types{name kind fields(includeDeprecated:true){name type{name kind ofType{name kind}} args{name}} interfaces{name} possibleTypes{name} enumValues{name}} directives{name locations}}}`

type c12Request struct {
	Text string                 `json:"text"`
	Op   string                 `json:"op"`
	Vars []hx.KV                `json:"vars,omitempty"`
	vars map[string]interface{} `json:"-"`
}

type c12Case struct {
	Base       *exec.Case   `json:"base"`
	Requests   []c12Request `json:"requests"`
	Goroutines int          `json:"goroutines"`
	Assignment []int        `json:"assignment"` // request index -> goroutine
	Jitter     int          `json:"jitter"`
}

// genIntrospection draws an introspection request: the whole schema or one type, deprecated members
// included, excluded or not mentioned.
func genIntrospection(t *rapid.T, s *hx.Schema, label string) string {
	inc := rapid.SampledFrom([]string{"(includeDeprecated:true)", "(includeDeprecated:false)", ""}).Draw(t, label+"inc")
	body := rapid.SampledFrom([]string{
		"name kind fields" + inc + "{name type{name kind ofType{name kind}} args{name defaultValue}} interfaces{name} possibleTypes{name} enumValues" + inc + "{name}",
		"name fields" + inc + "{name isDeprecated}",
		"name possibleTypes{name} interfaces{name}",
		"name kind inputFields{name} enumValues" + inc + "{name isDeprecated deprecationReason}",
	}).Draw(t, label+"body")
	switch rapid.IntRange(0, 5).Draw(t, label+"shape") {
	case 4:
		// requests whose __schema selection reads the same and means something else: the fragment
		// of that name has another body
		return "{__schema{...S}} fragment S on __Schema {" + rapid.SampledFrom([]string{"queryType{name}", "types{name}", "directives{name}", "types{kind} queryType{kind}"}).Draw(t, label+"fragBody") + "}"
	case 5:
		// ... the variable deciding a condition beneath it has another value
		return "query I($v: Boolean = " + rapid.SampledFrom([]string{"true", "false"}).Draw(t, label+"cond") + "){__schema{queryType{name} types{name @include(if: $v) kind}}}"
	case 0:
		return c12Introspection
	case 1:
		return "{__schema{queryType{name} types{" + body + "} directives{name locations args{name}}}}"
	default:
		var names []string
		for _, td := range s.Types {
			names = append(names, td.Name)
		}
		names = append(names, "__Type", "__Schema", "Nope")
		return fmt.Sprintf("{__type(name:%q){%s}}", rapid.SampledFrom(names).Draw(t, label+"type"), body)
	}
}

func goVars12(kvs []hx.KV) map[string]interface{} {
	if len(kvs) == 0 {
		return nil
	}
	m := map[string]interface{}{}
	for _, kv := range kvs {
		m[kv.Key] = kv.V.Go()
	}
	return m
}

func genCaseC12(t *rapid.T) *c12Case {
	base := &exec.Case{ListSeed: rapid.IntRange(0, 1<<20).Draw(t, "listSeed")}
	exec.GenUniverse(t, exec.UniverseOpts{Abstract: rapid.IntRange(0, 2).Draw(t, "abstract") != 0, Renames: rapid.Bool().Draw(t, "renames")}, base)
	exec.GenUniverseGraph(t, base)
	// strategy: reflection only, or reflection mixed with Resolver objects (never under abstract types), or root resolver
	mode := rapid.SampledFrom([]string{"X", "X", "RX", "A"}).Draw(t, "mode")
	hasAbstract := base.Schema.Type("Named") != nil
	if hasAbstract {
		mode = "X"
	}
	for _, n := range base.Graph.Nodes {
		switch mode {
		case "X":
			base.Assign = append(base.Assign, "X")
		case "RX":
			if n.Type == "" || n.Type == "Query" {
				base.Assign = append(base.Assign, "X")
			} else {
				base.Assign = append(base.Assign, "")
			}
		case "A":
			base.Assign = append(base.Assign, "A")
			base.AnyInstalled = true
		}
	}
	if mode == "RX" {
		fam := map[string]string{}
		for i, n := range base.Graph.Nodes {
			if base.Assign[i] != "" {
				continue
			}
			if _, ok := fam[n.Type]; !ok {
				fam[n.Type] = rapid.SampledFrom([]string{"R", "X"}).Draw(t, "fam"+n.Type)
			}
			base.Assign[i] = fam[n.Type]
		}
	}
	if rapid.IntRange(0, 2).Draw(t, "refusedLoad") == 0 {
		// a reload that validation refuses came before the requests (the root is as before, and must
		// be as safe to share as before)
		base.RefusedSDL = rapid.SampledFrom([]string{"type ZqEmptyRefused {}", "type ZqRefused { a: Int @skip(if: true) }\ninput ZqIn { q: ZqRefused }", "directive @zqd(p: Int = 1) on OBJECT\ntype ZqR @zqd(p: 2) { a: ZqNope }"}).Draw(t, "refusedDoc")
	}
	c := &c12Case{Base: base}
	nReq := rapid.IntRange(4, 24).Draw(t, "nRequests")
	// fields that no member of the Go type answers to: discovering that is a first-use path of its own
	// (the binding attempt fails, every time, for every request that selects the field)
	ghost := mode == "X" && rapid.IntRange(0, 2).Draw(t, "ghost") == 0
	var ghostOn []string
	if ghost {
		base.ExtraSDL = "extend type Query { ghost: String ghosts(n: Int): [Int] }\n"
		ghostOn = append(ghostOn, "Query")
	}
	for i := 0; i < nReq; i++ {
		if ghost && rapid.IntRange(0, 3).Draw(t, fmt.Sprintf("r%dghost", i)) == 0 {
			c.Requests = append(c.Requests, c12Request{Text: rapid.SampledFrom([]string{
				"{ghost}", "{a: ghost b: ghost}", "{ghosts(n: 2)}", "{__typename ghost}", "{ghost ghosts}", "query G($n: Int = 3){ghosts(n: $n) __typename}",
			}).Draw(t, fmt.Sprintf("r%dghostText", i))})
			continue
		}
		if rapid.IntRange(0, 4).Draw(t, fmt.Sprintf("r%dintro", i)) == 0 {
			c.Requests = append(c.Requests, c12Request{Text: genIntrospection(t, base.Schema, fmt.Sprintf("r%di", i))})
			continue
		}
		p := exec.Profile{MaxDepth: rapid.IntRange(2, 4).Draw(t, fmt.Sprintf("r%ddepth", i)), Args: true, Abstract: hasAbstract, Dirs: rapid.Bool().Draw(t, fmt.Sprintf("r%ddirs", i))}
		d, vars := exec.GenDocLabeled(t, base.Schema, p, false, fmt.Sprintf("r%d", i))
		c.Requests = append(c.Requests, c12Request{Text: d.Render(hx.Layout{Mode: "single"}).Text, Op: d.Ops[0].Name, Vars: vars})
	}
	c.Goroutines = rapid.SampledFrom([]int{2, 3, 4, 8, 16, 2 * runtime.NumCPU()}).Draw(t, "goroutines")
	if rapid.IntRange(0, 2).Draw(t, "burst") == 0 {
		// a burst: a few requests, every goroutine issues its own copy of each at the same moment
		// (all of them in the first-use window of whatever those requests touch)
		k := rapid.IntRange(1, 3).Draw(t, "burstRequests")
		if k > len(c.Requests) {
			k = len(c.Requests)
		}
		distinct := c.Requests[:k]
		c.Requests = nil
		for g := 0; g < c.Goroutines; g++ {
			for _, r := range distinct {
				c.Requests = append(c.Requests, r)
				c.Assignment = append(c.Assignment, g)
			}
		}
	} else {
		for i := range c.Requests {
			c.Assignment = append(c.Assignment, rapid.IntRange(0, c.Goroutines-1).Draw(t, fmt.Sprintf("assign%d", i)))
		}
	}
	c.Jitter = rapid.IntRange(0, 3).Draw(t, "jitter")
	return c
}

func resolveOn(w *exec.World, r c12Request) (out string) {
	defer func() {
		if p := recover(); p != nil {
			out = fmt.Sprintf("PANIC: %v", p)
		}
	}()
	res := w.Root.ResolveString(r.Text, r.Op, goVars12(r.Vars))
	return hx.Show(hx.Norm(res))
}

// c12Alone is the sequential baseline (run on a goroutine of its own so that a request that parks
// itself for good is seen by awaitOrStuck instead of hanging the check).
func c12Alone(c *c12Case, want []string, setupErr *error, done chan struct{}) {
	defer close(done)
	for i, r := range c.Requests {
		w, err := exec.NewWorld(c.Base)
		if err != nil {
			*setupErr = err
			return
		}
		want[i] = resolveOn(w, r)
	}
}

func runC12(c *c12Case) (ds []hx.Discrepancy, info map[string]bool) {
	info = map[string]bool{}
	// sequential baseline: every request alone on its own fresh root
	want := make([]string, len(c.Requests))
	var setupErr error
	alone := make(chan struct{})
	go c12Alone(c, want, &setupErr, alone)
	if stuck := hx.AwaitOrStuck(alone, "conc.c12Alone"); stuck != "" {
		return []hx.Discrepancy{{Kind: "deadlock", Detail: "a request run alone on a fresh root: " + stuck}}, info
	}
	if setupErr != nil {
		return []hx.Discrepancy{{Kind: "setup", Detail: setupErr.Error()}}, info
	}
	// one cold root, all goroutines released together
	w, err := exec.NewWorld(c.Base)
	if err != nil {
		return []hx.Discrepancy{{Kind: "setup", Detail: err.Error()}}, info
	}
	if c.Jitter > 0 {
		j := c.Jitter
		ggql.VerifYield = func(site string) {
			for i := 0; i < j*len(site)%7; i++ {
				runtime.Gosched()
			}
		}
	}
	// (reset below once every worker is done; with parked workers left behind the hook stays, they
	// may still read it)
	got := make([]string, len(c.Requests))
	var wg sync.WaitGroup
	start := make(chan struct{})
	for g := 0; g < c.Goroutines; g++ {
		wg.Add(1)
		go func(g int) {
			defer wg.Done()
			<-start
			for i, r := range c.Requests {
				if c.Assignment[i] == g {
					got[i] = resolveOn(w, r)
				}
			}
		}(g)
	}
	close(start)
	done := make(chan struct{})
	go func() { wg.Wait(); close(done) }()
	if stuck := hx.AwaitOrStuck(done, "conc.runC12.func"); stuck != "" {
		return []hx.Discrepancy{{Kind: "deadlock", Detail: fmt.Sprintf("%d goroutines with %d requests: %s", c.Goroutines, len(c.Requests), stuck)}}, info
	}
	ggql.VerifYield = nil
	busy := map[int]bool{}
	for _, g := range c.Assignment {
		busy[g] = true
	}
	if len(busy) >= 2 {
		info["concurrent-goroutines>=2"] = true
	}
	for i := range c.Requests {
		if got[i] != want[i] {
			ds = append(ds, hx.Discrepancy{Kind: "not-isolated", Detail: fmt.Sprintf("request %d answered differently under concurrency (%d goroutines):\n  alone:      %s\n  concurrent: %s\nrequest: %s\nvars: %v",
				i, c.Goroutines, hx.Trunc(want[i], 1500), hx.Trunc(got[i], 1500), c.Requests[i].Text, goVars12(c.Requests[i].Vars))})
			break
		}
	}
	return
}

func TestC12(t *testing.T) {
	run := hx.NewRun("C12")
	defer run.Flush()
	crumb := os.Getenv("VERIF_OUT")
	one := func(c *c12Case) {
		crumbBytes, _ := json.Marshal(c)
		if crumb != "" {
			_ = os.WriteFile(crumb+".crumb", crumbBytes, 0o644)
		}
		ds, info := runC12(c)
		for _, d := range ds {
			if d.Kind == "deadlock" {
				// the parked goroutines stay behind (and may have been writing to the case): nothing
				// run after this in the same process, shrinking included, can be trusted, so the case
				// is reported as drawn (the breadcrumb written above is its serialised form)
				run.Case(1, true, "deadlock")
				fmt.Printf("--- FAIL: C12 violated: %s\n", run.ReportFailure(json.RawMessage(crumbBytes), []hx.Discrepancy{d}))
				os.Exit(1)
			}
		}
		var cl []string
		for k := range info {
			cl = append(cl, k)
		}
		sort.Strings(cl)
		set := map[string]bool{}
		for _, a := range c.Base.Assign {
			set[a] = true
		}
		mode := ""
		for _, k := range []string{"R", "X", "A"} {
			if set[k] {
				mode += k
			}
		}
		cl = append(cl, "strategies="+mode, fmt.Sprintf("goroutines=%d", c.Goroutines))
		if c.Base.Schema.Type("Named") != nil {
			cl = append(cl, "interfaces-and-unions")
		}
		if c.Jitter > 0 {
			cl = append(cl, "yield-jitter")
		}
		run.Case(hx.Hash(c), info["concurrent-goroutines>=2"], cl...)
		run.ClassN("requests", len(c.Requests))
		run.Sample(func() interface{} {
			return map[string]interface{}{"goroutines": c.Goroutines, "requests": len(c.Requests), "first_request": hx.Trunc(c.Requests[0].Text, 300), "strategies": mode}
		})
		if real := run.Triage(ds); len(real) > 0 {
			t.Fatalf("C12 violated: %s", run.ReportFailure(c, real))
		}
	}
	if f := hx.Replaying(); f != "" {
		var nest struct {
			Depths     []int `json:"nest_depths"`
			Goroutines int   `json:"goroutines"`
		}
		if b, err := os.ReadFile(f); err == nil && json.Unmarshal(b, &nest) == nil && len(nest.Depths) > 0 {
			for i := 0; i < 5; i++ {
				var problems []string
				done := make(chan struct{})
				go c12NestRound(nest.Depths, nest.Goroutines, &problems, done)
				if stuck := hx.AwaitOrStuck(done, "conc.c12NestRound"); stuck != "" {
					fmt.Printf("REPLAY-FAIL deadlock: %s\n", hx.Trunc(stuck, 1500))
					os.Exit(1)
				}
				if len(problems) > 0 {
					t.Fatalf("REPLAY-FAIL %s", problems[0])
				}
			}
			return
		}
		var c c12Case
		if err := hx.LoadCase(f, &c); err != nil {
			t.Fatalf("load %s: %v", f, err)
		}
		for i := 0; i < 20; i++ { // schedules vary: repeat
			one(&c)
		}
		return
	}
	rapid.Check(t, func(rt *rapid.T) {
		one(genCaseC12(rt))
		// every case is followed by one round of the input-object scenario
		reqs := rapid.SliceOfN(rapid.SampledFrom(c12InputRequests), 2, 6).Draw(rt, "inputRequests")
		n := rapid.SampledFrom([]int{2, 4, 8, 16}).Draw(rt, "inputGoroutines")
		for _, p := range c12InputRound(reqs, n) {
			run.Case(hx.Hash(map[string]interface{}{"r": reqs, "n": n}), true, "input-objects-bound-to-go-types")
			t.Fatalf("C12 violated: %s", run.ReportFailure(map[string]interface{}{"requests": reqs, "goroutines": n}, []hx.Discrepancy{{Kind: "not-isolated", Detail: p}}))
		}
		run.Case(hx.Hash(map[string]interface{}{"r": reqs, "n": n}), true, "input-objects-bound-to-go-types")
		// ... and by one of the nested-request scenario
		depths := rapid.SliceOfN(rapid.IntRange(0, 3), 1, 3).Draw(rt, "nestDepths")
		ng := rapid.SampledFrom([]int{1, 2, 4, 8}).Draw(rt, "nestGoroutines")
		var problems []string
		nestDone := make(chan struct{})
		go c12NestRound(depths, ng, &problems, nestDone)
		nestCase := map[string]interface{}{"nest_depths": depths, "goroutines": ng}
		if stuck := hx.AwaitOrStuck(nestDone, "conc.c12NestRound"); stuck != "" {
			run.Case(hx.Hash(nestCase), true, "deadlock")
			fmt.Printf("--- FAIL: C12 violated: %s\n", run.ReportFailure(nestCase, []hx.Discrepancy{{Kind: "deadlock", Detail: "a Go method that asks its own root for the same field: " + stuck}}))
			os.Exit(1)
		}
		run.Case(hx.Hash(nestCase), ng > 1, "method-issuing-a-request-on-its-own-root")
		for _, p := range problems {
			t.Fatalf("C12 violated: %s", run.ReportFailure(nestCase, []hx.Discrepancy{{Kind: "not-isolated", Detail: p}}))
		}
	})
}

// ---- second scenario: input objects bound to Go types, defaults that are lists and objects -------

const c12InputSDL = `
input Range { lo: Int hi: Int = 10 }
input Filter { tags: [String!] = ["a", "b"] range: Range = {lo: 5} ranges: [Range!] = [{lo: 1}, {hi: 2}] n: Int = 3 name: String }
input Plain { tags: [String!] = ["p"] range: Range = {lo: 7} }
type Query { find(f: Filter): String plain(p: Plain = {}): String both(f: Filter = {name: "d"}, p: Plain): String }
`

type c12Range struct {
	Lo int32
	Hi int32
}

type c12Filter struct {
	Tags   []string
	Range  *c12Range
	Ranges []*c12Range
	N      int
	Name   string
}

type c12InputRoot struct{}

func (r *c12InputRoot) Resolve(field *ggql.Field, args map[string]interface{}) (interface{}, error) {
	if field.Name == "query" {
		return r, nil
	}
	show := func(v interface{}) string {
		switch t := v.(type) {
		case *c12PlainGo:
			if t == nil {
				return "nil"
			}
			return fmt.Sprintf("PlainGo{tags:%v range:%v}", t.Tags, t.Range != nil)
		case *c12Filter:
			if t == nil {
				return "nil"
			}
			s := fmt.Sprintf("Filter{tags:%v n:%d name:%q", t.Tags, t.N, t.Name)
			if t.Range != nil {
				s += fmt.Sprintf(" range:%+v", *t.Range)
			}
			for _, r := range t.Ranges {
				if r != nil {
					s += fmt.Sprintf(" r:%+v", *r)
				}
			}
			return s + "}"
		}
		return hx.Show(hx.Norm(fromGoRanges(v)))
	}
	keys := make([]string, 0, len(args))
	for k := range args {
		keys = append(keys, k)
	}
	sort.Strings(keys)
	out := field.Name
	for _, k := range keys {
		out += " " + k + "=" + show(args[k])
	}
	return out, nil
}

func fromGoRanges(v interface{}) interface{} {
	switch t := v.(type) {
	case *c12Range:
		if t == nil {
			return nil
		}
		return map[string]interface{}{"lo": t.Lo, "hi": t.Hi}
	case map[string]interface{}:
		out := map[string]interface{}{}
		for k, e := range t {
			out[k] = fromGoRanges(e)
		}
		return out
	case []interface{}:
		out := make([]interface{}, len(t))
		for i, e := range t {
			out[i] = fromGoRanges(e)
		}
		return out
	}
	return v
}

var c12InputRequests = []string{
	`{find(f: {})}`, `{find(f: {n: 1})}`, `{find(f: {range: {lo: 1}})}`, `{find(f: {tags: ["x"], ranges: [{}]})}`, `{plain}`, `{plain(p: {})}`, `{plain(p: {range: {}})}`,
	`{both(p: {})}`, `{both(f: {}, p: {tags: []})}`, `query($f: Filter = {}) {find(f: $f)}`, `query($p: Plain = {range: {hi: 1}}) {plain(p: $p)}`,
	`{__type(name: "Filter") {inputFields {name defaultValue}}}`, `{__type(name: "Plain") {inputFields {name defaultValue}}}`,
	`{__type(name: "Query") {fields {name args {name defaultValue}}}}`, `{a: find(f: {}) b: find(f: {name: "x"}) c: plain}`,
	// variables whose values are Go structs (see c12InputVars): of the type the input is bound to, and
	// for the input no Go type was ever registered for
	`query($f: Filter) {find(f: $f)}`, `query($p: Plain) {plain(p: $p)}`, `query($p: Plain, $f: Filter) {both(f: $f, p: $p)}`,
}

type c12PlainGo struct {
	Tags  []string
	Range *c12Range
}

// c12InputVars gives the variables of the requests that take Go values (made anew for every call).
func c12InputVars(text string) map[string]interface{} {
	switch text {
	case `query($f: Filter) {find(f: $f)}`:
		return map[string]interface{}{"f": &c12Filter{N: 4, Name: "go"}}
	case `query($p: Plain) {plain(p: $p)}`:
		return map[string]interface{}{"p": &c12PlainGo{Tags: []string{"g"}}}
	case `query($p: Plain, $f: Filter) {both(f: $f, p: $p)}`:
		return map[string]interface{}{"p": &c12PlainGo{Range: &c12Range{Lo: 2}}, "f": &c12Filter{Tags: []string{"t"}}}
	}
	return nil
}

func newC12InputRoot() (*ggql.Root, error) {
	root := ggql.NewRoot(&c12InputRoot{})
	if err := root.ParseString(c12InputSDL); err != nil {
		return nil, err
	}
	if err := root.RegisterType(&c12Filter{}, "Filter"); err != nil {
		return nil, err
	}
	if err := root.RegisterType(&c12Range{}, "Range"); err != nil {
		return nil, err
	}
	return root, nil
}

// c12InputRound answers the requests alone (each on a root of its own), then all of them from n
// goroutines each on one cold root, and reports the first difference.
func c12InputRound(reqs []string, n int) (problems []string) {
	ggql.Sort = true
	want := make([]string, len(reqs))
	for i, rq := range reqs {
		root, err := newC12InputRoot()
		if err != nil {
			return []string{"setup: " + err.Error()}
		}
		want[i] = hx.Show(hx.Norm(root.ResolveString(rq, "", c12InputVars(rq))))
	}
	root, err := newC12InputRoot()
	if err != nil {
		return []string{"setup: " + err.Error()}
	}
	got := make([][]string, n)
	var wg sync.WaitGroup
	start := make(chan struct{})
	for g := 0; g < n; g++ {
		wg.Add(1)
		go func(g int) {
			defer wg.Done()
			got[g] = make([]string, len(reqs))
			<-start
			for k := range reqs {
				i := (k + g) % len(reqs)
				got[g][i] = hx.Show(hx.Norm(root.ResolveString(reqs[i], "", c12InputVars(reqs[i]))))
			}
		}(g)
	}
	close(start)
	wg.Wait()
	for g := range got {
		for i := range reqs {
			if got[g][i] != want[i] {
				return []string{fmt.Sprintf("request %s answered differently under concurrency (%d goroutines, input objects bound to Go types):\n  alone:      %s\n  concurrent: %s", reqs[i], n, want[i], got[g][i])}
			}
		}
	}
	return nil
}

// ---- third scenario: a Go method that itself asks the root (a request within a request) ------------

type c12NestQuery struct {
	root **ggql.Root
}

// Nest answers by asking the same root for the same field one level down.
func (q *c12NestQuery) Nest(n int32) string {
	if n <= 0 {
		return "leaf"
	}
	res := (*q.root).ResolveString(fmt.Sprintf("{nest(n: %d)}", n-1), "", nil)
	return fmt.Sprintf("%d>%s", n, hx.Show(hx.Norm(res)))
}

// Twice has nothing to do with Nest (a plain method next to it).
func (q *c12NestQuery) Twice(n int32) int32 { return 2 * n }

type c12NestSchema struct {
	Query *c12NestQuery
}

func newC12NestRoot() (*ggql.Root, error) {
	var root *ggql.Root
	q := &c12NestQuery{root: &root}
	root = ggql.NewRoot(&c12NestSchema{Query: q})
	return root, root.ParseString("type Query { nest(n: Int!): String twice(n: Int!): Int }")
}

// c12NestRound: goroutines ask for nest(n) and twice(n) on one cold root; every answer is the one a
// root of its own gives. done is closed when all goroutines are through.
func c12NestRound(depths []int, n int, problems *[]string, done chan struct{}) {
	defer close(done)
	ggql.Sort = true
	reqs := make([]string, len(depths))
	want := make([]string, len(depths))
	for i, d := range depths {
		reqs[i] = fmt.Sprintf("{nest(n: %d) twice(n: %d)}", d, d)
		root, err := newC12NestRoot()
		if err != nil {
			*problems = []string{"setup: " + err.Error()}
			return
		}
		want[i] = hx.Show(hx.Norm(root.ResolveString(reqs[i], "", nil)))
	}
	root, err := newC12NestRoot()
	if err != nil {
		*problems = []string{"setup: " + err.Error()}
		return
	}
	got := make([][]string, n)
	var wg sync.WaitGroup
	start := make(chan struct{})
	for g := 0; g < n; g++ {
		wg.Add(1)
		go func(g int) {
			defer wg.Done()
			got[g] = make([]string, len(reqs))
			<-start
			for k := range reqs {
				i := (k + g) % len(reqs)
				got[g][i] = hx.Show(hx.Norm(root.ResolveString(reqs[i], "", c12InputVars(reqs[i]))))
			}
		}(g)
	}
	close(start)
	wg.Wait()
	for g := range got {
		for i := range reqs {
			if got[g][i] != want[i] {
				*problems = []string{fmt.Sprintf("request %s answered differently under concurrency (%d goroutines, a method that asks the root itself):\n  alone:      %s\n  concurrent: %s", reqs[i], n, want[i], got[g][i])}
				return
			}
		}
	}
}
