package conc

import "os"

func envLookup(k string) string { return os.Getenv(k) }
