package value

import (
	"bytes"
	"testing"
	"unicode/utf8"

	"github.com/uhn/ggql/pkg/ggql"

	"verifharness/hx"
)

// inDomain reports whether a parsed value lies in the domain of the round-trip statement
// (name keys, non-integral floats, name symbols).
func inDomain(v interface{}) bool {
	switch t := v.(type) {
	case string:
		return utf8.ValidString(t)
	case float64:
		return t != float64(int64(t)) || t > 1e18 || t < -1e18
	case ggql.Symbol:
		return isName(string(t)) && !isReserved(string(t))
	case ggql.Var:
		return isName(string(t))
	case []interface{}:
		for _, e := range t {
			if !inDomain(e) {
				return false
			}
		}
	case map[string]interface{}:
		for k, e := range t {
			if !isName(k) || !inDomain(e) {
				return false
			}
		}
	}
	return true
}

// FuzzC18Text: parse -> write -> parse is a fixpoint on every accepted text whose value is in the domain.
func FuzzC18Text(f *testing.F) {
	for _, s := range []string{"{a: 1, b: [true, null, \"s\", RED, $v, 1.5]}", "[[1][2]]", "\"\\u00e9\\n\\\"\"", "\"\"\"block\"\"\"", "-1", "{a:{b:{c:[1,2,{d:3.5}]}}}", "[\"a\"[1]]"} {
		f.Add(s, int8(0))
	}
	f.Fuzz(func(t *testing.T, text string, indent int8) {
		if len(text) > 2048 {
			return
		}
		v1, err := ggql.ParseValueString(text)
		if err != nil || !inDomain(v1) {
			return
		}
		for _, ind := range []int{int(indent) % 5, -1, 0, 2} {
			var b bytes.Buffer
			if err := ggql.WriteSDLValue(&b, v1, ind); err != nil {
				t.Fatalf("write: %v", err)
			}
			v2, err := ggql.ParseValueString(b.String())
			if err != nil {
				t.Fatalf("text %q parsed to a value whose SDL form %q (indent %d) does not parse: %v", text, b.String(), ind, err)
			}
			if canon(v1, false) != canon(v2, false) {
				t.Fatalf("text %q: value %s, after write(indent %d)+parse %s (written %q)", text, canon(v1, false), ind, canon(v2, false), hx.Trunc(b.String(), 300))
			}
		}
	})
}
