// Package value hosts the C18 check: the SDL and JSON value writers round-trip
// through ggql's own value reader and through encoding/json.
package value

import (
	"bytes"
	"encoding/json"
	"fmt"
	"math"
	"strconv"
	"strings"
	"testing"
	"unicode/utf8"

	"github.com/uhn/ggql/pkg/ggql"
	"pgregory.net/rapid"

	"verifharness/hx"
)

// Case is one C18 case: a value, an indent and the Sort switch.
type Case struct {
	V      hx.Val `json:"value"`
	Indent int    `json:"indent"`
	Sort   bool   `json:"sort"`
}

var nameGen = rapid.StringMatching(`[_A-Za-z][_0-9A-Za-z]{0,6}`)

var hostileStrings = []string{
	"", "\"", "\\", "\"\"\"", "\"\"", "a\"b", "a\\", "\\\"", "\\n", "\n", "\r\n", "\t", "\b", "\f",
	"\x00", "\x01", "\x1f", "\x7f", " ", " ", "é", "\U0001F600", "�", "\\u0041",
	" lead", "trail ", "#notcomment", "a,b", "[x]", "{y:1}", "$v", "null", "true", "0", "-1", "1e5",
	"\"\"\"x\"\"\"", "end\\", "\"start", "/", "\\/", "\u0080", "߿", "￿", "\U00010000",
}

func genString(t *rapid.T, label string) string {
	switch rapid.IntRange(0, 4).Draw(t, label+"Kind") {
	case 4:
		// long strings: a run of plain characters up to (around) a power of two of output bytes,
		// then something the writer has to escape or that takes several bytes, then a tail -
		// whatever a writer buffers, the boundary falls inside it for some of these lengths
		n := rapid.SampledFrom([]int{30, 31, 32, 33, 60, 61, 62, 63, 64, 65, 126, 127, 128, 129, 254, 255, 256, 257, 510, 511, 512, 513, 1022, 1023, 1024, 4094, 4095, 4096}).Draw(t, label+"RunLen")
		n += rapid.IntRange(-3, 3).Draw(t, label+"RunJitter")
		mid := rapid.SampledFrom([]string{"\n", "\"", "\\", "\x01", "\x1f", "é", "€", "😀", "\t\"", "\r\n", "\x7f"}).Draw(t, label+"Mid")
		return strings.Repeat(rapid.SampledFrom([]string{"a", "ab", "x "}).Draw(t, label+"Unit"), n)[:n] + mid + rapid.SampledFrom([]string{"", "tail", "\n", "é"}).Draw(t, label+"Tail")
	case 0:
		return rapid.SampledFrom(hostileStrings).Draw(t, label+"H")
	case 1:
		parts := rapid.SliceOfN(rapid.SampledFrom(hostileStrings), 1, 4).Draw(t, label+"HS")
		return strings.Join(parts, rapid.SampledFrom([]string{"", "x", " "}).Draw(t, label+"J"))
	case 2:
		return rapid.StringN(0, 12, -1).Draw(t, label+"U")
	default:
		return rapid.StringOfN(rapid.RuneFrom([]rune("ab \"\\\n\t\x01\x7fé€😀")), 0, 10, -1).Draw(t, label+"R")
	}
}

func isReserved(s string) bool { return s == "true" || s == "false" || s == "null" }

// nearWords: names that are almost, but not, one of the words the value syntax gives a meaning to
// (legal enum values all of them)
var nearWords = []string{"TRUE", "True", "tRUE", "FALSE", "False", "NULL", "Null", "nULL", "truee", "nul", "_true", "trues", "Infinity", "NaN", "e5", "E", "e", "x1e5"}

func genSymbolName(t *rapid.T, label string) string {
	if rapid.IntRange(0, 5).Draw(t, label+"near") == 0 {
		return rapid.SampledFrom(nearWords).Draw(t, label+"nearWord")
	}
	s := nameGen.Draw(t, label)
	if isReserved(s) {
		s += "_"
	}
	return s
}

var intBoundaries = []int64{0, 1, -1, 9, 10, math.MaxInt16, math.MinInt16, math.MaxInt32, math.MinInt32,
	math.MaxInt32 + 1, math.MinInt32 - 1, 1 << 53, 1<<53 + 1, -(1 << 53) - 1, math.MaxInt64, math.MinInt64}

var floatBoundaries = []float64{0.5, -0.5, 1.5, 1e-7, 123456789.125, 1.7976931348623157e308, -1.7976931348623157e308,
	5e-324, -5e-324, 2.2250738585072014e-308, 0.1, 1.0 / 3.0, 3.4028234663852886e38 * 1.5, 1e21 + 0.5, 1e-300}

func genScalar(t *rapid.T, jsonOnly bool) hx.Val {
	switch rapid.IntRange(0, 9).Draw(t, "sk") {
	case 0:
		return hx.Nil()
	case 1:
		return hx.Bool(rapid.Bool().Draw(t, "b"))
	case 2:
		if rapid.Bool().Draw(t, "ib") {
			return hx.I64(rapid.SampledFrom(intBoundaries).Draw(t, "i"))
		}
		return hx.I64(rapid.Int64().Draw(t, "i"))
	case 3:
		kind := rapid.SampledFrom([]string{"int", "int32", "int16"}).Draw(t, "ik")
		switch kind {
		case "int16":
			return hx.IntKind(kind, int64(rapid.Int16().Draw(t, "i")))
		case "int32":
			return hx.IntKind(kind, int64(rapid.Int32().Draw(t, "i")))
		}
		return hx.IntKind(kind, rapid.Int64().Draw(t, "i"))
	case 4, 5:
		var f float64
		if rapid.Bool().Draw(t, "fb") {
			f = rapid.SampledFrom(floatBoundaries).Draw(t, "f")
		} else {
			f = rapid.Float64().Draw(t, "f")
		}
		if math.IsNaN(f) || math.IsInf(f, 0) || f == math.Trunc(f) {
			f = 0.25 // the property's domain is non-integral finite floats
		}
		return hx.F64(f)
	case 6, 7:
		return hx.Str(genString(t, "s"))
	case 8:
		return hx.Sym(genSymbolName(t, "sym"))
	default:
		return hx.VarV(nameGen.Draw(t, "var"))
	}
}

// genValue builds a value; name-only keys unless anyKeys (JSON-only cases).
func genValue(t *rapid.T, depth int, anyKeys bool) hx.Val {
	k := 0
	if depth > 0 {
		k = rapid.IntRange(0, 5).Draw(t, "vk")
	}
	switch k {
	case 4: // list
		n := rapid.IntRange(0, 4).Draw(t, "ln")
		vs := make([]hx.Val, 0, n)
		for i := 0; i < n; i++ {
			vs = append(vs, genValue(t, depth-1, anyKeys))
		}
		return hx.List(vs...)
	case 5: // map
		n := rapid.IntRange(0, 4).Draw(t, "mn")
		var kvs []hx.KV
		seen := map[string]bool{}
		for i := 0; i < n; i++ {
			var key string
			if anyKeys && rapid.Bool().Draw(t, "hk") {
				key = genString(t, "key")
			} else {
				key = nameGen.Draw(t, "key")
			}
			if seen[key] || !utf8.ValidString(key) {
				continue
			}
			seen[key] = true
			kvs = append(kvs, hx.KV{Key: key, V: genValue(t, depth-1, anyKeys)})
		}
		return hx.Map(kvs...)
	}
	return genScalar(t, anyKeys)
}

// canon renders a Go value canonically. jsonMode maps Symbol and Var to the
// strings the JSON form carries. Integer kinds are unified; float32 is
// compared at float32 precision by the caller (not generated here).
func canon(v interface{}, jsonMode bool) string {
	var b strings.Builder
	var w func(x interface{})
	w = func(x interface{}) {
		switch tv := x.(type) {
		case nil:
			b.WriteString("null")
		case bool:
			b.WriteString(strconv.FormatBool(tv))
		case int:
			b.WriteString("i" + strconv.FormatInt(int64(tv), 10))
		case int16:
			b.WriteString("i" + strconv.FormatInt(int64(tv), 10))
		case int32:
			b.WriteString("i" + strconv.FormatInt(int64(tv), 10))
		case int64:
			b.WriteString("i" + strconv.FormatInt(tv, 10))
		case float64:
			b.WriteString("f" + strconv.FormatFloat(tv, 'g', -1, 64))
		case string:
			b.WriteString("s" + strconv.Quote(tv))
		case ggql.Symbol:
			if jsonMode {
				b.WriteString("s" + strconv.Quote(string(tv)))
			} else {
				b.WriteString("y" + strconv.Quote(string(tv)))
			}
		case ggql.Var:
			if jsonMode {
				b.WriteString("s" + strconv.Quote("$"+string(tv)))
			} else {
				b.WriteString("v" + strconv.Quote(string(tv)))
			}
		case []interface{}:
			b.WriteString("[")
			for i, e := range tv {
				if i > 0 {
					b.WriteString(",")
				}
				w(e)
			}
			b.WriteString("]")
		case map[string]interface{}:
			keys := make([]string, 0, len(tv))
			for k := range tv {
				keys = append(keys, k)
			}
			sortStrings(keys)
			b.WriteString("{")
			for i, k := range keys {
				if i > 0 {
					b.WriteString(",")
				}
				b.WriteString(strconv.Quote(k) + ":")
				w(tv[k])
			}
			b.WriteString("}")
		default:
			b.WriteString(fmt.Sprintf("?%T:%v", x, x))
		}
	}
	w(v)
	return b.String()
}

func sortStrings(a []string) {
	for i := 1; i < len(a); i++ {
		for j := i; j > 0 && a[j] < a[j-1]; j-- {
			a[j], a[j-1] = a[j-1], a[j]
		}
	}
}

// canonJSON renders what encoding/json (UseNumber) decoded, in canon's format,
// deciding int vs float from the number's text the way the writer does.
func canonJSON(x interface{}) string {
	var b strings.Builder
	var w func(x interface{})
	w = func(x interface{}) {
		switch tv := x.(type) {
		case nil:
			b.WriteString("null")
		case bool:
			b.WriteString(strconv.FormatBool(tv))
		case json.Number:
			if i, err := strconv.ParseInt(string(tv), 10, 64); err == nil {
				b.WriteString("i" + strconv.FormatInt(i, 10))
			} else if f, err := strconv.ParseFloat(string(tv), 64); err == nil {
				b.WriteString("f" + strconv.FormatFloat(f, 'g', -1, 64))
			} else {
				b.WriteString("?num:" + string(tv))
			}
		case string:
			b.WriteString("s" + strconv.Quote(tv))
		case []interface{}:
			b.WriteString("[")
			for i, e := range tv {
				if i > 0 {
					b.WriteString(",")
				}
				w(e)
			}
			b.WriteString("]")
		case map[string]interface{}:
			keys := make([]string, 0, len(tv))
			for k := range tv {
				keys = append(keys, k)
			}
			sortStrings(keys)
			b.WriteString("{")
			for i, k := range keys {
				if i > 0 {
					b.WriteString(",")
				}
				b.WriteString(strconv.Quote(k) + ":")
				w(tv[k])
			}
			b.WriteString("}")
		default:
			b.WriteString(fmt.Sprintf("?%T:%v", x, x))
		}
	}
	w(x)
	return b.String()
}

type traits struct {
	depth       int
	escape      bool // a string needing an escape
	adjacent    bool // container next to a scalar (or container) inside a container
	emptyCont   bool
	nonNameKey  bool
	invalidUTF8 bool
	symbol, vr  bool
	containers  int
}

func needsEscape(s string) bool {
	for _, r := range s {
		if r < 0x20 || r == '"' || r == '\\' {
			return true
		}
	}
	return false
}

func isName(s string) bool {
	if s == "" {
		return false
	}
	for i := 0; i < len(s); i++ {
		c := s[i]
		if !(c == '_' || (c >= 'a' && c <= 'z') || (c >= 'A' && c <= 'Z') || (i > 0 && c >= '0' && c <= '9')) {
			return false
		}
	}
	return true
}

func scan(v hx.Val, d int, tr *traits) {
	if d > tr.depth {
		tr.depth = d
	}
	switch v.K {
	case "string":
		if needsEscape(v.S) {
			tr.escape = true
		}
		if !utf8.ValidString(v.S) {
			tr.invalidUTF8 = true
		}
	case "symbol":
		tr.symbol = true
	case "var":
		tr.vr = true
	case "list":
		tr.containers++
		if len(v.L) == 0 {
			tr.emptyCont = true
		}
		for i, e := range v.L {
			if (e.K == "list" || e.K == "map") && len(v.L) > 1 {
				_ = i
				tr.adjacent = true
			}
			scan(e, d+1, tr)
		}
	case "map":
		tr.containers++
		if len(v.M) == 0 {
			tr.emptyCont = true
		}
		for _, kv := range v.M {
			if !isName(kv.Key) {
				tr.nonNameKey = true
			}
			if needsEscape(kv.Key) {
				tr.escape = true
			}
			if (kv.V.K == "list" || kv.V.K == "map") && len(v.M) > 1 {
				tr.adjacent = true
			}
			scan(kv.V, d+1, tr)
		}
	}
}

// runCase evaluates every C18 relation on one case.
func runCase(c Case) (ds []hx.Discrepancy, tr traits) {
	ggql.Sort = c.Sort
	defer func() { ggql.Sort = false }()
	scan(c.V, 0, &tr)
	v := c.V.Go()
	add := func(kind, format string, args ...interface{}) {
		ds = append(ds, hx.Discrepancy{Kind: kind, Detail: fmt.Sprintf(format, args...)})
	}
	defer func() {
		if r := recover(); r != nil {
			add("panic", "panic: %v", r)
		}
	}()

	// SDL round trip: domain = name keys, valid UTF-8.
	if !tr.nonNameKey && !tr.invalidUTF8 {
		var b bytes.Buffer
		if err := ggql.WriteSDLValue(&b, v, c.Indent); err != nil {
			add("sdl-write", "WriteSDLValue error: %v", err)
		} else {
			back, err := ggql.ParseValueString(b.String())
			if err != nil {
				add("sdl-parse", "SDL text %q does not parse: %v", b.String(), err)
			} else if canon(back, false) != canon(v, false) {
				add("sdl-roundtrip", "SDL text %q parsed to %s, want %s", b.String(), canon(back, false), canon(v, false))
			}
		}
	}
	// JSON form.
	var b bytes.Buffer
	if err := ggql.WriteJSONValue(&b, v, c.Indent); err != nil {
		add("json-write", "WriteJSONValue error: %v", err)
		return
	}
	txt := b.String()
	want := canonValid(v)
	dec := json.NewDecoder(strings.NewReader(txt))
	dec.UseNumber()
	var got interface{}
	if err := dec.Decode(&got); err != nil {
		add("json-invalid", "JSON text %q rejected by encoding/json: %v", txt, err)
	} else {
		if dec.More() {
			add("json-invalid", "JSON text %q has trailing content", txt)
		}
		if g := canonJSON(got); g != want {
			add("json-decode", "JSON text %q decoded to %s, want %s", txt, g, want)
		}
	}
	back, err := ggql.ParseValueString(txt)
	if err != nil {
		add("json-reparse", "JSON text %q not accepted by ParseValueString: %v", txt, err)
	} else if g := canon(back, true); g != want {
		add("json-reparse", "JSON text %q parsed by ggql to %s, want %s", txt, g, want)
	}
	return
}

// canonValid is canon in JSON mode with invalid UTF-8 replaced per byte by U+FFFD.
func canonValid(v interface{}) string {
	var fix func(x interface{}) interface{}
	fix = func(x interface{}) interface{} {
		switch tv := x.(type) {
		case string:
			return string([]rune(tv))
		case []interface{}:
			out := make([]interface{}, len(tv))
			for i, e := range tv {
				out[i] = fix(e)
			}
			return out
		case map[string]interface{}:
			out := map[string]interface{}{}
			for k, e := range tv {
				out[k] = fix(e)
			}
			return out
		}
		return x
	}
	return canon(fix(v), true)
}

func genCase(t *rapid.T) Case {
	mode := rapid.IntRange(0, 11).Draw(t, "mode")
	var v hx.Val
	switch {
	case mode == 10: // wide: many sibling containers under one list or map
		n := rapid.IntRange(20, 300).Draw(t, "wide")
		any := rapid.Bool().Draw(t, "wideAnyKeys")
		vs := make([]hx.Val, 0, n)
		for i := 0; i < n; i++ {
			vs = append(vs, genValue(t, rapid.IntRange(0, 2).Draw(t, "wd"), any))
		}
		if rapid.Bool().Draw(t, "wideMap") {
			kvs := make([]hx.KV, 0, n)
			for i, e := range vs {
				kvs = append(kvs, hx.KV{Key: fmt.Sprintf("k%d", i), V: e})
			}
			v = hx.Map(kvs...)
		} else {
			v = hx.List(vs...)
		}
	case mode == 11: // deep: a chain of containers, each with a sibling or two
		n := rapid.IntRange(5, 200).Draw(t, "deep")
		v = genValue(t, 1, false)
		for i := 0; i < n; i++ {
			switch rapid.IntRange(0, 3).Draw(t, "wrap") {
			case 0:
				v = hx.List(v)
			case 1:
				v = hx.List(genScalar(t, false), v, hx.Map())
			case 2:
				v = hx.Map(hx.KV{Key: "d", V: v})
			default:
				v = hx.Map(hx.KV{Key: "a", V: hx.List()}, hx.KV{Key: "d", V: v}, hx.KV{Key: "z", V: genScalar(t, false)})
			}
		}
	case mode == 0: // invalid UTF-8 string class (JSON clause only)
		bs := rapid.SliceOfN(rapid.Byte(), 1, 8).Draw(t, "raw")
		s := "a" + string(bs) + "\xff\"z"
		v = hx.List(hx.Str(s), hx.Map(hx.KV{Key: "k", V: hx.Str(string(bs))}))
	case mode <= 2: // JSON-only: arbitrary string keys
		v = genValue(t, rapid.IntRange(1, 4).Draw(t, "depth"), true)
	default:
		v = genValue(t, rapid.IntRange(0, 4).Draw(t, "depth"), false)
	}
	indent := rapid.SampledFrom([]int{-1, -3, 0, 1, 2, 3, 4}).Draw(t, "indent")
	return Case{V: v, Indent: indent, Sort: rapid.Bool().Draw(t, "sort")}
}

func classify(c Case, tr traits) (nt bool, classes []string) {
	nt = (tr.depth >= 2 && tr.adjacent) || tr.escape
	switch {
	case c.Indent < 0:
		classes = append(classes, "indent<0")
	case c.Indent == 0:
		classes = append(classes, "indent=0")
	default:
		classes = append(classes, "indent>0")
	}
	if c.Sort {
		classes = append(classes, "sorted")
	} else {
		classes = append(classes, "unsorted")
	}
	for name, on := range map[string]bool{"escape": tr.escape, "adjacent-containers": tr.adjacent, "empty-container": tr.emptyCont,
		"non-name-key(json-only)": tr.nonNameKey, "invalid-utf8(json-only)": tr.invalidUTF8, "symbol": tr.symbol, "var": tr.vr,
		"depth>=2": tr.depth >= 2, "depth>=3": tr.depth >= 3, "depth>=32": tr.depth >= 32, "depth>=100": tr.depth >= 100,
		"containers>=64": tr.containers >= 64} {
		if on {
			classes = append(classes, name)
		}
	}
	return
}

func sampleOf(c Case) interface{} {
	var sdl, js bytes.Buffer
	_ = ggql.WriteSDLValue(&sdl, c.V.Go(), c.Indent)
	_ = ggql.WriteJSONValue(&js, c.V.Go(), c.Indent)
	return map[string]interface{}{"indent": c.Indent, "sort": c.Sort, "sdl": hx.Trunc(sdl.String(), 300), "json": hx.Trunc(js.String(), 300)}
}

func TestC18(t *testing.T) {
	run := hx.NewRun("C18")
	defer run.Flush()
	if f := hx.Replaying(); f != "" {
		var c Case
		if err := hx.LoadCase(f, &c); err != nil {
			t.Fatalf("load %s: %v", f, err)
		}
		ds, tr := runCase(c)
		nt, cl := classify(c, tr)
		run.Case(hx.Hash(c), nt, cl...)
		if real := run.Triage(ds); len(real) > 0 {
			t.Fatalf("REPLAY-FAIL %s", run.ReportFailure(c, real))
		}
		for _, d := range ds {
			fmt.Printf("REPLAY-KNOWN sig=%s %s\n", d.Sig, d.Detail)
		}
		return
	}
	rapid.Check(t, func(rt *rapid.T) {
		c := genCase(rt)
		ds, tr := runCase(c)
		nt, cl := classify(c, tr)
		run.Case(hx.Hash(c), nt, cl...)
		run.Sample(func() interface{} { return sampleOf(c) })
		if real := run.Triage(ds); len(real) > 0 {
			rt.Fatalf("C18 violated: %s", run.ReportFailure(c, real))
		}
	})
}
