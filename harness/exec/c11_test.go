package exec

import (
	"fmt"
	"sort"
	"strings"
	"testing"

	"github.com/uhn/ggql/pkg/ggql"
	"pgregory.net/rapid"

	"verifharness/hx"
)

func c11Schema() *hx.Schema {
	dflt := hx.Str("dflt")
	green := hx.Sym("GREEN")
	yes := hx.Bool(true)
	fArgs := func() []*hx.Arg {
		return []*hx.Arg{{Name: "a", Type: hx.Named("In0")}, {Name: "l", Type: hx.ListOf(hx.Named("Int"))}, {Name: "s", Type: hx.Named("String")}, {Name: "b", Type: hx.Named("Boolean")}, {Name: "m", Type: hx.ListOf(hx.Named("In1"))}}
	}
	gArgs := func() []*hx.Arg {
		return []*hx.Arg{{Name: "x", Type: hx.Named("Int")}, {Name: "y", Type: hx.Named("String")}, {Name: "z", Type: hx.ListOf(hx.Named("String"))}, {Name: "e", Type: hx.Named("E0")},
			// scalars whose coerced value differs from the literal as parsed
			{Name: "q", Type: hx.Named("ID")}, {Name: "fl", Type: hx.Named("Float")}, {Name: "tm", Type: hx.Named("Time")}}
	}
	seven := hx.I32(7)
	tag := hx.Str("t1")
	kArg := func() *hx.Arg { return &hx.Arg{Name: "k", Type: hx.Named("Int")} }
	// T1 declares the interface's fields differently from T0: an extra defaulted argument in front of g's,
	// a covariant return type and an extra argument on o
	g1Args := append([]*hx.Arg{{Name: "w", Type: hx.Named("Int"), Default: &seven}}, gArgs()...)
	return &hx.Schema{Dirs: []*hx.DirDef{{Name: "round", On: []string{"FIELD", "INLINE_FRAGMENT", "FRAGMENT_SPREAD"}, Args: []*hx.Arg{{Name: "digits", Type: hx.Named("Int")}, {Name: "mode", Type: hx.Named("String")}}}},
		Types: []*hx.TypeDef{
			{Kind: hx.KEnum, Name: "E0", Values: []*hx.EnumValue{{Name: "RED"}, {Name: "GREEN"}, {Name: "OLD", Dirs: []hx.DirUse{{Name: "deprecated"}}}}},
			{Kind: hx.KInput, Name: "In1", Inputs: []*hx.Arg{{Name: "x", Type: hx.Named("Float")}, {Name: "y", Type: hx.Named("Boolean").NN()}, {Name: "d", Type: hx.Named("Boolean"), Default: &yes}}},
			{Kind: hx.KInput, Name: "In0", Inputs: []*hx.Arg{
				{Name: "i", Type: hx.Named("Int")}, {Name: "s", Type: hx.Named("String"), Default: &dflt}, {Name: "r", Type: hx.Named("Int").NN()},
				{Name: "e", Type: hx.Named("E0"), Default: &green}, {Name: "l", Type: hx.ListOf(hx.Named("Int").NN())}, {Name: "n", Type: hx.Named("In1")}}},
			{Kind: hx.KInterface, Name: "I0", Fields: []*hx.Field{
				{Name: "f", Type: hx.Named("String"), Args: fArgs()}, {Name: "g", Type: hx.Named("String"), Args: gArgs()},
				{Name: "o", Type: hx.Named("I0"), Args: []*hx.Arg{kArg()}}, {Name: "n", Type: hx.Named("Int")}}},
			// I1 and U1 start with T0 alone: a step may extend the schema so that T1 joins them
			{Kind: hx.KInterface, Name: "I1", Fields: []*hx.Field{{Name: "n", Type: hx.Named("Int")}}},
			{Kind: hx.KUnion, Name: "U1", Members: []string{"T0"}},
			{Kind: hx.KObject, Name: "T0", Interfaces: []string{"I0", "I1"}, Fields: []*hx.Field{
				{Name: "f", Type: hx.Named("String"), Args: fArgs()}, {Name: "g", Type: hx.Named("String"), Args: gArgs()},
				{Name: "o", Type: hx.Named("T0"), Args: []*hx.Arg{kArg()}}, {Name: "n", Type: hx.Named("Int")}}},
			{Kind: hx.KObject, Name: "T1", Interfaces: []string{"I0"}, Fields: []*hx.Field{
				{Name: "f", Type: hx.Named("String"), Args: fArgs()}, {Name: "g", Type: hx.Named("String"), Args: g1Args},
				{Name: "o", Type: hx.Named("T1"), Args: []*hx.Arg{kArg(), {Name: "tag", Type: hx.Named("String"), Default: &tag}}}, {Name: "n", Type: hx.Named("Int")},
				{Name: "old", Type: hx.Named("Int"), Dirs: []hx.DirUse{{Name: "deprecated", Args: []hx.KV{{Key: "reason", V: hx.Str("gone")}}}}}}},
			{Kind: hx.KUnion, Name: "U0", Members: []string{"T0", "T1"}},
			{Kind: hx.KObject, Name: "Query", Fields: []*hx.Field{
				{Name: "f", Type: hx.Named("String"), Args: fArgs()}, {Name: "g", Type: hx.Named("String"), Args: gArgs()},
				{Name: "t", Type: hx.Named("T0")}, {Name: "ts", Type: hx.ListOf(hx.Named("T0"))},
				{Name: "t1", Type: hx.Named("T1")}, {Name: "i", Type: hx.Named("I0")}, {Name: "is", Type: hx.ListOf(hx.Named("I0"))}, {Name: "u", Type: hx.Named("U0")}, {Name: "us", Type: hx.ListOf(hx.Named("U0"))}}},
		}}
}

func c11Graph() *hx.Graph {
	return &hx.Graph{Root: 0, Nodes: []*hx.Node{
		{ID: 0, Type: "", F: map[string]hx.Val{"query": hx.Ref(1)}},
		{ID: 1, Type: "Query", F: map[string]hx.Val{"f": hx.Str("qf"), "g": hx.Str("qg"), "t": hx.Ref(2), "ts": hx.List(hx.Ref(2), hx.Ref(3)),
			"t1": hx.Ref(4), "i": hx.Ref(5), "is": hx.List(hx.Ref(2), hx.Ref(4), hx.Ref(3)), "u": hx.Ref(4), "us": hx.List(hx.Ref(5), hx.Ref(2))}},
		{ID: 2, Type: "T0", F: map[string]hx.Val{"f": hx.Str("f2"), "g": hx.Str("g2"), "o": hx.Ref(3), "n": hx.I32(2)}},
		{ID: 3, Type: "T0", F: map[string]hx.Val{"f": hx.Str("f3"), "g": hx.Str("g3"), "o": hx.Ref(2), "n": hx.I32(3)}},
		{ID: 4, Type: "T1", F: map[string]hx.Val{"f": hx.Str("f4"), "g": hx.Str("g4"), "o": hx.Ref(5), "n": hx.I32(4)}},
		{ID: 5, Type: "T1", F: map[string]hx.Val{"f": hx.Str("f5"), "g": hx.Str("g5"), "o": hx.Ref(4), "n": hx.I32(5)}},
	}}
}

// the variables every operation of a C11 document declares
var c11VarDefs = "$i: Int, $j: Int = 5, $s: String, $sd: String = \"sdef\", $b: Boolean = false, $c: Boolean!, $in: In0, $l: [Int], $e: E0, $x: Float," +
	// defaults that are containers holding containers: filling them in needs coercion work two levels down
	" $ind: In0 = {r: 1, n: {y: true}, l: [1, 2]}, $ml: [In1] = [{y: false}, {y: true, x: 1}], $ld: [Int] = [3, 4]"

// splitVarDefs splits the variable definitions at the commas between them (not those inside defaults).
func splitVarDefs(defs string) []string {
	var out []string
	depth, start := 0, 0
	for i, r := range defs {
		switch r {
		case '{', '[':
			depth++
		case '}', ']':
			depth--
		case ',':
			if depth == 0 {
				out = append(out, strings.TrimSpace(defs[start:i]))
				start = i + 1
			}
		}
	}
	return append(out, strings.TrimSpace(defs[start:]))
}

type c11Step struct {
	Op   string  `json:"op"`
	Vars []hx.KV `json:"vars"`
	// PanicKey: a resolver asked for this response key panics during the step (the caller recovers,
	// as an HTTP server does); the kept Executable is used again afterwards
	PanicKey string `json:"panic_key,omitempty"`
	// Extend: SDL the root is given before the step (the schema grows between two uses of the kept
	// Executable); the fresh root of the comparison is given everything up to here as well
	Extend string `json:"extend,omitempty"`
}

type c11Case struct {
	Text  string    `json:"text"`
	Steps []c11Step `json:"steps"`
	Strat string    `json:"strategy"`
	// Scribble: the resolvers overwrite, in place, the argument values they were given
	Scribble bool `json:"scribble,omitempty"`
}

type c11gen struct {
	t    *rapid.T
	nKey int
	// defect: one selection of the document gets an argument its field does not declare (the
	// document is not valid then; a kept parsed copy still has to answer like a fresh one)
	defect, defectDone bool
}

func (g *c11gen) maybeDefect(args []string, label string) []string {
	if g.defect && !g.defectDone && rapid.IntRange(0, 2).Draw(g.t, label+"defectHere") == 0 {
		g.defectDone = true
		return append(args, "zzz: 1")
	}
	return args
}

func (g *c11gen) intV(label string) string {
	return rapid.SampledFrom([]string{"1", "-7", "$i", "$j", "0", "2147483647", "$i"}).Draw(g.t, label)
}
func (g *c11gen) strV(label string) string {
	return rapid.SampledFrom([]string{`"a"`, `"b c"`, "$s", "$sd", `""`, "$s"}).Draw(g.t, label)
}
func (g *c11gen) boolV(label string) string {
	return rapid.SampledFrom([]string{"true", "false", "$b", "$c"}).Draw(g.t, label)
}

func (g *c11gen) in1(label string) string {
	parts := []string{"y: " + g.boolV(label+"y")}
	if rapid.Bool().Draw(g.t, label+"hx") {
		parts = append(parts, "x: "+rapid.SampledFrom([]string{"1.5", "$x", "-0.25"}).Draw(g.t, label+"x"))
	}
	if rapid.IntRange(0, 3).Draw(g.t, label+"hd") == 0 {
		parts = append(parts, "d: "+g.boolV(label+"d"))
	}
	return "{" + strings.Join(rapid.Permutation(parts).Draw(g.t, label+"perm"), ", ") + "}"
}

func (g *c11gen) in0(label string) string {
	switch rapid.IntRange(0, 7).Draw(g.t, label+"var") {
	case 0:
		return "$in"
	case 1, 2:
		return "$ind"
	}
	parts := []string{"r: " + g.intV(label+"r")}
	if rapid.Bool().Draw(g.t, label+"hi") {
		parts = append(parts, "i: "+g.intV(label+"i"))
	}
	if rapid.IntRange(0, 2).Draw(g.t, label+"hs") == 0 {
		parts = append(parts, "s: "+g.strV(label+"s"))
	}
	if rapid.IntRange(0, 2).Draw(g.t, label+"he") == 0 {
		parts = append(parts, "e: "+rapid.SampledFrom([]string{"RED", "$e", "GREEN"}).Draw(g.t, label+"e"))
	}
	if rapid.IntRange(0, 2).Draw(g.t, label+"hl") == 0 {
		parts = append(parts, "l: "+g.intList(label+"l", false))
	}
	if rapid.IntRange(0, 2).Draw(g.t, label+"hn") == 0 {
		parts = append(parts, "n: "+g.in1(label+"n"))
	}
	return "{" + strings.Join(rapid.Permutation(parts).Draw(g.t, label+"perm"), ", ") + "}"
}

func (g *c11gen) intList(label string, allowVar bool) string {
	if allowVar {
		switch rapid.IntRange(0, 5).Draw(g.t, label+"var") {
		case 0:
			return "$l"
		case 1:
			return "$ld"
		}
	}
	n := rapid.IntRange(0, 3).Draw(g.t, label+"n")
	var es []string
	for i := 0; i < n; i++ {
		es = append(es, g.intV(fmt.Sprintf("%s_%d", label, i)))
	}
	return "[" + strings.Join(es, ", ") + "]"
}

func (g *c11gen) fieldF(label string) string {
	var args []string
	if rapid.Bool().Draw(g.t, label+"a") {
		args = append(args, "a: "+g.in0(label+"in0"))
	}
	if rapid.Bool().Draw(g.t, label+"l") {
		args = append(args, "l: "+g.intList(label+"il", true))
	}
	if rapid.IntRange(0, 2).Draw(g.t, label+"s") == 0 {
		args = append(args, "s: "+g.strV(label+"sv"))
	}
	if rapid.IntRange(0, 2).Draw(g.t, label+"b") == 0 {
		args = append(args, "b: "+g.boolV(label+"bv"))
	}
	if rapid.IntRange(0, 3).Draw(g.t, label+"m") == 0 {
		n := rapid.IntRange(0, 2).Draw(g.t, label+"mn")
		var es []string
		for i := 0; i < n; i++ {
			es = append(es, g.in1(fmt.Sprintf("%sm%d", label, i)))
		}
		args = append(args, "m: ["+strings.Join(es, ", ")+"]")
	} else if rapid.IntRange(0, 3).Draw(g.t, label+"mv") == 0 {
		args = append(args, "m: $ml")
	}
	args = g.maybeDefect(args, label)
	g.nKey++
	s := fmt.Sprintf("k%d: f", g.nKey)
	if len(args) > 0 {
		s += "(" + strings.Join(rapid.Permutation(args).Draw(g.t, label+"order"), ", ") + ")"
	}
	return s
}

func (g *c11gen) fieldG(label string) string {
	var args []string
	if rapid.Bool().Draw(g.t, label+"x") {
		args = append(args, "x: "+g.intV(label+"xv"))
	}
	if rapid.Bool().Draw(g.t, label+"y") {
		args = append(args, "y: "+g.strV(label+"yv"))
	}
	if rapid.IntRange(0, 2).Draw(g.t, label+"z") == 0 {
		n := rapid.IntRange(0, 3).Draw(g.t, label+"zn")
		var es []string
		for i := 0; i < n; i++ {
			es = append(es, g.strV(fmt.Sprintf("%sz%d", label, i)))
		}
		args = append(args, "z: ["+strings.Join(es, ", ")+"]")
	}
	if rapid.IntRange(0, 2).Draw(g.t, label+"e") == 0 {
		args = append(args, "e: "+rapid.SampledFrom([]string{"RED", "$e"}).Draw(g.t, label+"ev"))
	}
	if rapid.IntRange(0, 3).Draw(g.t, label+"q") == 0 {
		args = append(args, "q: "+rapid.SampledFrom([]string{"7", `"a7"`, "-0", "null"}).Draw(g.t, label+"qv"))
	}
	if rapid.IntRange(0, 3).Draw(g.t, label+"fl") == 0 {
		args = append(args, "fl: "+rapid.SampledFrom([]string{"1", "2.5", "-3", "1e2", "null"}).Draw(g.t, label+"flv"))
	}
	if rapid.IntRange(0, 3).Draw(g.t, label+"tm") == 0 {
		args = append(args, "tm: "+rapid.SampledFrom([]string{`"2020-01-02T03:04:05Z"`, `"2021-05-06T07:08:09.5+02:00"`, "null"}).Draw(g.t, label+"tmv"))
	}
	args = g.maybeDefect(args, label)
	g.nKey++
	s := fmt.Sprintf("k%d: g", g.nKey)
	if len(args) > 0 {
		s += "(" + strings.Join(rapid.Permutation(args).Draw(g.t, label+"order"), ", ") + ")"
	}
	return s
}

func (g *c11gen) dir(label string) string {
	switch rapid.IntRange(0, 11).Draw(g.t, label+"dir") {
	case 10:
		// a directive of the application's own, its arguments written as variables
		return rapid.SampledFrom([]string{" @round(digits: $i)", " @round(digits: $j, mode: $s)", " @round(mode: $sd) @skip(if: $b)", " @round(digits: 2)"}).Draw(g.t, label+"appDir")
	case 0:
		return " @skip(if: $b)"
	case 1:
		return " @include(if: $c)"
	case 2:
		// two conditions on one selection: one decided by a variable, one by a literal that lets the
		// selection through, in either order
		return rapid.SampledFrom([]string{" @skip(if: $b) @include(if: true)", " @include(if: true) @skip(if: $b)", " @include(if: $c) @skip(if: false)",
			" @skip(if: false) @include(if: $c)", " @skip(if: $b) @include(if: $c)"}).Draw(g.t, label+"dir2")
	}
	return ""
}

// c11Overlap: can a fragment with type condition on be spread inside a selection set on con?
func c11Overlap(con, on string) bool {
	if con == "Query" || on == "Query" {
		return con == on
	}
	abstract := func(n string) bool { return n == "I0" || n == "U0" }
	return con == on || abstract(con) || abstract(on)
}

type c11Frag struct{ name, on string }

func (g *c11gen) sels(con string, depth int, frags []c11Frag, label string) string {
	n := rapid.IntRange(1, 3).Draw(g.t, label+"n")
	var out []string
	var usable []c11Frag
	for _, fr := range frags {
		if c11Overlap(con, fr.on) {
			usable = append(usable, fr)
		}
	}
	for i := 0; i < n; i++ {
		lab := fmt.Sprintf("%s_%d", label, i)
		k := rapid.IntRange(0, 6).Draw(g.t, lab+"k")
		if con == "U0" && k <= 3 {
			k = 5 // a union has no fields of its own
		}
		switch {
		case k <= 1:
			out = append(out, g.fieldF(lab)+g.dir(lab))
		case k == 2:
			out = append(out, g.fieldG(lab)+g.dir(lab))
		case k == 3 && depth > 0:
			if con == "Query" {
				f := rapid.SampledFrom([]string{"t", "ts", "t1", "i", "is", "u", "us"}).Draw(g.t, lab+"cf")
				sub := map[string]string{"t": "T0", "ts": "T0", "t1": "T1", "i": "I0", "is": "I0", "u": "U0", "us": "U0"}[f]
				out = append(out, f+g.dir(lab)+" { "+g.sels(sub, depth-1, frags, lab+"s")+" }")
			} else {
				arg := ""
				if rapid.Bool().Draw(g.t, lab+"oarg") {
					arg = "(k: " + g.intV(lab+"ok") + ")"
				}
				g.nKey++
				out = append(out, fmt.Sprintf("k%d: o%s%s { %s }", g.nKey, arg, g.dir(lab), g.sels(con, depth-1, frags, lab+"s")))
			}
		case k == 4 && len(usable) > 0:
			out = append(out, "..."+rapid.SampledFrom(usable).Draw(g.t, lab+"fr").name+g.dir(lab))
		case k == 4 && con != "Query":
			// fragments on the interface / union T1 is not (yet) part of
			g.nKey++
			d := g.dir(lab)
			out = append(out, rapid.SampledFrom([]string{"...FI1" + d, "...FU1" + d, fmt.Sprintf("... on I1%s { k%d: n }", d, g.nKey), fmt.Sprintf("... on U1%s { k%d: __typename }", d, g.nKey)}).Draw(g.t, lab+"late"))
		case k == 5:
			on := con
			if con != "Query" {
				on = rapid.SampledFrom([]string{"T0", "T1", "I0", "U0", con}).Draw(g.t, lab+"on")
				if !c11Overlap(con, on) {
					on = con
				}
			}
			body := "tn: __typename"
			if on != "U0" {
				body = g.fieldF(lab+"i") + " " + g.fieldG(lab+"j")
				if on != "Query" && depth > 0 && rapid.Bool().Draw(g.t, lab+"io") {
					g.nKey++
					body += fmt.Sprintf(" k%d: o(k: %s) { tn: __typename %s }", g.nKey, g.intV(lab+"iok"), g.fieldG(lab+"iog"))
				}
			}
			out = append(out, "... on "+on+g.dir(lab)+" { "+body+" }")
		default:
			switch con {
			case "Query":
				out = append(out, g.fieldG(lab))
			case "U0":
				out = append(out, "tn: __typename")
			default:
				out = append(out, "n")
			}
		}
	}
	return strings.Join(out, " ")
}

var c11VarPool = map[string][]hx.Val{
	"i":  {hx.I64(1), hx.I64(2), hx.I64(-3), hx.F64(4), hx.I32(9), hx.Nil(), hx.I64(1 << 40), hx.Str("x")},
	"j":  {hx.I64(6), hx.I64(7)},
	"s":  {hx.Str("s1"), hx.Str("s2"), hx.Str(""), hx.I64(3)},
	"sd": {hx.Str("other")},
	"b":  {hx.Bool(true), hx.Bool(false)},
	"c":  {hx.Bool(true), hx.Bool(false)},
	"in": {hx.Map(hx.KV{Key: "r", V: hx.I64(1)}), hx.Map(hx.KV{Key: "r", V: hx.I64(2)}, hx.KV{Key: "s", V: hx.Str("given")}, hx.KV{Key: "l", V: hx.List(hx.I64(1), hx.I64(2))}),
		hx.Map(hx.KV{Key: "i", V: hx.I64(1)}), hx.Map(hx.KV{Key: "r", V: hx.I64(3)}, hx.KV{Key: "n", V: hx.Map(hx.KV{Key: "y", V: hx.Bool(true)})})},
	"l":   {hx.List(hx.I64(1), hx.I64(2)), hx.List(), hx.List(hx.I64(5), hx.Nil()), hx.List(hx.F64(3))},
	"e":   {hx.Sym("RED"), hx.Sym("GREEN"), hx.Sym("BOGUS")},
	"x":   {hx.F64(2.5), hx.F64(-1), hx.I64(3)},
	"ind": {hx.Map(hx.KV{Key: "r", V: hx.I64(9)}, hx.KV{Key: "n", V: hx.Map(hx.KV{Key: "y", V: hx.Bool(false)}, hx.KV{Key: "x", V: hx.F64(0.5)})})},
	"ml":  {hx.List(hx.Map(hx.KV{Key: "y", V: hx.Bool(true)})), hx.List()},
	"ld":  {hx.List(hx.I64(8))},
}
var c11VarNames = []string{"i", "j", "s", "sd", "b", "c", "in", "l", "e", "x", "ind", "ml", "ld"}

func genCaseC11(t *rapid.T) *c11Case {
	g := &c11gen{t: t, defect: rapid.IntRange(0, 5).Draw(t, "defectiveDocument") == 0}
	c := &c11Case{Strat: rapid.SampledFrom([]string{"R", "A"}).Draw(t, "strategy")}
	nFr := rapid.IntRange(0, 3).Draw(t, "nFrags")
	var frags []c11Frag
	var fragDefs []string
	for i := 0; i < nFr; i++ {
		name := fmt.Sprintf("F%d", i)
		on := rapid.SampledFrom([]string{"T0", "I0", "I0", "T1", "U0"}).Draw(t, name+"on")
		fragDefs = append(fragDefs, "fragment "+name+" on "+on+" { "+g.sels(on, 1, frags, name)+" }")
		frags = append(frags, c11Frag{name, on})
	}
	nOps := rapid.IntRange(1, 3).Draw(t, "nOps")
	var defs []string
	var opNames []string
	for i := 0; i < nOps; i++ {
		name := fmt.Sprintf("Op%d", i)
		opNames = append(opNames, name)
		// every operation enters the graph through a field of its own choice, so that a shared fragment is
		// resolved under different concrete types by different operations
		entry := rapid.SampledFrom([]string{"t", "t1", "i", "is", "u", "us", "ts"}).Draw(t, name+"entry")
		sub := map[string]string{"t": "T0", "ts": "T0", "t1": "T1", "i": "I0", "is": "I0", "u": "U0", "us": "U0"}[entry]
		// (and, more often than the selection generator would by itself, spreads a named fragment
		// there: the one parsed selection that several operations have in common)
		shared := ""
		var usable []c11Frag
		for _, fr := range frags {
			if c11Overlap(sub, fr.on) {
				usable = append(usable, fr)
			}
		}
		if len(usable) > 0 && rapid.Bool().Draw(t, name+"spreadShared") {
			shared = " ..." + rapid.SampledFrom(usable).Draw(t, name+"shared").name
		}
		// operations of one document need not declare the same variables; a variable an operation
		// uses (itself or through a shared fragment) without declaring it has no value there,
		// whatever another operation was given for it earlier
		varDefs := c11VarDefs
		if nOps > 1 && rapid.IntRange(0, 2).Draw(t, name+"declaresFewer") == 0 {
			var keep []string
			for _, d := range splitVarDefs(c11VarDefs) {
				if strings.HasPrefix(d, "$c:") || rapid.IntRange(0, 2).Draw(t, name+"declares"+d[:3]) != 0 {
					keep = append(keep, d)
				}
			}
			varDefs = strings.Join(keep, ", ")
		}
		// the root may be asked about itself in the same operation, with variables deciding what is shown
		intro := ""
		if rapid.IntRange(0, 2).Draw(t, name+"introspects") == 0 {
			intro = " " + rapid.SampledFrom([]string{
				`ti: __type(name: "T1") { name @skip(if: $b) fields(includeDeprecated: $c) { name } }`,
				`ts: __schema { types { kind @include(if: $c) name } queryType { name @skip(if: $b) } }`,
				`te: __type(name: "E0") { enumValues(includeDeprecated: $c) { name @include(if: $c) } ...FIntro }`,
				`ti: __type(name: "I0") { possibleTypes { name @skip(if: $b) } ...FIntro }`,
			}).Draw(t, name+"intro")
		}
		defs = append(defs, "query "+name+"("+varDefs+") { "+g.sels("Query", 3, frags, name)+intro+" "+entry+" { "+g.sels(sub, 2, frags, name+"t")+shared+" } }")
	}
	defs = append(defs, fragDefs...)
	defs = append(defs, "fragment FI1 on I1 { ni: n }", "fragment FU1 on U1 { tu: __typename }")
	defs = append(defs, "fragment FIntro on __Type { kind @skip(if: $b) fields(includeDeprecated: $c) { name isDeprecated } }")
	if len(defs) > 1 {
		defs = rapid.Permutation(defs).Draw(t, "defOrder")
	}
	c.Text = strings.Join(defs, "\n")
	c.Scribble = rapid.IntRange(0, 2).Draw(t, "scribblingResolvers") == 0
	exts := []string{"extend type T1 implements I1 {}", "extend union U1 = T1", "extend type T0 { late: Int }"}
	nSteps := rapid.IntRange(2, 8).Draw(t, "nSteps")
	for i := 0; i < nSteps; i++ {
		st := c11Step{Op: rapid.SampledFrom(opNames).Draw(t, fmt.Sprintf("step%dop", i))}
		if len(opNames) == 1 && rapid.IntRange(0, 2).Draw(t, fmt.Sprintf("step%dunnamed", i)) == 0 {
			st.Op = "" // the only operation of the document, chosen by giving no name
		}
		for _, vn := range c11VarNames {
			lab := fmt.Sprintf("step%d%s", i, vn)
			if vn == "c" || rapid.IntRange(0, 3).Draw(t, lab+"give") != 0 {
				st.Vars = append(st.Vars, hx.KV{Key: vn, V: rapid.SampledFrom(c11VarPool[vn]).Draw(t, lab)})
			}
		}
		if i > 0 && len(exts) > 0 && rapid.IntRange(0, 3).Draw(t, fmt.Sprintf("step%dextends", i)) == 0 {
			k := rapid.IntRange(0, len(exts)-1).Draw(t, fmt.Sprintf("step%dext", i))
			st.Extend = exts[k]
			exts = append(exts[:k], exts[k+1:]...)
		}
		if rapid.IntRange(0, 7).Draw(t, fmt.Sprintf("step%dpanic", i)) == 0 {
			st.PanicKey = fmt.Sprintf("k%d", rapid.IntRange(1, 12).Draw(t, fmt.Sprintf("step%dpanicKey", i)))
		}
		c.Steps = append(c.Steps, st)
	}
	return c
}

func c11World(c *c11Case) (*World, error) {
	cs := &Case{Schema: c11Schema(), Graph: c11Graph(), Echo: true, Scribble: c.Scribble}
	for range cs.Graph.Nodes {
		if c.Strat == "A" {
			cs.Assign = append(cs.Assign, "A")
			cs.AnyInstalled = true
		} else {
			cs.Assign = append(cs.Assign, "R")
		}
	}
	return NewWorld(cs)
}

func goVars(kvs []hx.KV) map[string]interface{} {
	m := map[string]interface{}{}
	for _, kv := range kvs {
		m[kv.Key] = kv.V.Go()
	}
	return m
}

// resolveExe resolves under a watch: a call that never returns (every goroutine of it parked on a
// lock, two looks in a row) is reported as such instead of waiting for the deadline of the run.
func resolveExe(root *ggql.Root, exe *ggql.Executable, op string, vars map[string]interface{}) (out map[string]interface{}, pan interface{}) {
	done := make(chan struct{})
	go c11ResolveWorker(root, exe, op, vars, &out, &pan, done)
	if stuck := hx.AwaitOrStuck(done, "exec.c11ResolveWorker"); stuck != "" {
		return map[string]interface{}{"data": nil}, "never returned: " + stuck
	}
	return
}

func c11ResolveWorker(root *ggql.Root, exe *ggql.Executable, op string, vars map[string]interface{}, outp *map[string]interface{}, panp *interface{}, done chan struct{}) {
	defer close(done)
	*outp, *panp = resolveExeNow(root, exe, op, vars)
}

func resolveExeNow(root *ggql.Root, exe *ggql.Executable, op string, vars map[string]interface{}) (out map[string]interface{}, pan interface{}) {
	defer func() {
		if r := recover(); r != nil {
			pan = r
		}
	}()
	res, err := root.ResolveExecutable(exe, op, vars)
	out = map[string]interface{}{"data": nil}
	if res != nil {
		out = res
	}
	if err != nil {
		out["errors"] = ggql.FormErrorsResult(err)
	}
	return
}

func checkC11(c *c11Case) (ds []hx.Discrepancy, traits map[string]bool) {
	traits = map[string]bool{}
	add := func(kind, format string, args ...interface{}) {
		ds = append(ds, hx.Discrepancy{Kind: kind, Detail: fmt.Sprintf(format, args...)})
	}
	w, err := c11World(c)
	if err != nil {
		add("setup", "%v", err)
		return
	}
	exe, err := w.Root.ParseExecutableString(c.Text)
	if err != nil {
		add("setup", "generated document rejected: %v\n%s", err, c.Text)
		return
	}
	printed := exe.String()
	seenOps := map[string]bool{}
	var applied []string
	for i, st := range c.Steps {
		if st.Extend != "" {
			if err := w.Root.ParseString(st.Extend); err != nil {
				add("setup", "step %d: extension %q refused: %v", i, st.Extend, err)
				return
			}
			applied = append(applied, st.Extend)
			traits["schema-extended-between-steps"] = true
		}
		panicHook := func(node int, field *ggql.Field, args map[string]interface{}) (interface{}, error, bool) {
			if st.PanicKey != "" && field.Alias == st.PanicKey {
				panic("injected resolver panic at " + st.PanicKey)
			}
			return nil, nil, false
		}
		w.Hook = panicHook
		got, pan := resolveExe(w.Root, exe, st.Op, goVars(st.Vars))
		w.Hook = nil
		if pan != nil && strings.HasPrefix(fmt.Sprint(pan), "never returned") {
			add("hang", "step %d (op %q, vars %v): ResolveExecutable of the kept executable %v\n%s\nsteps: %+v", i, st.Op, goVars(st.Vars), pan, c.Text, c.Steps)
			return
		}
		if pan != nil && !strings.HasPrefix(fmt.Sprint(pan), "injected resolver panic") {
			add("panic", "step %d: ResolveExecutable panicked: %v\n%s", i, pan, c.Text)
			return
		}
		injected := pan
		fw, err := c11World(c)
		if err != nil {
			add("setup", "%v", err)
			return
		}
		for _, ext := range applied {
			if err := fw.Root.ParseString(ext); err != nil {
				add("setup", "step %d: extension %q refused by the fresh root: %v", i, ext, err)
				return
			}
		}
		fexe, err := fw.Root.ParseExecutableString(c.Text)
		if err != nil {
			add("setup", "fresh parse rejected: %v", err)
			return
		}
		fw.Hook = panicHook
		want, pan := resolveExe(fw.Root, fexe, st.Op, goVars(st.Vars))
		if fmt.Sprint(pan) != fmt.Sprint(injected) {
			add("panic", "step %d: the re-used executable ended with panic %v, the fresh one with %v", i, injected, pan)
			return
		}
		if injected != nil {
			traits["resolver-panic-recovered-by-the-caller"] = true
			continue
		}
		g, wnt := hx.Norm(stripLoc(got)), hx.Norm(stripLoc(want))
		if !hx.Equal(g, wnt) {
			add("not-repeatable", "step %d (op %s, vars %v): re-used executable answered\n  %s\nbut a fresh parse answers\n  %s\ndocument:\n%s\nsteps: %+v", i, st.Op, goVars(st.Vars), hx.Show(g), hx.Show(wnt), c.Text, c.Steps)
			return
		}
		if now := exe.String(); now != printed {
			add("printed-form-changed", "after step %d (op %s, vars %v) the executable prints differently:\n--- before\n%s\n--- after\n%s", i, st.Op, goVars(st.Vars), printed, now)
			return
		}
		if seenOps[st.Op] {
			traits["same-op-again"] = true
		}
		if len(seenOps) > 0 && !seenOps[st.Op] {
			traits["other-op-of-same-document"] = true
		}
		seenOps[st.Op] = true
		if _, has := got["errors"]; has {
			traits["step-with-errors"] = true
		} else {
			traits["step-without-errors"] = true
		}
		if d, _ := got["data"].(map[string]interface{}); len(d) > 0 {
			traits["step-with-data"] = true
		}
	}
	return
}

// stripLoc keeps everything of the response (messages, paths) - locations too: a fresh parse has
// the same positions.
// stripLoc: the errors one coercion of an input object reports come in the order ggql happens to walk
// the object's members (a Go map): the order of the entries of "errors" is not part of what is
// compared, the entries are.
func stripLoc(m map[string]interface{}) interface{} {
	es, ok := m["errors"].([]interface{})
	if !ok || len(es) < 2 {
		return m
	}
	cp := map[string]interface{}{}
	for k, v := range m {
		cp[k] = v
	}
	sorted := append([]interface{}{}, es...)
	sort.SliceStable(sorted, func(i, j int) bool { return hx.Show(hx.Norm(sorted[i])) < hx.Show(hx.Norm(sorted[j])) })
	cp["errors"] = sorted
	return cp
}

func TestC11(t *testing.T) {
	run := hx.NewRun("C11")
	defer run.Flush()
	classes := func(c *c11Case, tr map[string]bool) (bool, []string) {
		cl := []string{"strategy=" + c.Strat, fmt.Sprintf("steps=%d", len(c.Steps)), fmt.Sprintf("resolvers-overwrite-their-arguments=%v", c.Scribble)}
		for k := range tr {
			cl = append(cl, k)
		}
		for _, feat := range []struct{ name, needle string }{{"var-inside-object-literal", ": $"}, {"var-inside-list-literal", "[$"}, {"fragment", "fragment F"}, {"fragment-on-abstract-type", " on I0"}, {"fragment-on-union", " on U0"}, {"input-var", "$in"}, {"skip-include", "@"}} {
			if strings.Contains(c.Text, feat.needle) {
				cl = append(cl, feat.name)
			}
		}
		nt := (tr["same-op-again"] || tr["other-op-of-same-document"]) && (strings.Contains(c.Text, "{r: $") || strings.Contains(c.Text, ", $") || strings.Contains(c.Text, "[$") || strings.Contains(c.Text, "fragment F"))
		return nt, cl
	}
	if f := hx.Replaying(); f != "" {
		var c c11Case
		if err := hx.LoadCase(f, &c); err != nil {
			t.Fatalf("load %s: %v", f, err)
		}
		ds, tr := checkC11(&c)
		nt, cl := classes(&c, tr)
		run.Case(hx.Hash(&c), nt, cl...)
		real := run.Triage(ds)
		for _, d := range ds {
			if d.Sig != "" {
				fmt.Printf("REPLAY-KNOWN sig=%s %s\n", d.Sig, hx.Trunc(d.Detail, 400))
			}
		}
		if len(real) > 0 {
			t.Fatalf("REPLAY-FAIL %s", run.ReportFailure(&c, real))
		}
		return
	}
	rapid.Check(t, func(rt *rapid.T) {
		c := genCaseC11(rt)
		ds, tr := checkC11(c)
		nt, cl := classes(c, tr)
		run.Case(hx.Hash(c), nt, cl...)
		run.Sample(func() interface{} {
			return map[string]interface{}{"document": hx.Trunc(c.Text, 700), "steps": fmt.Sprintf("%+v", c.Steps), "strategy": c.Strat}
		})
		if real := run.Triage(ds); len(real) > 0 {
			rt.Fatalf("C11 violated: %s", run.ReportFailure(c, real))
		}
	})
}
