package exec

import (
	"fmt"
	"sort"
	"strconv"
	"strings"
	"testing"

	"pgregory.net/rapid"

	"verifharness/hx"
)

func genCaseC06(t *rapid.T) *Case {
	strategy := rapid.SampledFrom([]string{"R", "R", "A", "RA"}).Draw(t, "strategy")
	p := Profile{Strategy: strategy, MaxDepth: rapid.IntRange(2, 4).Draw(t, "maxDepth"), Dirs: rapid.IntRange(0, 3).Draw(t, "dirs") == 0, Mutation: rapid.Bool().Draw(t, "mutationType")}
	p.Args = rapid.IntRange(0, 3).Draw(t, "args") == 0
	s := GenSchema(t, p)
	leaf := LeafFn(GenLeaf)
	if rapid.IntRange(0, 3).Draw(t, "someHostile") == 0 {
		leaf = func(t *rapid.T, s *hx.Schema, base, label string, hint int) hx.Val {
			if rapid.IntRange(0, 5).Draw(t, label+"hz") == 0 {
				v := hostileLeaf(t, s, base, label, hint)
				if td := s.Type(base); td != nil && td.Kind == hx.KEnum && (v.K == "string" || v.K == "symbol") && !td.HasValue(v.S) {
					// an undeclared enum name is C05's open finding, not a failure C06 is about
					return GenLeaf(t, s, base, label, hint)
				}
				return v
			}
			return GenLeaf(t, s, base, label, hint)
		}
	}
	g := GenGraph(t, s, p, leaf)
	d, vars := GenDoc(t, s, p, false)
	c := &Case{Schema: s, Graph: g, Doc: d, Vars: vars, Layout: GenLayout(t), Echo: p.Args, ListSeed: rapid.IntRange(0, 1<<20).Draw(t, "listSeed")}
	c.Assign, c.AnyInstalled = GenAssign(t, g, strategy)
	c.Warm = GenWarm(t, s, p)
	c.Op = d.Ops[0].Name
	c.DepthAfter = rapid.SampledFrom([]int{0, 0, 0, 60, 300}).Draw(t, "maxResolveDepthAfterRoot")
	return c
}

func cloneWithFaults(c *Case, fs []hx.Fault) *Case {
	cp := *c
	cp.Faults = fs
	return &cp
}

func parseSite(k string) (int, string) {
	i := strings.IndexByte(k, '/')
	n, _ := strconv.Atoi(k[:i])
	return n, k[i+1:]
}

func classesC06(c *Case, exp *hx.Expect) (bool, []string) {
	_, cl := classesC01(c, exp)
	if exp == nil {
		return false, cl
	}
	nt := false
	for _, e := range exp.Errors {
		deep := len(e.Path) >= 2
		inList := false
		for _, p := range e.Path {
			if _, ok := p.(int); ok {
				inList = true
			}
		}
		if deep || inList {
			nt = true
		}
		if inList {
			cl = append(cl, "failure-inside-list")
		}
		cl = append(cl, "fault-kind="+e.Kind)
	}
	for _, f := range c.Faults {
		if f.Call > 0 {
			cl = append(cl, "fault-on-kth-invocation-only")
		}
	}
	switch n := len(c.Faults); {
	case n == 0:
		cl = append(cl, "faults=0(coercion only)")
	case n == 1:
		cl = append(cl, "faults=1")
	default:
		cl = append(cl, "faults>=2")
	}
	if exp.T.Spread > 0 && len(exp.Errors) > 0 {
		cl = append(cl, "failure-with-named-fragment-in-play")
	}
	return nt && len(exp.Errors) > 0, cl
}

func TestC06(t *testing.T) {
	run := hx.NewRun("C06")
	defer run.Flush()
	check := func(c *Case) ([]hx.Discrepancy, *hx.Expect, map[string]interface{}, *World) {
		return checkFull(c, "C06")
	}
	if f := hx.Replaying(); f != "" {
		runPropWith(t, "C06", nil, check, classesC06, run)
		return
	}
	sitesTotal := 0
	rapid.Check(t, func(rt *rapid.T) {
		base := genCaseC06(rt)
		// fault-free reference run gives the invocation list
		x := &hx.Exec{S: base.Schema, G: base.Graph, D: base.Doc, Echo: base.Echo}
		exp0 := x.Run(base.Op, base.VarMap())
		var sites []string
		for k := range exp0.Calls {
			if n, _ := parseSite(k); n != base.Graph.Root {
				sites = append(sites, k)
			}
		}
		sort.Strings(sites)
		if len(sites) > 40 {
			sites = sites[:40]
		}
		one := func(c *Case) {
			ds, exp, res, _ := check(c)
			nt, cl := classesC06(c, exp)
			run.Case(hx.Hash(c), nt, cl...)
			run.Sample(func() interface{} {
				m := sampleCase(c, res).(map[string]interface{})
				m["faults"] = fmt.Sprintf("%+v", c.Faults)
				return m
			})
			if real := run.Triage(ds); len(real) > 0 {
				rt.Fatalf("C06 violated: %s", run.ReportFailure(c, real))
			}
		}
		one(base) // no injected fault: coercion failures only
		kinds := []string{"err", "group", "ext", "wgroup", "lext", "valerr"}
		mkFault := func(site string, label string) hx.Fault {
			n, f := parseSite(site)
			fl := hx.Fault{Node: n, Field: f, Kind: rapid.SampledFrom(kinds).Draw(rt, label+"kind")}
			if fl.Kind == "group" || fl.Kind == "wgroup" {
				fl.N = rapid.IntRange(1, 3).Draw(rt, label+"n")
				fl.Same = fl.Kind == "group" && rapid.IntRange(0, 2).Draw(rt, label+"same") == 0
			}
			if fl.Kind == "lext" {
				fl.N = rapid.IntRange(0, 3).Draw(rt, label+"n")
			}
			if fl.Kind == "ext" {
				fl.Same = rapid.Bool().Draw(rt, label+"sentinel")
			}
			// list accessor failure (root resolver's Nth) when the site holds a non-empty list
			if base.AnyInstalled {
				if v := base.Graph.Nodes[n].F[f]; v.K == "list" && len(v.L) > 0 && rapid.IntRange(0, 2).Draw(rt, label+"nth") == 0 {
					fl.Kind = "nth"
					fl.Index = rapid.IntRange(0, len(v.L)-1).Draw(rt, label+"idx")
					fl.N = rapid.IntRange(0, 1).Draw(rt, label+"nthWithValue")
				}
			}
			return fl
		}
		// every single reachable invocation in turn
		for i, s := range sites {
			sitesTotal++
			one(cloneWithFaults(base, []hx.Fault{mkFault(s, fmt.Sprintf("s%d", i))}))
			// the same field of the same object invoked several times in the request (a response key
			// selected twice, a shared or revisited object): only the k-th invocation fails
			if calls := exp0.Calls[s]; calls >= 2 {
				for k := 1; k <= minInt(calls, 3); k++ {
					fl := mkFault(s, fmt.Sprintf("s%dc%d", i, k))
					if fl.Kind == "nth" {
						continue
					}
					fl.Call = k
					one(cloneWithFaults(base, []hx.Fault{fl}))
				}
			}
		}
		// sampled pairs / triples
		if len(sites) >= 2 {
			for j := 0; j < rapid.IntRange(0, 3).Draw(rt, "multi"); j++ {
				k := rapid.IntRange(2, minInt(3, len(sites))).Draw(rt, fmt.Sprintf("m%dk", j))
				perm := rapid.Permutation(sites).Draw(rt, fmt.Sprintf("m%dperm", j))
				var fs []hx.Fault
				for q := 0; q < k; q++ {
					fs = append(fs, mkFault(perm[q], fmt.Sprintf("m%d_%d", j, q)))
				}
				one(cloneWithFaults(base, fs))
			}
		}
	})
	run.Extra("single_fault_sites_enumerated", sitesTotal)
}
