package exec

import (
	"fmt"
	"sort"
	"strings"
	"testing"

	"pgregory.net/rapid"

	"verifharness/hx"
)

// uconfig is one way of serving the same universe case.
type uconfig struct {
	Name   string
	Any    bool
	Family map[string]string // GraphQL type -> R | UR | X | A | AX ; "" key = schema-level root object
	RegAll bool
	// PerNode overrides the family of individual nodes (node id -> R | X | A | AX): objects of one
	// GraphQL type served by different strategies. Only plain Resolver objects are mixed with the
	// reflective representations (they take no part in the lazy Go-type binding of the type).
	PerNode map[int]string
}

func applyConfig(base *Case, cf uconfig) *Case {
	c := *base
	c.AnyInstalled = cf.Any
	c.Assign = make([]string, len(base.Graph.Nodes))
	c.GoType = map[string]string{}
	for k, v := range base.GoType {
		c.GoType[k] = v
	}
	for _, n := range base.Graph.Nodes {
		fam := cf.Family[n.Type]
		if (n.Type == "Query" || n.Type == "") && (fam == "UR" || fam == "UM") {
			fam = "R" // there is no resolver twin of UQuery / of the schema-level root object
		}
		if n.Type == "" && fam == "AX" {
			fam = "A"
		}
		if pn, ok := cf.PerNode[n.ID]; ok {
			fam = pn
		}
		c.Assign[n.ID] = fam
	}
	for tn, fam := range cf.Family {
		if fam == "UR" && tn != "" && tn != "Query" {
			c.GoType[tn] = "R" + base.GoType[tn]
		}
		if fam == "UM" && tn != "" && tn != "Query" {
			c.GoType[tn] = "M" + base.GoType[tn]
		}
	}
	c.Register = append([]string{}, base.Register...)
	if cf.RegAll {
		seen := map[string]bool{}
		for _, r := range c.Register {
			seen[r] = true
		}
		for tn := range base.GoType {
			if !seen[tn] {
				c.Register = append(c.Register, tn)
			}
		}
		sortStrings(c.Register)
	}
	c.Note = cf.Name
	return &c
}

func uniform(base *Case, fam string, any bool, name string, regAll bool) uconfig {
	cf := uconfig{Name: name, Any: any, Family: map[string]string{"": fam}, RegAll: regAll}
	for tn := range base.GoType {
		cf.Family[tn] = fam
	}
	if fam == "A" || fam == "X" || fam == "AX" {
		cf.Family[""] = fam
	}
	return cf
}

type c02Case struct {
	Base    *Case     `json:"base"`
	Configs []uconfig `json:"configs"`
	// Defect: the request carries one injected defect (C10's catalogue): there is no reference
	// answer then, the configurations are compared with each other
	Defect string `json:"defect,omitempty"`
}

func genCaseC02(t *rapid.T) *c02Case {
	base := &Case{Layout: GenLayout(t), ListSeed: rapid.IntRange(0, 1<<20).Draw(t, "listSeed")}
	GenUniverse(t, UniverseOpts{Renames: rapid.Bool().Draw(t, "renames")}, base)
	GenUniverseGraph(t, base)
	p := Profile{MaxDepth: rapid.IntRange(2, 4).Draw(t, "maxDepth"), Args: true}
	d, vars := GenDoc(t, base.Schema, p, rapid.IntRange(0, 3).Draw(t, "multi") == 0)
	base.Doc, base.Vars = d, vars
	base.Op = d.Ops[0].Name
	base.LateRegister = rapid.IntRange(0, 4).Draw(t, "lateRegister") == 0
	base.KeepParsed = base.LateRegister && rapid.Bool().Draw(t, "keepParsed")
	base.Decoy = rapid.IntRange(0, 3).Draw(t, "decoyRoots") == 0
	if !base.KeepParsed && rapid.IntRange(0, 2).Draw(t, "resolvedBefore") == 0 {
		// the parsed request was resolved before, with other values of its variables: each strategy
		// has to answer for the values of THIS request
		base.PrimeVars = AltVars(t, base.Schema, d, "prime")
	}
	if rapid.IntRange(0, 3).Draw(t, "tightDepth") == 0 {
		// the depth limit set to what the request needs: every strategy and every list representation
		// has to count the levels alike
		base.TightDepth = rapid.IntRange(1, 2).Draw(t, "tightDepthPlus")
	}
	cc := &c02Case{Base: base}
	if rapid.IntRange(0, 5).Draw(t, "defective") == 0 {
		kind := rapid.SampledFrom([]string{"omitted-required-arg", "undeclared-arg", "unknown-field"}).Draw(t, "defectKind")
		if _, ok := inject(t, base, kind); ok {
			cc.Defect = kind
			base.Doc.Number()
		}
	}
	cc.Configs = append(cc.Configs,
		uniform(base, "R", false, "uniform-Resolver", false),
		uniform(base, "A", true, "uniform-root-resolver", false),
		uniform(base, "X", false, "uniform-reflection-auto", false),
		uniform(base, "X", false, "uniform-reflection-registered", true),
		uniform(base, "UR", false, "uniform-Resolver-with-reflective-poison", true),
	)
	var tnames []string
	for tn := range base.GoType {
		tnames = append(tnames, tn)
	}
	sort.Strings(tnames)
	for i := 0; i < 2; i++ {
		any := i == 1
		fams := []string{"R", "UR", "UM", "X"}
		if any {
			fams = []string{"R", "UR", "UM", "A", "AX"}
		}
		cf := uconfig{Name: fmt.Sprintf("mixed-any=%v", any), Any: any, Family: map[string]string{}, RegAll: rapid.Bool().Draw(t, fmt.Sprintf("mixreg%d", i))}
		rootFams := []string{"R", "X"}
		if any {
			rootFams = []string{"R", "A"}
		}
		cf.Family[""] = rapid.SampledFrom(rootFams).Draw(t, fmt.Sprintf("mix%droot", i))
		for _, tn := range tnames {
			cf.Family[tn] = rapid.SampledFrom(fams).Draw(t, fmt.Sprintf("mix%d%s", i, tn))
		}
		cc.Configs = append(cc.Configs, cf)
	}
	// per-node mixtures: every node draws its own strategy
	for i := 0; i < 2; i++ {
		any := i == 1
		base0, fams := "X", []string{"R", "X"}
		if any {
			base0, fams = "A", []string{"R", "A", "AX"}
		}
		cf := uniform(base, base0, any, fmt.Sprintf("mixed-per-node-any=%v", any), rapid.Bool().Draw(t, fmt.Sprintf("pnreg%d", i)))
		cf.PerNode = map[int]string{}
		for _, n := range base.Graph.Nodes {
			if n.Type == "" {
				continue
			}
			cf.PerNode[n.ID] = rapid.SampledFrom(fams).Draw(t, fmt.Sprintf("pn%d_%d", i, n.ID))
		}
		cc.Configs = append(cc.Configs, cf)
	}
	return cc
}

func checkUniverse(c *Case, prop string) ([]hx.Discrepancy, *hx.Expect, map[string]interface{}) {
	cc := c
	universeSlotOf = func(tn, f string) string { return slotFor(cc, tn, f) }
	ds, exp, res, _ := checkFullWith(c, prop, UniverseCompute)
	return ds, exp, res
}

// compareConfigs resolves a (defective) request under every configuration and compares data and
// error paths with those of the first one.
func compareConfigs(cc *c02Case) string {
	var first, firstName string
	for _, cf := range cc.Configs {
		c := applyConfig(cc.Base, cf)
		universeSlotOf = func(tn, f string) string { return slotFor(c, tn, f) }
		w, err := NewWorld(c)
		if err != nil {
			return "setup: " + err.Error()
		}
		res, text, pan := w.Resolve()
		if pan != nil {
			return fmt.Sprintf("%s: ResolveString panicked: %v\nrequest: %s", cf.Name, pan, text)
		}
		got := hx.Show(hx.Norm(res["data"])) + " errors at " + strings.Join(errPathsOf(res), ", ")
		if first == "" {
			first, firstName = got, cf.Name
			continue
		}
		if got != first {
			return fmt.Sprintf("the request with the defect %q is answered differently by two configurations:\n  %s: %s\n  %s: %s\nrequest: %s", cc.Defect, firstName, first, cf.Name, got, text)
		}
	}
	return ""
}

func TestC02(t *testing.T) {
	run := hx.NewRun("C02")
	defer func() {
		listRepMu.Lock()
		for k, v := range ListRepCount {
			run.ClassN("list-rep="+k, v)
		}
		listRepMu.Unlock()
		run.Flush()
	}()
	classes := func(c *Case, exp *hx.Expect) (bool, []string) {
		cl := []string{"config=" + c.Note}
		fam := map[string]bool{}
		for _, a := range c.Assign {
			fam[a] = true
		}
		if len(c.Rename) > 0 {
			cl = append(cl, "registered-field-renames")
		}
		for _, gt := range c.GoType {
			if gt == "Vee" && c.VeeIsMap {
				cl = append(cl, "named-map-with-methods-in-schema")
			}
			if gt == "Vee" {
				cl = append(cl, "by-value-go-type-in-schema")
				if exp != nil && !exp.Rejected {
					hit := false
					for call := range exp.Calls { // "node/field"
						var id int
						var fn string
						if _, err := fmt.Sscanf(strings.Replace(call, "/", " ", 1), "%d %s", &id, &fn); err == nil && id < len(c.Graph.Nodes) {
							if sl := slotFor(c, c.Graph.Nodes[id].Type, fn); sl == "vals" || sl == "val" {
								hit = true
							}
						}
					}
					if hit {
						cl = append(cl, "typed-slot-of-struct-values-resolved")
					}
				}
				break
			}
		}
		for k := range c.Rename {
			_ = k
		}
		if exp == nil || exp.Rejected {
			return false, cl
		}
		if exp.T.ArgsSeen > 0 {
			cl = append(cl, "method-or-resolver-with-args")
		}
		if exp.T.ListFields > 0 {
			cl = append(cl, "list")
		}
		if len(c.Vars) > 0 {
			cl = append(cl, "variables")
		}
		if exp.T.Spread+exp.T.Inline > 0 {
			cl = append(cl, "fragments")
		}
		mixed := len(fam) >= 2
		if mixed {
			cl = append(cl, "mixed-families")
		}
		return mixed && exp.T.MaxDepth >= 2 && exp.T.ListFields > 0, cl
	}
	one := func(fatal func(string, ...interface{}), c *Case) {
		ds, exp, res := checkUniverse(c, "C02")
		nt, cl := classes(c, exp)
		run.Case(hx.Hash(c), nt, cl...)
		run.Sample(func() interface{} {
			m := sampleCase(c, res).(map[string]interface{})
			m["config"] = c.Note
			m["go_types"] = fmt.Sprintf("%v", c.GoType)
			return m
		})
		if hx.Replaying() != "" {
			for _, d := range ds {
				if d.Sig != "" {
					fmt.Printf("REPLAY-KNOWN sig=%s %s\n", d.Sig, hx.Trunc(d.Detail, 400))
				}
			}
		}
		if real := run.Triage(ds); len(real) > 0 {
			fatal("C02 violated (%s): %s", c.Note, run.ReportFailure(c, real))
		}
	}
	if f := hx.Replaying(); f != "" {
		var cc c02Case
		if err := hx.LoadCase(f, &cc); err == nil && cc.Base != nil {
			// a defective request: the configurations compared with each other
			if d := compareConfigs(&cc); d != "" {
				t.Fatalf("REPLAY-FAIL C02 violated: %s", d)
			}
			return
		}
		var c Case
		if err := hx.LoadCase(f, &c); err != nil {
			t.Fatalf("load %s: %v", f, err)
		}
		one(func(f string, a ...interface{}) { t.Fatalf("REPLAY-FAIL "+f, a...) }, &c)
		return
	}
	rapid.Check(t, func(rt *rapid.T) {
		cc := genCaseC02(rt)
		if cc.Defect != "" {
			if d := compareConfigs(cc); d != "" {
				rt.Fatalf("C02 violated: %s", run.ReportFailure(cc, []hx.Discrepancy{{Kind: "strategies-differ", Detail: d}}))
			}
			run.Case(hx.Hash(cc), true, "defective-request-compared-across-strategies", "defect="+cc.Defect)
			return
		}
		for _, cf := range cc.Configs {
			one(rt.Fatalf, applyConfig(cc.Base, cf))
		}
	})
}
