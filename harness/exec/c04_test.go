package exec

import (
	"fmt"
	"math"
	"sort"
	"strconv"
	"strings"
	"testing"
	"time"

	"github.com/uhn/ggql/pkg/ggql"
	"pgregory.net/rapid"

	"verifharness/hx"
)

// c04Schema is the fixed part of the C04 schema; the argument type of Query.f is drawn per case.
func c04Schema(argT, argT2 *hx.TRef) *hx.Schema {
	dflt := hx.Str("dflt")
	green := hx.Sym("GREEN")
	yes := hx.Bool(true)
	seven := hx.I64(7)
	ndDflt := hx.Map(hx.KV{Key: "y", V: hx.Bool(true)})
	lndDflt := hx.List(hx.Map(hx.KV{Key: "y", V: hx.Bool(false)}, hx.KV{Key: "x", V: hx.F64(1.5)}))
	s := &hx.Schema{Types: []*hx.TypeDef{
		{Kind: hx.KEnum, Name: "E0", Values: []*hx.EnumValue{{Name: "RED"}, {Name: "GREEN"}}},
		{Kind: hx.KInput, Name: "In1", Inputs: []*hx.Arg{
			{Name: "x", Type: hx.Named("Float")}, {Name: "y", Type: hx.Named("Boolean").NN()}, {Name: "t", Type: hx.Named("Time")}, {Name: "d", Type: hx.Named("Boolean"), Default: &yes}}},
		{Kind: hx.KInput, Name: "In0", Inputs: []*hx.Arg{
			{Name: "i", Type: hx.Named("Int")}, {Name: "s", Type: hx.Named("String"), Default: &dflt}, {Name: "r", Type: hx.Named("Int").NN()},
			{Name: "e", Type: hx.Named("E0"), Default: &green}, {Name: "l", Type: hx.ListOf(hx.Named("Int").NN())}, {Name: "n", Type: hx.Named("In1")},
			{Name: "ln", Type: hx.ListOf(hx.Named("In1"))}, {Name: "k", Type: hx.Named("ID")},
			// members whose defaults are input objects themselves (filled in through In1's definition)
			{Name: "nd", Type: hx.Named("In1"), Default: &ndDflt}, {Name: "lnd", Type: hx.ListOf(hx.Named("In1")), Default: &lndDflt}}},
		// In2 is the input object whose registered Go type (c04In2G) has fields narrower than the
		// declared scalars: a value that does not fit can not be delivered unaltered
		{Kind: hx.KInput, Name: "In2", Inputs: []*hx.Arg{
			{Name: "b", Type: hx.Named("Int")}, {Name: "u", Type: hx.Named("Int")}, {Name: "h", Type: hx.Named("Int"), Default: &seven},
			{Name: "w", Type: hx.Named("Float")}, {Name: "q", Type: hx.Named("Int64")}, {Name: "m", Type: hx.ListOf(hx.Named("In1"))}}},
	}}
	q := &hx.TypeDef{Kind: hx.KObject, Name: "Query", Fields: []*hx.Field{
		{Name: "f", Type: hx.Named("String"), Args: []*hx.Arg{{Name: "a", Type: argT}}},
		{Name: "z", Type: hx.Named("Int")},
		{Name: "g", Type: hx.Named("String"), Args: []*hx.Arg{{Name: "i", Type: hx.Named("In0")}}},
	}}
	if argT2 != nil {
		q.Fields[0].Args = append(q.Fields[0].Args, &hx.Arg{Name: "b", Type: argT2})
	}
	s.Types = append(s.Types, q)
	return s
}

var c04Bases = []string{"Int", "Float", "String", "Boolean", "ID", "Int64", "Float64", "Time", "E0", "In0", "In1", "In2", "In0", "In2"}

func genArgType(t *rapid.T, label string) *hx.TRef {
	base := rapid.SampledFrom(c04Bases).Draw(t, label+"base")
	r := hx.Named(base)
	if rapid.IntRange(0, 2).Draw(t, label+"nn0") == 0 {
		r = r.NN()
	}
	for i := 0; i < rapid.SampledFrom([]int{0, 0, 0, 1, 1, 2}).Draw(t, label+"lists"); i++ {
		r = hx.ListOf(r)
		if rapid.IntRange(0, 2).Draw(t, fmt.Sprintf("%snn%d", label, i+1)) == 0 {
			r = r.NN()
		}
	}
	return r
}

// written value pools per scalar: good (representable), bad (clearly unrepresentable), either (statement silent)
type pool struct{ good, bad, either []hx.Val }

var nan64 = hx.Val{K: "float64", S: "NaN"}
var inf64 = hx.Val{K: "float64", S: "+Inf"}

var c04Pools = map[string]pool{
	"Int": {
		good:   []hx.Val{hx.I64(0), hx.I64(1), hx.I64(-1), hx.I64(math.MaxInt32), hx.I64(math.MinInt32), hx.I64(65536)},
		bad:    []hx.Val{hx.I64(math.MaxInt32 + 1), hx.I64(math.MinInt32 - 1), hx.I64(4294967297), hx.I64(1<<53 + 1), hx.I64(math.MaxInt64), hx.F64(3.5), hx.F64(1e300), hx.F64(2147483648), hx.Str("3"), hx.Bool(true)},
		either: []hx.Val{hx.F64(3), hx.F64(-2147483648)},
	},
	"Float": {
		good:   []hx.Val{hx.F64(1.5), hx.F64(-0.25), hx.F64(math.MaxFloat32), hx.F64(0), hx.I64(16777217), hx.I64(3), hx.F64(1e-40), hx.F64(123456.789)},
		bad:    []hx.Val{hx.F64(1e300), hx.F64(-1e300), hx.F64(3.5e38), hx.Str("1.5"), hx.Bool(false)},
		either: nil,
	},
	"Float64": {
		good: []hx.Val{hx.F64(1e300), hx.F64(0.1), hx.F64(-2.5), hx.I64(7), hx.F64(5e-324)},
		bad:  []hx.Val{hx.Str("x"), hx.Bool(true)},
	},
	"Int64": {
		good: []hx.Val{hx.I64(1 << 40), hx.I64(math.MaxInt64), hx.I64(math.MinInt64), hx.I64(0), hx.I64(-5)},
		bad:  []hx.Val{hx.Bool(true), hx.F64(1.5), hx.Str("abc")},
		// (a string of digits: if it is taken at all, it is read as the decimal number it spells)
		either: []hx.Val{hx.Str("12"), hx.Str("0123"), hx.Str("-010"), hx.Str("0100"), hx.Str("9223372036854775807"), hx.Str("0x10")},
	},
	"String":  {good: []hx.Val{hx.Str(""), hx.Str("héllo"), hx.Str("RED"), hx.Str("line\nbreak \"q\" \\"), hx.Str("3")}, bad: []hx.Val{hx.I64(3), hx.Bool(true), hx.F64(1.5), hx.Sym("RED")}},
	"ID":      {good: []hx.Val{hx.Str("x"), hx.Str(""), hx.I64(7), hx.I64(-12)}, bad: []hx.Val{hx.F64(1.5), hx.Bool(true), hx.Sym("RED")}},
	"Boolean": {good: []hx.Val{hx.Bool(true), hx.Bool(false)}, bad: []hx.Val{hx.Str("true"), hx.I64(1), hx.I64(0), hx.Sym("yes")}},
	"Time": {
		good:   []hx.Val{hx.Str("2020-01-02T03:04:05Z"), hx.Str("1999-12-31T23:59:59.123456789+02:00")},
		bad:    []hx.Val{hx.Str("notatime"), hx.Bool(true), hx.Str("")},
		either: []hx.Val{hx.I64(1600000000), hx.F64(1.5e9)},
	},
	"E0": {good: []hx.Val{hx.Sym("RED"), hx.Sym("GREEN")}, bad: []hx.Val{hx.Sym("BOGUS"), hx.I64(3), hx.Bool(true), hx.Sym("red")}, either: []hx.Val{hx.Str("RED")}},
}

// goKindVariants re-types a numeric written value into other Go kinds (variable channel only).
func goKindVariants(t *rapid.T, v hx.Val, label string) hx.Val {
	switch v.K {
	case "int64":
		i, _ := strconv.ParseInt(v.S, 10, 64)
		kinds := []string{"int64", "int", "float64"}
		if i >= math.MinInt32 && i <= math.MaxInt32 {
			kinds = append(kinds, "int32")
		}
		if i >= 0 {
			kinds = append(kinds, "uint64", "uint")
			if i <= math.MaxUint32 {
				kinds = append(kinds, "uint32")
			}
		}
		if i >= -128 && i <= 127 {
			kinds = append(kinds, "int8", "int16")
		}
		k := rapid.SampledFrom(kinds).Draw(t, label+"gk")
		if k == "float64" {
			if float64(i) != math.Trunc(float64(i)) || int64(float64(i)) != i {
				return v
			}
			return hx.F64(float64(i))
		}
		return hx.IntKind(k, i)
	case "float64":
		if rapid.IntRange(0, 3).Draw(t, label+"f32") == 0 {
			f, _ := strconv.ParseFloat(v.S, 64)
			if float64(float32(f)) == f {
				return hx.F32(float32(f))
			}
		}
	}
	return v
}

type wgen struct {
	t      *rapid.T
	s      *hx.Schema
	varCh  bool // the value travels in the variables map (Go kinds allowed, no Var inside)
	either int
}

// good builds a representable written value for the type.
func (g *wgen) good(tr *hx.TRef, label string) hx.Val {
	t := g.t
	if !tr.NonNull && rapid.IntRange(0, 7).Draw(t, label+"null") == 0 {
		return hx.Nil()
	}
	if tr.List != nil {
		n := rapid.IntRange(0, 3).Draw(t, label+"n")
		vs := make([]hx.Val, 0, n)
		for i := 0; i < n; i++ {
			vs = append(vs, g.good(tr.List, fmt.Sprintf("%s_%d", label, i)))
		}
		return hx.List(vs...)
	}
	if td := g.s.Type(tr.Name); td != nil && td.Kind == hx.KInput {
		var kvs []hx.KV
		for _, f := range td.Inputs {
			required := f.Type.NonNull && f.Default == nil
			if !required && rapid.IntRange(0, 2).Draw(t, label+f.Name+"omit") == 0 {
				continue
			}
			v := g.good(f.Type, label+f.Name)
			if v.IsNil() && f.Default != nil {
				continue // explicit null for a defaulted field: statement silent, not generated
			}
			kvs = append(kvs, hx.KV{Key: f.Name, V: v})
		}
		if len(kvs) > 1 {
			perm := rapid.Permutation(kvs).Draw(t, label+"perm")
			kvs = perm
		}
		return hx.Map(kvs...)
	}
	p := c04Pools[tr.Name]
	v := rapid.SampledFrom(p.good).Draw(t, label+"g")
	if g.varCh {
		v = goKindVariants(t, v, label)
	}
	return v
}

// corrupt makes one position of a good value clearly unrepresentable; returns false if impossible.
func (g *wgen) corrupt(tr *hx.TRef, w hx.Val, label string) (hx.Val, bool) {
	t := g.t
	if w.IsNil() {
		if tr.NonNull {
			return w, false // cannot happen: good never yields nil for non-null
		}
		// replace the null by a bad non-null value
		base := *tr
		base.NonNull = true
		gw := g.good(&base, label+"rg")
		return g.corrupt(&base, gw, label+"rc")
	}
	if tr.NonNull && rapid.IntRange(0, 5).Draw(t, label+"tonull") == 0 {
		return hx.Nil(), true
	}
	if tr.List != nil {
		if rapid.IntRange(0, 5).Draw(t, label+"bareMember") == 0 {
			// a member written bare where the list is expected (GraphQL proper would wrap it, ggql
			// refuses it; what must never happen is that it arrives as it is), at this level or - for
			// a list of lists - one level too shallow
			base := *tr.List
			base.NonNull = true
			gw := g.good(&base, label+"bm")
			if gw.K != "list" || tr.List.List != nil {
				return gw, true
			}
		}
		if len(w.L) == 0 || rapid.IntRange(0, 5).Draw(t, label+"listkind") == 0 {
			// a wrong element appended
			base := *tr.List
			base.NonNull = true
			gw := g.good(&base, label+"ag")
			bad, ok := g.corrupt(&base, gw, label+"ac")
			if !ok {
				return w, false
			}
			return hx.List(append(append([]hx.Val{}, w.L...), bad)...), true
		}
		i := rapid.IntRange(0, len(w.L)-1).Draw(t, label+"idx")
		bad, ok := g.corrupt(tr.List, w.L[i], fmt.Sprintf("%s_%d", label, i))
		if !ok {
			return w, false
		}
		out := append([]hx.Val{}, w.L...)
		out[i] = bad
		return hx.List(out...), true
	}
	if td := g.s.Type(tr.Name); td != nil && td.Kind == hx.KInput {
		switch rapid.IntRange(0, 3).Draw(t, label+"objkind") {
		case 0: // unknown field
			return hx.Map(append(append([]hx.KV{}, w.M...), hx.KV{Key: "zzz", V: hx.I64(1)})...), true
		case 1: // required field removed
			var out []hx.KV
			removed := false
			for _, kv := range w.M {
				f := td.Input(kv.Key)
				if !removed && f != nil && f.Type.NonNull && f.Default == nil {
					removed = true
					continue
				}
				out = append(out, kv)
			}
			if removed {
				return hx.Map(out...), true
			}
			fallthrough
		default:
			if len(w.M) == 0 {
				return hx.Map(hx.KV{Key: "zzz", V: hx.I64(1)}), true
			}
			i := rapid.IntRange(0, len(w.M)-1).Draw(t, label+"fidx")
			f := td.Input(w.M[i].Key)
			bad, ok := g.corrupt(f.Type, w.M[i].V, label+f.Name)
			if !ok {
				return w, false
			}
			out := append([]hx.KV{}, w.M...)
			out[i] = hx.KV{Key: f.Name, V: bad}
			return hx.Map(out...), true
		}
	}
	p := c04Pools[tr.Name]
	cands := p.bad
	if !g.varCh {
		// literals: also the wrong literal kinds (list / object where a scalar is expected)
		cands = append(append([]hx.Val{}, cands...), hx.List(hx.I64(1)), hx.Map(hx.KV{Key: "x", V: hx.I64(1)}), hx.List(), hx.Map(), hx.List(hx.List()))
	} else {
		if tr.Name == "Float" || tr.Name == "Int" {
			cands = append(append([]hx.Val{}, cands...), nan64, inf64)
		}
		if tr.Name == "Int" {
			// every Go integer kind at and beyond its own extremes
			cands = append(cands, hx.Val{K: "uint64", S: "18446744073709551615"}, hx.Val{K: "uint64", S: "18446744073709551611"}, hx.Val{K: "uint64", S: "18446744071562067968"},
				hx.Val{K: "uint64", S: "9223372036854775808"}, hx.Val{K: "uint64", S: "2147483648"}, hx.Val{K: "uint", S: "18446744073709551615"}, hx.Val{K: "uint", S: "4294967296"},
				hx.Val{K: "uint32", S: "4294967295"}, hx.Val{K: "uint32", S: "2147483648"}, hx.Val{K: "int", S: "-2147483649"}, hx.Val{K: "int64", S: "-9223372036854775808"},
				hx.Val{K: "float32", S: "2.1474836e+09"}, hx.Val{K: "float32", S: "1.5"})
		}
		if tr.Name == "Int64" {
			cands = append(cands, hx.Val{K: "uint64", S: "18446744073709551615"}, hx.Val{K: "uint64", S: "9223372036854775808"})
		}
		if tr.Name == "Float" {
			cands = append(cands, hx.Val{K: "float32", S: "+Inf"}, hx.Val{K: "float32", S: "NaN"})
		}
	}
	return rapid.SampledFrom(cands).Draw(t, label+"b"), true
}

// denote computes what the resolver must receive for a representable written
// value (normalised), and whether the value is representable at all.
// verdict: "good" | "bad" | "either".
func denote(s *hx.Schema, tr *hx.TRef, w hx.Val) (exp interface{}, verdict string) {
	if w.IsNil() {
		if tr.NonNull {
			return nil, "bad"
		}
		return nil, "good"
	}
	if tr.List != nil {
		if w.K != "list" {
			// single value where a list is expected: GraphQL would wrap it, ggql rejects it
			return nil, "either-reject-or-conform"
		}
		out := make([]interface{}, len(w.L))
		verdict = "good"
		for i, e := range w.L {
			x, v := denote(s, tr.List, e)
			out[i] = x
			verdict = worse(verdict, v)
		}
		return out, verdict
	}
	if td := s.Type(tr.Name); td != nil && td.Kind == hx.KInput {
		if w.K != "map" {
			return nil, "bad"
		}
		out := map[string]interface{}{}
		verdict = "good"
		for _, kv := range w.M {
			f := td.Input(kv.Key)
			if f == nil {
				return nil, "bad"
			}
			if kv.V.IsNil() && f.Default != nil {
				verdict = worse(verdict, "either") // explicit null with a default: silent
				continue
			}
			x, v := denote(s, f.Type, kv.V)
			out[kv.Key] = x
			verdict = worse(verdict, v)
		}
		for _, f := range td.Inputs {
			if cur, has := out[f.Name]; has && cur != nil {
				continue
			}
			if _, has := w.Get(f.Name); has && f.Default == nil {
				continue // explicit null kept
			}
			if f.Default != nil {
				x, _ := denote(s, f.Type, *f.Default)
				out[f.Name] = x
			} else if f.Type.NonNull {
				return nil, "bad"
			}
		}
		return out, verdict
	}
	if w.K == "list" || w.K == "map" {
		return nil, "bad"
	}
	i, isInt, fits := asInt64(w)
	f, isFloat := asFloat64(w)
	switch tr.Name {
	case "E0":
		switch w.K {
		case "symbol":
			if s.Type("E0").HasValue(w.S) {
				return w.S, "good"
			}
			return nil, "bad"
		case "string":
			if s.Type("E0").HasValue(w.S) {
				return w.S, "either"
			}
		}
		return nil, "bad"
	case "Int":
		switch {
		case isInt:
			if fits && i >= math.MinInt32 && i <= math.MaxInt32 {
				return i, "good"
			}
			return nil, "bad"
		case isFloat:
			if f == math.Trunc(f) && f >= math.MinInt32 && f <= math.MaxInt32 {
				return int64(f), "either"
			}
		}
		return nil, "bad"
	case "Int64":
		switch {
		case isInt:
			if fits {
				return i, "good"
			}
			return nil, "bad"
		case w.K == "string":
			if p, err := strconv.ParseInt(w.S, 10, 64); err == nil {
				return p, "either"
			}
		}
		return nil, "bad"
	case "Float":
		switch {
		case isFloat:
			if math.IsNaN(f) || math.IsInf(f, 0) || math.Abs(f) > math.MaxFloat32 {
				return nil, "bad"
			}
			return float64(float32(f)), "good"
		case isInt && fits:
			return float64(float32(i)), "good"
		}
		return nil, "bad"
	case "Float64":
		switch {
		case isFloat:
			if math.IsNaN(f) || math.IsInf(f, 0) {
				return nil, "either"
			}
			return f, "good"
		case isInt && fits:
			return float64(i), "good"
		}
		return nil, "bad"
	case "String":
		if w.K == "string" {
			return w.S, "good"
		}
		return nil, "bad"
	case "ID":
		switch {
		case w.K == "string":
			return w.S, "good"
		case isInt && fits:
			return strconv.FormatInt(i, 10), "good"
		}
		return nil, "bad"
	case "Boolean":
		if w.K == "bool" {
			return w.S == "true", "good"
		}
		return nil, "bad"
	case "Time":
		switch {
		case w.K == "string" || w.K == "time":
			if tm, err := time.Parse(time.RFC3339Nano, w.S); err == nil {
				return tm.UTC().Format(time.RFC3339Nano), "good"
			}
			return nil, "bad"
		case isInt, isFloat:
			return nil, "either-any" // seconds since the epoch: representation not stated
		}
		return nil, "bad"
	}
	return nil, "bad"
}

func worse(a, b string) string {
	rank := map[string]int{"good": 0, "either": 1, "either-any": 2, "either-reject-or-conform": 2, "bad": 3}
	if rank[b] > rank[a] {
		return b
	}
	return a
}

func asInt64(v hx.Val) (int64, bool, bool) {
	switch v.K {
	case "int", "int8", "int16", "int32", "int64":
		i, _ := strconv.ParseInt(v.S, 10, 64)
		return i, true, true
	case "uint", "uint8", "uint16", "uint32", "uint64":
		u, _ := strconv.ParseUint(v.S, 10, 64)
		if u > math.MaxInt64 {
			return 0, true, false
		}
		return int64(u), true, true
	}
	return 0, false, false
}

func asFloat64(v hx.Val) (float64, bool) {
	switch v.K {
	case "float32":
		f, _ := strconv.ParseFloat(v.S, 32)
		return float64(float32(f)), true
	case "float64":
		f, _ := strconv.ParseFloat(v.S, 64)
		return f, true
	}
	return 0, false
}

// conforms is the validity predicate on what the resolver actually received.
func conforms(s *hx.Schema, tr *hx.TRef, got interface{}) string {
	if got == nil {
		if tr.NonNull {
			return "null in a non-null position (" + tr.String() + ")"
		}
		return ""
	}
	if tr.List != nil {
		l, ok := got.([]interface{})
		if !ok {
			return fmt.Sprintf("%T where a list (%s) is expected", got, tr)
		}
		for i, e := range l {
			if msg := conforms(s, tr.List, e); msg != "" {
				return fmt.Sprintf("[%d]: %s", i, msg)
			}
		}
		return ""
	}
	if td := s.Type(tr.Name); td != nil && td.Kind == hx.KInput {
		if gs, isGo := got.(goStruct); isGo {
			// a registered Go struct: undeclared members are impossible, absent and zero are one
			if gs.Type != tr.Name {
				return fmt.Sprintf("Go struct for %s where %s is expected", gs.Type, tr.Name)
			}
			for _, f := range td.Inputs {
				v := gs.M[f.Name]
				if v == nil {
					continue
				}
				ft := *f.Type
				ft.NonNull = false
				if msg := conforms(s, &ft, v); msg != "" {
					return f.Name + ": " + msg
				}
			}
			return ""
		}
		m, ok := got.(map[string]interface{})
		if !ok {
			return fmt.Sprintf("%T where an input object %s is expected", got, tr.Name)
		}
		for k, v := range m {
			f := td.Input(k)
			if f == nil {
				return fmt.Sprintf("undeclared input field %q in %s", k, tr.Name)
			}
			if msg := conforms(s, f.Type, v); msg != "" {
				return k + ": " + msg
			}
		}
		for _, f := range td.Inputs {
			if f.Type.NonNull {
				if v, has := m[f.Name]; !has || v == nil {
					return fmt.Sprintf("required input field %q missing in %s", f.Name, tr.Name)
				}
			}
			if f.Default != nil {
				if v, has := m[f.Name]; !has || v == nil {
					return fmt.Sprintf("default of input field %q not filled in", f.Name)
				}
			}
		}
		return ""
	}
	n := hx.Norm(got)
	switch tr.Name {
	case "E0":
		var name string
		switch t := got.(type) {
		case ggql.Symbol:
			name = string(t)
		case string:
			name = t
		default:
			return fmt.Sprintf("%T for an enum", got)
		}
		if !s.Type("E0").HasValue(name) {
			return fmt.Sprintf("%q is not a member of E0", name)
		}
	case "Int":
		i, ok := n.(int64)
		if !ok {
			return fmt.Sprintf("%T (%v) for Int", got, got)
		}
		if _, isU64 := got.(uint64); isU64 && got.(uint64) > math.MaxInt32 {
			return fmt.Sprintf("%v outside 32 bits", got)
		}
		if i < math.MinInt32 || i > math.MaxInt32 {
			return fmt.Sprintf("%d outside 32 bits", i)
		}
	case "Int64":
		if _, ok := n.(int64); !ok {
			return fmt.Sprintf("%T for Int64", got)
		}
	case "Float", "Float64":
		switch t := n.(type) {
		case float64:
			if math.IsNaN(t) || math.IsInf(t, 0) {
				if tr.Name == "Float" {
					return fmt.Sprintf("%v is not finite", t)
				}
			}
		case int64:
		default:
			return fmt.Sprintf("%T for %s", got, tr.Name)
		}
	case "String", "ID":
		if _, ok := got.(string); !ok {
			return fmt.Sprintf("%T for %s", got, tr.Name)
		}
	case "Boolean":
		if _, ok := got.(bool); !ok {
			return fmt.Sprintf("%T for Boolean", got)
		}
	case "Time":
		switch t := got.(type) {
		case time.Time:
		case string:
			if _, err := time.Parse(time.RFC3339Nano, t); err != nil {
				return fmt.Sprintf("%q is not a time", t)
			}
		default:
			return fmt.Sprintf("%T for Time", got)
		}
	}
	return ""
}

// normArg normalises a received argument for comparison with the denotation.
func normArg(x interface{}) interface{} {
	switch t := x.(type) {
	case time.Time:
		return t.UTC().Format(time.RFC3339Nano)
	case []interface{}:
		out := make([]interface{}, len(t))
		for i, e := range t {
			out[i] = normArg(e)
		}
		return out
	case map[string]interface{}:
		out := map[string]interface{}{}
		for k, e := range t {
			out[k] = normArg(e)
		}
		return out
	case goStruct:
		out := map[string]interface{}{}
		for k, e := range t.M {
			out[k] = normArg(e)
		}
		return goStruct{Type: t.Type, M: out}
	}
	return hx.Norm(x)
}

// eqArg compares received and expected, treating numbers by value (an Int default arrives as int64,
// a Float as float32/float64) and Time strings by instant.
func eqArg(exp, got interface{}) bool {
	switch te := exp.(type) {
	case []interface{}:
		tg, ok := got.([]interface{})
		if !ok || len(tg) != len(te) {
			return false
		}
		for i := range te {
			if !eqArg(te[i], tg[i]) {
				return false
			}
		}
		return true
	case map[string]interface{}:
		if gs, isGo := got.(goStruct); isGo {
			for k, g := range gs.M {
				e, has := te[k]
				if !has || e == nil {
					if !zeroish(g) {
						return false
					}
					continue
				}
				if el, isList := e.([]interface{}); isList && len(el) == 0 && zeroish(g) {
					continue
				}
				if !eqArg(e, g) {
					return false
				}
			}
			return true
		}
		tg, ok := got.(map[string]interface{})
		if !ok {
			return false
		}
		for k, v := range te {
			if !eqArg(v, tg[k]) {
				return false
			}
		}
		for k, v := range tg {
			if _, has := te[k]; !has && v != nil {
				return false
			}
		}
		return true
	case float64:
		switch tg := got.(type) {
		case float64:
			return tg == te
		case int64:
			return float64(tg) == te
		}
		return false
	case int64:
		switch tg := got.(type) {
		case int64:
			return tg == te
		case float64:
			return tg == float64(te)
		}
		return false
	case string:
		if gs, ok := got.(string); ok {
			if gs == te {
				return true
			}
			t1, e1 := time.Parse(time.RFC3339Nano, te)
			t2, e2 := time.Parse(time.RFC3339Nano, gs)
			return e1 == nil && e2 == nil && t1.Equal(t2) && strings.Contains(te, "T")
		}
		return false
	}
	return hx.Equal(exp, got)
}

// c04Case is a C04 case.
type c04Case struct {
	ArgT    *hx.TRef `json:"arg_type"`
	W       hx.Val   `json:"written"`
	Channel string   `json:"channel"` // literal | var | default | nested
	Text    string   `json:"text"`
	Vars    []hx.KV  `json:"vars,omitempty"`
	Mode    string   `json:"mode"`     // good | bad
	Strat   string   `json:"strategy"` // R | A | X (reflection: Go methods taking interface{} parameters)
	// GoInputs: the input object types are bound to Go struct types with RegisterType, the
	// resolver then receives a *struct instead of a map
	GoInputs bool `json:"go_inputs,omitempty"`
	// Prime: the request is parsed once and resolved with these variable values before it is
	// resolved - the same parsed Executable - with Vars
	Prime []hx.KV `json:"prime,omitempty"`
	// WarmText: a valid request resolved on the same root before the request of the case
	WarmText string `json:"warm_text,omitempty"`
	// second argument (always a good literal) to exercise argument ordering
	ArgT2 *hx.TRef `json:"arg_type2,omitempty"`
	W2    *hx.Val  `json:"written2,omitempty"`
	First bool     `json:"b_first,omitempty"`
	// Iface: the field is selected on the members of a list of interface type whose two
	// implementers declare the arguments in different orders (1: a,b first; 2: b,a first); root
	// resolver strategy, the members are Go structs bound to their types
	Iface int `json:"iface,omitempty"`
	// ExtendIn1: the root first has In1 without its member z, serves a request that leaves In0's
	// defaulted In1 members out, and is then given `extend input In1 { z: String = "zz" }` - before
	// the request of the case (every In1 object, written or filled in from a default, has z from then on)
	ExtendIn1 bool `json:"extend_in1,omitempty"`
}

// embedVars replaces some leaves of a literal by variables (nested channel); returns the new
// literal and what it denotes now (a variable without value or default denotes nothing: an input
// object member written with it is as good as left out, a list member or the whole argument is null),
// collecting the variable definitions text and values.
func embedVars(t *rapid.T, s *hx.Schema, tr *hx.TRef, w hx.Val, defs *[]string, vals *[]hx.KV, label string, n *int, types map[string]*hx.TRef) (lit, sem hx.Val) {
	if w.IsNil() {
		return w, w
	}
	absent := hx.Val{K: "absent"}
	mk := func(tt *hx.TRef, v hx.Val) (hx.Val, hx.Val) {
		*n++
		name := fmt.Sprintf("v%d", *n)
		types[name] = tt
		switch rapid.IntRange(0, 4).Draw(t, label+name+"how") {
		case 0, 1:
			*defs = append(*defs, fmt.Sprintf("$%s: %s = %s", name, tt, hx.ValueSDL(v)))
		case 2:
			// declared nullable, no default, no value
			*defs = append(*defs, fmt.Sprintf("$%s: %s", name, tt.Nullable()))
			return hx.VarV(name), absent
		default:
			*defs = append(*defs, fmt.Sprintf("$%s: %s", name, tt))
			*vals = append(*vals, hx.KV{Key: name, V: v})
		}
		return hx.VarV(name), v
	}
	if rapid.IntRange(0, 3).Draw(t, label+"here") == 0 {
		return mk(tr, w)
	}
	if tr.List != nil && w.K == "list" {
		out := make([]hx.Val, len(w.L))
		outSem := make([]hx.Val, len(w.L))
		for i, e := range w.L {
			out[i], outSem[i] = embedVars(t, s, tr.List, e, defs, vals, fmt.Sprintf("%s_%d", label, i), n, types)
			if outSem[i].K == "absent" {
				outSem[i] = hx.Nil()
			}
		}
		return hx.List(out...), hx.List(outSem...)
	}
	if td := s.Type(tr.Name); td != nil && td.Kind == hx.KInput && w.K == "map" {
		out := make([]hx.KV, len(w.M))
		var outSem []hx.KV
		for i, kv := range w.M {
			out[i] = kv
			sv := kv.V
			if f := td.Input(kv.Key); f != nil {
				out[i].V, sv = embedVars(t, s, f.Type, kv.V, defs, vals, label+kv.Key, n, types)
			}
			if sv.K != "absent" {
				outSem = append(outSem, hx.KV{Key: kv.Key, V: sv})
			}
		}
		return hx.Map(out...), hx.Map(outSem...)
	}
	return w, w
}

func genCaseC04(t *rapid.T) *c04Case {
	c := &c04Case{ArgT: genArgType(t, "T"), Strat: rapid.SampledFrom([]string{"R", "A", "X"}).Draw(t, "strategy")}
	c.GoInputs = rapid.IntRange(0, 2).Draw(t, "goInputs") == 0
	c.ExtendIn1 = !c.GoInputs && rapid.IntRange(0, 3).Draw(t, "extendIn1") == 0
	c.Channel = rapid.SampledFrom([]string{"literal", "literal", "literal", "var", "var", "default", "default", "nested", "nested", "omitted", "unset"}).Draw(t, "channel")
	c.Mode = rapid.SampledFrom([]string{"good", "bad", "bad"}).Draw(t, "mode")
	s := c04Schema(c.ArgT, nil)
	g := &wgen{t: t, s: s, varCh: c.Channel == "var"}
	w := g.good(c.ArgT, "w")
	if c.Mode == "bad" {
		if bw, ok := g.corrupt(c.ArgT, w, "c"); ok {
			w = bw
		} else {
			c.Mode = "good"
		}
	} else if rapid.IntRange(0, 5).Draw(t, "useEither") == 0 && c.ArgT.List == nil {
		if p, ok := c04Pools[c.ArgT.Name]; ok && len(p.either) > 0 {
			w = rapid.SampledFrom(p.either).Draw(t, "eitherV")
		}
	}
	if rapid.IntRange(0, 9).Draw(t, "sharedVariable") == 0 {
		// one variable at two use sites whose declared types differ: each site gets the value coerced
		// for ITS type, whatever the other site made of it
		pair := rapid.SampledFrom([][3]string{{"Float", "Float64", "Float64"}, {"Float64", "Float", "Float64"}, {"Int", "Int64", "Int64"}, {"Int64", "Int", "Int64"},
			{"ID", "String", "String"}, {"String", "ID", "String"}, {"Int", "Int64", "Int"}}).Draw(t, "sharedPair")
		c.ArgT, c.ArgT2 = hx.Named(pair[0]), hx.Named(pair[1])
		c.Channel, c.Mode, c.GoInputs = "var", "good", false
		sg := &wgen{t: t, s: c04Schema(c.ArgT, c.ArgT2), varCh: true}
		sw := sg.good(hx.Named(pair[2]).NN(), "sharedW")
		c.W, c.W2 = sw, &sw
		c.Vars = []hx.KV{{Key: "v", V: sw}}
		args := "a: $v, b: $v"
		if rapid.Bool().Draw(t, "sharedOrder") {
			args = "b: $v, a: $v"
		}
		c.Text = "query Q($v: " + pair[2] + ") { z k: f(" + args + ") }"
		return c
	}
	if c.Channel == "omitted" {
		// the request does not write the argument at all - after the same field was resolved WITH a
		// good value: by a sibling selection of the same request and / or by an earlier request on the root
		c.Mode = "good"
		sib := g.good(c.ArgT, "sibling")
		for i := 0; sib.IsNil() && i < 3; i++ {
			sib = g.good(c.ArgT, fmt.Sprintf("sibling%d", i))
		}
		c.W = hx.Nil()
		withArg := "f(a: " + hx.ValueSDL(sib) + ")"
		switch rapid.IntRange(0, 2).Draw(t, "omitShape") {
		case 0:
			c.Text = "query Q { z w: " + withArg + " k: f }"
		case 1:
			c.WarmText = "query Q { w: " + withArg + " }"
			c.Text = "query Q { z k: f }"
		default:
			c.WarmText = "query Q { w: " + withArg + " }"
			c.Text = "query Q { z w: " + withArg + " k: f }"
		}
		return c
	}
	if c.Channel == "unset" {
		// the variable written for the argument has neither a value nor a default - while other
		// variables declared before and after it have: it denotes null, whatever the others hold
		c.Mode = "good"
		c.W = hx.Nil()
		c.ArgT2 = genArgType(t, "T2")
		g2 := &wgen{t: t, s: c04Schema(c.ArgT, c.ArgT2), varCh: true}
		w2 := g2.good(c.ArgT2, "w2")
		c.W2 = &w2
		pdef := "$p: " + c.ArgT2.String()
		if !w2.IsNil() && rapid.Bool().Draw(t, "unsetOtherDefault") {
			pdef += " = " + hx.ValueSDL(w2)
		} else if !w2.IsNil() {
			c.Vars = append(c.Vars, hx.KV{Key: "p", V: w2})
		}
		defs := []string{pdef, "$v: " + c.ArgT.String()}
		if rapid.IntRange(0, 2).Draw(t, "unsetThird") == 0 {
			// a variable of the argument's own type with a value, declared first and used by a sibling
			if sv := g.good(c.ArgT, "unsetSib"); !sv.IsNil() {
				defs = append([]string{"$q: " + c.ArgT.String()}, defs...)
				c.Vars = append(c.Vars, hx.KV{Key: "q", V: sv})
				c.Text = "query Q(" + strings.Join(defs, ", ") + ") { z w: f(a: $q) k: f(b: $p, a: $v) }"
				return c
			}
		}
		c.Text = "query Q(" + strings.Join(defs, ", ") + ") { z k: f(b: $p, a: $v) }"
		return c
	}
	c.W = w
	var second string
	if c.Strat == "A" && rapid.IntRange(0, 2).Draw(t, "iface") == 0 {
		c.Iface = rapid.IntRange(1, 2).Draw(t, "ifaceOrder")
	}
	if c.Iface > 0 || rapid.IntRange(0, 3).Draw(t, "second") == 0 {
		c.ArgT2 = genArgType(t, "T2")
		g2 := &wgen{t: t, s: c04Schema(c.ArgT, c.ArgT2)}
		w2 := g2.good(c.ArgT2, "w2")
		c.W2 = &w2
		c.First = rapid.Bool().Draw(t, "bFirst")
		second = "b: " + hx.ValueSDL(w2)
	}
	var defs []string
	var argText string
	varTypes := map[string]*hx.TRef{}
	if c.Channel == "var" || c.Channel == "default" {
		varTypes["v"] = c.ArgT
	}
	switch c.Channel {
	case "literal":
		argText = hx.ValueSDL(w)
	case "var":
		defs = append(defs, "$v: "+c.ArgT.String())
		c.Vars = append(c.Vars, hx.KV{Key: "v", V: w})
		argText = "$v"
	case "default":
		defs = append(defs, "$v: "+c.ArgT.String()+" = "+hx.ValueSDL(w))
		argText = "$v"
		if rapid.IntRange(0, 3).Draw(t, "alsoValue") == 0 {
			// a supplied value takes precedence over the default: supply the real value and make
			// the default a different good one
			other := (&wgen{t: t, s: s}).good(c.ArgT, "otherDefault")
			defs[0] = "$v: " + c.ArgT.String()
			if !other.IsNil() {
				defs[0] += " = " + hx.ValueSDL(other)
			}
			if !w.IsNil() {
				c.Vars = append(c.Vars, hx.KV{Key: "v", V: w})
			} else {
				defs[0] = "$v: " + c.ArgT.String() // a null written value: no default at all
			}
		}
	case "nested":
		n := 0
		lit, sem := embedVars(t, s, c.ArgT, w, &defs, &c.Vars, "e", &n, varTypes)
		if sem.K == "absent" {
			sem = hx.Nil()
		}
		c.W = sem
		argText = hx.ValueSDL(lit)
	}
	if len(varTypes) > 0 && rapid.IntRange(0, 2).Draw(t, "reuse") == 0 {
		// the parsed request was resolved before with other (good) values of its variables
		names := make([]string, 0, len(varTypes))
		for n := range varTypes {
			names = append(names, n)
		}
		sort.Strings(names)
		pg := &wgen{t: t, s: s, varCh: true}
		for _, n := range names {
			if pv := pg.good(varTypes[n], "prime"+n); !pv.IsNil() {
				c.Prime = append(c.Prime, hx.KV{Key: n, V: pv})
			}
		}
	}
	args := "a: " + argText
	if second != "" {
		if c.First {
			args = second + ", " + args
		} else {
			args = args + ", " + second
		}
	}
	head := "query Q"
	if len(defs) > 0 {
		head += "(" + strings.Join(defs, ", ") + ")"
	}
	c.Text = head + " { z k: f(" + args + ") }"
	if c.Iface > 0 {
		c.Text = head + " { z items { k: f(" + args + ") } }"
	}
	return c
}

func (c *c04Case) world() (*Case, *hx.Schema) {
	s := c04Schema(c.ArgT, c.ArgT2)
	if c.ExtendIn1 {
		zz := hx.Str("zz")
		in1 := s.Type("In1")
		in1.Inputs = append(in1.Inputs, &hx.Arg{Name: "z", Type: hx.Named("String"), Default: &zz})
	}
	g := &hx.Graph{Root: 0, Nodes: []*hx.Node{
		{ID: 0, Type: "", F: map[string]hx.Val{"query": hx.Ref(1)}},
		{ID: 1, Type: "Query", F: map[string]hx.Val{"f": hx.Str("ok"), "z": hx.I32(5), "g": hx.Str("ok")}},
	}}
	if c.Iface > 0 {
		ab := []*hx.Arg{{Name: "a", Type: c.ArgT}, {Name: "b", Type: c.ArgT2}}
		ba := []*hx.Arg{{Name: "b", Type: c.ArgT2}, {Name: "a", Type: c.ArgT}}
		s.Types = append(s.Types,
			&hx.TypeDef{Kind: hx.KInterface, Name: "I", Fields: []*hx.Field{{Name: "f", Type: hx.Named("String"), Args: ab}}},
			&hx.TypeDef{Kind: hx.KObject, Name: "P1", Interfaces: []string{"I"}, Fields: []*hx.Field{{Name: "f", Type: hx.Named("String"), Args: ab}}},
			&hx.TypeDef{Kind: hx.KObject, Name: "P2", Interfaces: []string{"I"}, Fields: []*hx.Field{{Name: "f", Type: hx.Named("String"), Args: ba}}})
		q := s.Type("Query")
		q.Fields = append(q.Fields, &hx.Field{Name: "items", Type: hx.ListOf(hx.Named("I"))})
		g.Nodes = append(g.Nodes, &hx.Node{ID: 2, Type: "P1", F: map[string]hx.Val{"f": hx.Str("ok")}}, &hx.Node{ID: 3, Type: "P2", F: map[string]hx.Val{"f": hx.Str("ok")}})
		if c.Iface == 1 {
			g.Nodes[1].F["items"] = hx.List(hx.Ref(2), hx.Ref(3))
		} else {
			g.Nodes[1].F["items"] = hx.List(hx.Ref(3), hx.Ref(2))
		}
	}
	cs := &Case{Schema: s, Graph: g, Text: c.Text, Op: "Q", Vars: c.Vars, PrimeVars: c.Prime}
	for _, n := range g.Nodes {
		if c.Iface > 0 && n.ID >= 2 {
			// Go structs bound to their object types (that is how ggql finds the definition of the
			// member's own type), served by the root resolver
			cs.Assign = append(cs.Assign, "AX")
			cs.Register = append(cs.Register, n.Type)
		} else if c.Strat == "A" {
			cs.Assign = append(cs.Assign, "A")
			cs.AnyInstalled = true
		} else {
			cs.Assign = append(cs.Assign, "R")
		}
	}
	return cs, s
}

func checkC04(c *c04Case) (ds []hx.Discrepancy, verdict string, invoked bool) {
	add := func(kind, sig, format string, args ...interface{}) {
		ds = append(ds, hx.Discrepancy{Kind: kind, Sig: sig, Detail: fmt.Sprintf(format, args...)})
	}
	res, text, calls, vars, s, pan, err := c.execute()
	if err != nil {
		add("setup", "", "%v", err)
		return
	}
	ctx := func() string {
		return fmt.Sprintf("\nargument type: %s  written: %s  channel=%s strategy=%s go-inputs=%v\nrequest: %s\nvars: %v\nresponse: %s", c.ArgT, hx.ValueSDL(c.W), c.Channel, c.Strat, c.GoInputs, text, vars, hx.Show(hx.Norm(res)))
	}
	if pan != nil {
		add("panic", "", "ResolveString panicked: %v%s", pan, ctx())
		return
	}
	var exp interface{}
	exp, verdict = denote(s, c.ArgT, c.W)
	if c.GoInputs && verdict != "bad" && goRangeBad(s, c.ArgT, c.W) {
		verdict = "bad" // does not fit the Go field it is bound to: must be refused, never wrapped
	}
	var call *Call
	if c.Strat == "X" {
		// a Go method does not learn the response key: the invocation for the sibling selection w
		// (if the request has one) comes first, the one for k after it
		skip := 0
		if strings.Contains(c.Text, " w: f(") {
			skip = 1
		}
		if len(calls) > skip {
			cc := calls[len(calls)-1]
			call = &cc
		}
	} else {
		for _, cl := range calls {
			if cl.Key == "k" {
				cc := cl
				call = &cc
			}
		}
	}
	invoked = call != nil
	errs, _ := res["errors"].([]interface{})
	if verdict == "bad" {
		if invoked {
			add("invoked-with-unrepresentable", "", "the written value cannot be coerced to %s but the resolver was invoked with a=%#v%s", c.ArgT, call.HasArgs["a"], ctx())
		}
		if len(errs) == 0 {
			add("no-error", "", "the written value cannot be coerced to %s but the response has no error%s", c.ArgT, ctx())
		}
		return
	}
	if !invoked {
		// representable but rejected is allowed; there must then be an error (nothing is silently dropped)
		if len(errs) == 0 {
			add("not-invoked-no-error", "", "resolver not invoked and no error reported%s", ctx())
		}
		return
	}
	got, has := call.HasArgs["a"]
	got = fromGo(s, got)
	if c.Channel == "omitted" {
		if has && got != nil {
			add("value-invented", "", "the request does not write the argument but the resolver received a=%#v%s", got, ctx())
		}
		return
	}
	if !has && c.Channel == "unset" {
		has, got = true, nil // a variable without a value: the argument may be left out
	}
	if !has {
		add("argument-missing", "", "resolver invoked without the written argument a%s", ctx())
		return
	}
	if msg := conforms(s, c.ArgT, got); msg != "" {
		add("does-not-conform", "", "received a=%#v does not conform to %s: %s%s", got, c.ArgT, msg, ctx())
		return
	}
	if verdict == "good" || verdict == "either" {
		if !eqArg(exp, normArg(got)) {
			add("value-altered", "", "received a=%s, the client wrote %s (expected %s)%s", hx.Show(normArg(got)), hx.ValueSDL(c.W), hx.Show(exp), ctx())
		}
	}
	if c.W2 != nil {
		e2, v2 := denote(s, c.ArgT2, *c.W2)
		if c.GoInputs && goRangeBad(s, c.ArgT2, *c.W2) {
			v2 = "bad"
		}
		if g2, has2 := call.HasArgs["b"]; has2 && v2 == "good" {
			g2 = fromGo(s, g2)
			if msg := conforms(s, c.ArgT2, g2); msg != "" {
				add("does-not-conform", "", "second argument b=%#v does not conform to %s: %s%s", g2, c.ArgT2, msg, ctx())
			} else if !eqArg(e2, normArg(g2)) {
				add("value-altered", "", "second argument b=%s, written %s%s", hx.Show(normArg(g2)), hx.ValueSDL(*c.W2), ctx())
			}
		}
	}
	return
}

func TestC04(t *testing.T) {
	run := hx.NewRun("C04")
	defer run.Flush()
	classes := func(c *c04Case, verdict string, invoked bool) (bool, []string) {
		cl := []string{"channel=" + c.Channel, "strategy=" + c.Strat, "verdict=" + verdict, "base=" + c.ArgT.BaseName(), fmt.Sprintf("go-inputs=%v", c.GoInputs), fmt.Sprintf("parsed-request-resolved-before=%v", len(c.Prime) > 0), fmt.Sprintf("on-interface-members-with-reordered-arguments=%v", c.Iface > 0), fmt.Sprintf("input-type-extended-after-first-use=%v", c.ExtendIn1),
			c.ArgT.BaseName() + "/" + verdict + "/" + c.Channel}
		if invoked {
			cl = append(cl, "resolver-invoked")
		} else if verdict != "bad" {
			cl = append(cl, "representable-but-rejected")
		}
		if c.ArgT.Wrappers() > 0 {
			cl = append(cl, "wrapped-type")
		}
		if c.ArgT.List != nil {
			cl = append(cl, "list-type")
		}
		k := s04kind(c)
		nt := c.ArgT.Wrappers() > 0 || k == hx.KInput || verdict == "bad"
		return nt, cl
	}
	if f := hx.Replaying(); f != "" {
		var c c04Case
		if err := hx.LoadCase(f, &c); err != nil {
			t.Fatalf("load %s: %v", f, err)
		}
		ds, v, inv := checkC04(&c)
		nt, cl := classes(&c, v, inv)
		run.Case(hx.Hash(&c), nt, cl...)
		real := run.Triage(ds)
		for _, d := range ds {
			if d.Sig != "" {
				fmt.Printf("REPLAY-KNOWN sig=%s %s\n", d.Sig, hx.Trunc(d.Detail, 400))
			}
		}
		if len(real) > 0 {
			t.Fatalf("REPLAY-FAIL %s", run.ReportFailure(&c, real))
		}
		return
	}
	rapid.Check(t, func(rt *rapid.T) {
		c := genCaseC04(rt)
		ds, v, inv := checkC04(c)
		nt, cl := classes(c, v, inv)
		run.Case(hx.Hash(c), nt, cl...)
		run.Sample(func() interface{} {
			return map[string]interface{}{"arg_type": c.ArgT.String(), "written": hx.ValueSDL(c.W), "channel": c.Channel, "request": c.Text, "verdict": v, "invoked": inv}
		})
		if real := run.Triage(ds); len(real) > 0 {
			rt.Fatalf("C04 violated: %s", run.ReportFailure(c, real))
		}
	})
}

func s04kind(c *c04Case) string {
	switch c.ArgT.BaseName() {
	case "In0", "In1":
		return hx.KInput
	case "E0":
		return hx.KEnum
	}
	return hx.KScalar
}
