package exec

import (
	"fmt"
	"sort"
	"strings"
	"testing"

	"pgregory.net/rapid"

	"verifharness/hx"
)

type c08Case struct {
	Base    *Case               `json:"base"`
	Configs []uconfig           `json:"configs"`
	Bind    map[string]UBinding `json:"bind"`
}

func genCaseC08(t *rapid.T) *c08Case {
	base := &Case{Layout: GenLayout(t), ListSeed: rapid.IntRange(0, 1<<20).Draw(t, "listSeed")}
	bind := GenUniverse(t, UniverseOpts{Abstract: true, Renames: rapid.IntRange(0, 3).Draw(t, "renames") == 0}, base)
	GenUniverseGraph(t, base)
	p := Profile{MaxDepth: rapid.IntRange(2, 5).Draw(t, "maxDepth"), Args: true, Abstract: true}
	d, vars := GenDoc(t, base.Schema, p, false)
	base.Doc, base.Vars = d, vars
	base.Op = d.Ops[0].Name
	// (registrations that arrive late would find a crossed name taken by the by-name binding already)
	base.LateRegister = rapid.IntRange(0, 3).Draw(t, "lateRegister") == 0 && !base.CrossedNames
	base.ViaAPI = rapid.IntRange(0, 3).Draw(t, "schemaViaGoAPI") == 0
	base.KeepParsed = base.LateRegister && rapid.Bool().Draw(t, "keepParsed")
	if rapid.IntRange(0, 2).Draw(t, "lateJoin") == 0 {
		// some memberships arrive by extension, after the root has answered a request
		for _, td := range base.Schema.Types {
			switch td.Kind {
			case hx.KObject:
				for _, in := range td.Interfaces {
					if rapid.Bool().Draw(t, "late"+td.Name+in) {
						base.LateJoin = append(base.LateJoin, td.Name+" implements "+in)
					}
				}
			case hx.KUnion:
				for _, m := range td.Members[1:] {
					if rapid.Bool().Draw(t, "late"+td.Name+m) {
						base.LateJoin = append(base.LateJoin, td.Name+" = "+m)
					}
				}
			}
		}
	}
	if rapid.IntRange(0, 2).Draw(t, "refusedMemberships") == 0 {
		// before any request the root is given a document that would make objects implement further
		// interfaces and join further unions - and that is refused for something else it holds: what
		// the objects are resolved as, and which fragments apply to them, is as if it had never been seen
		var b strings.Builder
		for _, td := range base.Schema.Types {
			if td.Kind != hx.KObject {
				continue
			}
			for _, other := range base.Schema.Types {
				switch {
				case other.Kind == hx.KInterface && !contains(td.Interfaces, other.Name):
					var missing []string
					for _, f := range other.Fields {
						if td.Field(f.Name) == nil {
							var args []string
							for _, a := range f.Args {
								args = append(args, a.Name+": "+a.Type.String())
							}
							as := ""
							if len(args) > 0 {
								as = "(" + strings.Join(args, ", ") + ")"
							}
							missing = append(missing, f.Name+as+": "+f.Type.String())
						}
					}
					fmt.Fprintf(&b, "extend type %s implements %s { %s }\n", td.Name, other.Name, strings.Join(missing, " "))
				case other.Kind == hx.KUnion && !other.HasMember(td.Name):
					fmt.Fprintf(&b, "extend union %s = %s\n", other.Name, td.Name)
				}
			}
		}
		if b.Len() > 0 {
			base.RefusedSDL = b.String() + "interface ZqRefI { b: Int }\ntype ZqRefT implements ZqRefI { a: Int }\n"
		}
	}
	cc := &c08Case{Base: base, Bind: bind}
	cc.Configs = append(cc.Configs, uniform(base, "X", false, "reflection", false))
	var tnames []string
	for tn := range base.GoType {
		tnames = append(tnames, tn)
	}
	sort.Strings(tnames)
	cf := uconfig{Name: "mixed-registered", Family: map[string]string{"": "X"}}
	for _, tn := range tnames {
		cf.Family[tn] = rapid.SampledFrom([]string{"X", "UR", "UM"}).Draw(t, "mix"+tn)
	}
	cc.Configs = append(cc.Configs, cf)
	return cc
}

func applyConfigC08(base *Case, cf uconfig) *Case {
	c := applyConfig(base, cf)
	// there is no Resolver twin of the Go type behind Query: when Query takes part in abstract types
	// it is served by reflection (a plain Resolver object has no Go type a binding could name - the
	// interface-resolver-only configuration is outside the claim)
	abstractQuery := false
	for _, td := range c.Schema.Types {
		switch td.Kind {
		case hx.KUnion:
			for _, m := range td.Members {
				abstractQuery = abstractQuery || m == "Query"
			}
		case hx.KObject:
			abstractQuery = abstractQuery || (td.Name == "Query" && len(td.Interfaces) > 0)
		}
	}
	if abstractQuery {
		for _, n := range c.Graph.Nodes {
			if n.Type == "Query" && c.Assign[n.ID] == "R" {
				c.Assign[n.ID] = "X"
			}
		}
	}
	// objects served by Resolver-implementing Go types need their type registered to take part in
	// abstract-type dispatch
	seen := map[string]bool{}
	for _, r := range c.Register {
		seen[r] = true
	}
	for tn, fam := range cf.Family {
		if (fam == "UR" || fam == "UM") && tn != "" && tn != "Query" && !seen[tn] {
			c.Register = append(c.Register, tn)
		}
	}
	sortStrings(c.Register)
	return c
}

func TestC08(t *testing.T) {
	run := hx.NewRun("C08")
	defer run.Flush()
	defer func() { run.Extra("worlds_with_memberships_added_after_first_use", LateJoinedWorlds) }()
	classes := func(c *Case, exp *hx.Expect, bind map[string]UBinding) (bool, []string) {
		cl := []string{"config=" + c.Note, fmt.Sprintf("registered-after-first-use=%v", c.LateRegister)}
		if c.ViaAPI {
			cl = append(cl, "schema-built-with-the-go-api")
		}
		if c.KeepParsed {
			cl = append(cl, "parsed-request-kept-across-the-registrations")
		}
		if len(c.LateJoin) > 0 {
			cl = append(cl, "memberships-by-extension-after-first-use(requested)")
		}
		if c.RefusedSDL != "" {
			cl = append(cl, "refused-document-with-further-memberships-first")
		}
		if c.CrossedNames {
			cl = append(cl, "object-type-named-like-the-go-type-of-another")
		}
		for tn, b := range bind {
			fam := "X"
			for _, n := range c.Graph.Nodes {
				if n.Type == tn {
					fam = c.Assign[n.ID]
				}
			}
			cl = append(cl, "binding="+b.Mode+"/"+fam)
		}
		if exp == nil || exp.Rejected {
			return false, cl
		}
		if exp.T.AbstractHops > 0 {
			cl = append(cl, "abstract-field-resolved")
		}
		if exp.T.FragMismatch > 0 {
			cl = append(cl, "fragment-cond-differs-and-applies")
		}
		if exp.T.FragNoApply > 0 {
			cl = append(cl, "fragment-not-applicable")
		}
		if exp.T.Typename > 0 {
			cl = append(cl, "__typename")
		}
		// container kind x condition kind
		c.Doc.Walk(func(s *hx.Sel, depth int) {})
		for _, k := range condKinds(c, exp) {
			cl = append(cl, k)
		}
		return exp.T.AbstractHops > 0 && exp.T.FragMismatch > 0, cl
	}
	one := func(fatal func(string, ...interface{}), c *Case, bind map[string]UBinding) {
		ds, exp, res := checkUniverse(c, "C08")
		nt, cl := classes(c, exp, bind)
		run.Case(hx.Hash(c), nt, cl...)
		run.Sample(func() interface{} {
			m := sampleCase(c, res).(map[string]interface{})
			m["config"] = c.Note
			m["go_types"] = fmt.Sprintf("%v", c.GoType)
			return m
		})
		if hx.Replaying() != "" {
			for _, d := range ds {
				if d.Sig != "" {
					fmt.Printf("REPLAY-KNOWN sig=%s %s\n", d.Sig, hx.Trunc(d.Detail, 400))
				}
			}
		}
		if real := run.Triage(ds); len(real) > 0 {
			fatal("C08 violated (%s): %s", c.Note, run.ReportFailure(c, real))
		}
	}
	if f := hx.Replaying(); f != "" {
		var c Case
		if err := hx.LoadCase(f, &c); err != nil {
			t.Fatalf("load %s: %v", f, err)
		}
		if !c.Universe {
			ds, _, _, _ := checkFull(&c, "C08")
			run.Case(hx.Hash(&c), true, "config=generated-schema-reflection")
			for _, d := range ds {
				if d.Sig != "" {
					fmt.Printf("REPLAY-KNOWN sig=%s %s\n", d.Sig, hx.Trunc(d.Detail, 400))
				}
			}
			if real := run.Triage(ds); len(real) > 0 {
				t.Fatalf("REPLAY-FAIL C08 violated (generated schema): %s", run.ReportFailure(&c, real))
			}
			return
		}
		one(func(f string, a ...interface{}) { t.Fatalf("REPLAY-FAIL "+f, a...) }, &c, nil)
		return
	}
	rapid.Check(t, func(rt *rapid.T) {
		if rapid.IntRange(0, 3).Draw(rt, "generatedSchema") == 0 {
			// second scenario: a generated schema (interfaces whose fields are themselves of abstract
			// types, implementers that narrow them differently) over Go structs made for it, every
			// object type registered; the oracle is the reference executor
			c := genCaseC08Generated(rt)
			ds, exp, res, _ := checkFull(c, "C08")
			cl := []string{"config=generated-schema-reflection"}
			if c.ViaAPI {
				cl = append(cl, "schema-built-with-the-go-api")
			}
			nt := false
			if exp != nil && !exp.Rejected {
				if exp.T.AbstractHops > 0 {
					cl = append(cl, "abstract-field-resolved")
				}
				if exp.T.FragMismatch > 0 {
					cl = append(cl, "fragment-cond-differs-and-applies")
				}
				if exp.T.Typename > 0 {
					cl = append(cl, "__typename")
				}
				if covariantFieldSelected(c) {
					cl = append(cl, "field-declared-with-different-types-by-implementers-selected")
				}
				nt = exp.T.AbstractHops > 0
			}
			run.Case(hx.Hash(c), nt, cl...)
			run.Sample(func() interface{} { return sampleCase(c, res) })
			if real := run.Triage(ds); len(real) > 0 {
				rt.Fatalf("C08 violated (generated schema): %s", run.ReportFailure(c, real))
			}
			return
		}
		cc := genCaseC08(rt)
		for _, cf := range cc.Configs {
			one(rt.Fatalf, applyConfigC08(cc.Base, cf), cc.Bind)
		}
	})
}

func genCaseC08Generated(t *rapid.T) *Case {
	p := Profile{Strategy: "X", MaxDepth: rapid.IntRange(2, 5).Draw(t, "maxDepth"), Abstract: true}
	s := GenSchema(t, p)
	g := GenGraph(t, s, p, nil)
	d, vars := GenDoc(t, s, p, false)
	c := &Case{Schema: s, Graph: g, Doc: d, Vars: vars, Layout: GenLayout(t), ListSeed: rapid.IntRange(0, 1<<20).Draw(t, "listSeed")}
	c.Assign, c.AnyInstalled = GenAssign(t, g, "X")
	c.Warm = GenWarm(t, s, p)
	c.Op = d.Ops[0].Name
	c.ViaAPI = rapid.IntRange(0, 3).Draw(t, "schemaViaGoAPI") == 0
	for _, td := range s.Types {
		if td.Kind == hx.KObject {
			c.Register = append(c.Register, td.Name)
		}
	}
	return c
}

// covariantFieldSelected: the document selects a field that two object types of the schema declare
// with different types.
func covariantFieldSelected(c *Case) bool {
	differs := map[string]bool{}
	seen := map[string]string{}
	for _, td := range c.Schema.Types {
		if td.Kind != hx.KObject {
			continue
		}
		for _, f := range td.Fields {
			ts := f.Type.String()
			if prev, ok := seen[f.Name]; ok && prev != ts {
				differs[f.Name] = true
			}
			seen[f.Name] = ts
		}
	}
	hit := false
	c.Doc.Walk(func(sel *hx.Sel, depth int) {
		if sel.Kind == "field" && differs[sel.Name] {
			hit = true
		}
	})
	return hit
}

// condKinds classifies the fragments that were evaluated: "<container kind>/<condition kind>".
func condKinds(c *Case, exp *hx.Expect) []string {
	s := c.Schema
	set := map[string]bool{}
	var walk func(sels []*hx.Sel, con string)
	seen := map[string]bool{}
	walk = func(sels []*hx.Sel, con string) {
		for _, sel := range sels {
			switch sel.Kind {
			case "field":
				if td := s.Type(con); td != nil {
					if fd := td.Field(sel.Name); fd != nil && len(sel.Sels) > 0 {
						walk(sel.Sels, fd.Type.BaseName())
					}
				}
			case "inline":
				cnd := sel.On
				if cnd != "" && exp.Seen[sel.ID] > 0 {
					set["frag:"+s.KindOf(con)+"-container/"+s.KindOf(cnd)+"-condition"] = true
				}
				if cnd == "" {
					cnd = con
				}
				walk(sel.Sels, cnd)
			case "spread":
				if f := c.Doc.Frag(sel.Name); f != nil {
					if exp.Seen[sel.ID] > 0 {
						set["frag:"+s.KindOf(con)+"-container/"+s.KindOf(f.On)+"-condition"] = true
					}
					if !seen[f.Name] {
						seen[f.Name] = true
						walk(f.Sels, f.On)
					}
				}
			}
		}
	}
	if op := hx.ChooseOp(c.Doc, c.Op); op != nil {
		walk(op.Sels, "Query")
	}
	var out []string
	for k := range set {
		out = append(out, k)
	}
	sort.Strings(out)
	return out
}

func contains(l []string, x string) bool {
	for _, e := range l {
		if e == x {
			return true
		}
	}
	return false
}
