package exec

import (
	"fmt"
	"math"
	"sort"
	"strings"
	"time"

	"pgregory.net/rapid"

	"verifharness/hx"
)

// Profile selects which features a generated case uses.
type Profile struct {
	Abstract bool   // interfaces and unions (served by reflection with registered types)
	LitDirs  bool   // with Dirs: conditions are literals only (selections that have no operation to declare variables in)
	Args     bool   // field arguments (Resolver / root-resolver strategies only)
	Strategy string // R | A | X | RX | RA
	Hostile  bool   // hostile leaf values (C05)
	MaxDepth int    // selection nesting budget
	Dirs     bool   // @skip/@include sprinkled in
	NoMerge  bool   // never select the same composite key twice with different sub-selections
	Mutation bool
}

var fieldNames = []string{"a", "b", "c", "d", "e", "f", "g", "h"}
var enumPool = []string{"RED", "GREEN", "BLUE", "NORTH", "SOUTH"}
var leafScalars = []string{"Int", "Float", "String", "Boolean", "ID", "Int64", "Float64", "Time"}

func pickWrapped(t *rapid.T, base string, label string) *hx.TRef {
	r := hx.Named(base)
	if rapid.IntRange(0, 3).Draw(t, label+"nn0") == 0 {
		r = r.NN()
	}
	switch rapid.IntRange(0, 9).Draw(t, label+"wrap") {
	case 0, 1, 2:
		r = hx.ListOf(r)
		if rapid.IntRange(0, 3).Draw(t, label+"nn1") == 0 {
			r = r.NN()
		}
	case 3:
		r = hx.ListOf(r)
		if rapid.Bool().Draw(t, label+"nn1") {
			r = r.NN()
		}
		r = hx.ListOf(r)
		if rapid.IntRange(0, 3).Draw(t, label+"nn2") == 0 {
			r = r.NN()
		}
	}
	return r
}

var argPool = []*hx.Arg{
	{Name: "s", Type: hx.Named("String")},
	{Name: "b", Type: hx.Named("Boolean")},
	{Name: "i", Type: hx.Named("Int")},
	{Name: "n", Type: hx.Named("String").NN()},
	{Name: "l", Type: hx.ListOf(hx.Named("Int"))},
	{Name: "t", Type: hx.ListOf(hx.Named("String").NN())},
	{Name: "x", Type: hx.Named("Float64")},
	{Name: "k", Type: hx.Named("ID")},
}

// GenSchema draws a well-formed schema.
func GenSchema(t *rapid.T, p Profile) *hx.Schema {
	s := &hx.Schema{}
	nObj := rapid.IntRange(1, 4).Draw(t, "nObj")
	nEnum := rapid.IntRange(0, 2).Draw(t, "nEnum")
	var objNames, enumNames, ifaceNames, unionNames []string
	for i := 0; i < nObj; i++ {
		objNames = append(objNames, fmt.Sprintf("T%d", i))
	}
	for i := 0; i < nEnum; i++ {
		name := fmt.Sprintf("E%d", i)
		enumNames = append(enumNames, name)
		td := &hx.TypeDef{Kind: hx.KEnum, Name: name}
		n := rapid.IntRange(1, 3).Draw(t, "nVal")
		for j := 0; j < n; j++ {
			td.Values = append(td.Values, &hx.EnumValue{Name: enumPool[(i*2+j)%len(enumPool)]})
		}
		s.Types = append(s.Types, td)
	}
	if p.Abstract {
		for i := 0; i < rapid.IntRange(1, 2).Draw(t, "nIface"); i++ {
			ifaceNames = append(ifaceNames, fmt.Sprintf("I%d", i))
		}
		for i := 0; i < rapid.IntRange(1, 2).Draw(t, "nUnion"); i++ {
			unionNames = append(unionNames, fmt.Sprintf("U%d", i))
		}
	}
	composites := append(append(append([]string{}, objNames...), ifaceNames...), unionNames...)
	isComp := func(name string) bool {
		for _, c := range composites {
			if c == name {
				return true
			}
		}
		return false
	}
	genFieldType := func(label string) *hx.TRef {
		k := rapid.IntRange(0, 9).Draw(t, label+"k")
		var base string
		switch {
		case k <= 4:
			base = rapid.SampledFrom(leafScalars).Draw(t, label+"sc")
		case k == 5 && len(enumNames) > 0:
			base = rapid.SampledFrom(enumNames).Draw(t, label+"en")
		case k == 5:
			base = "String"
		default:
			base = rapid.SampledFrom(composites).Draw(t, label+"co")
		}
		return pickWrapped(t, base, label)
	}
	genArgs := func(label string) []*hx.Arg {
		if !p.Args || rapid.IntRange(0, 1).Draw(t, label+"has") != 0 {
			return nil
		}
		n := rapid.IntRange(1, 3).Draw(t, label+"n")
		idx := rapid.Permutation([]int{0, 1, 2, 3, 4, 5, 6, 7}).Draw(t, label+"perm")
		var out []*hx.Arg
		for _, i := range idx[:n] {
			a := *argPool[i]
			out = append(out, &a)
		}
		if len(enumNames) > 0 && rapid.Bool().Draw(t, label+"enumarg") {
			out = append(out, &hx.Arg{Name: "e", Type: hx.Named(enumNames[0])})
		}
		return out
	}
	// interfaces first (objects copy their fields)
	ifaceDefs := map[string]*hx.TypeDef{}
	for _, in := range ifaceNames {
		td := &hx.TypeDef{Kind: hx.KInterface, Name: in}
		n := rapid.IntRange(1, 2).Draw(t, in+"nf")
		for j := 0; j < n; j++ {
			// interface fields use names from the tail of the pool so that they rarely clash
			fname := fieldNames[len(fieldNames)-1-j] + in[1:]
			ft := genFieldType(in + fname)
			if j == 0 && rapid.Bool().Draw(t, in+fname+"abstractTyped") {
				// a field of an abstract type: the position where implementers may differ (one
				// narrows it to a concrete type, another keeps it abstract)
				ft = pickWrapped(t, rapid.SampledFrom(append(append([]string{}, ifaceNames...), unionNames...)).Draw(t, in+fname+"abs"), in+fname+"absw")
			}
			td.Fields = append(td.Fields, &hx.Field{Name: fname, Type: ft})
		}
		ifaceDefs[in] = td
		s.Types = append(s.Types, td)
	}
	mkObject := func(name string, minComposite bool) *hx.TypeDef {
		td := &hx.TypeDef{Kind: hx.KObject, Name: name}
		n := rapid.IntRange(1, 5).Draw(t, name+"nf")
		perm := rapid.Permutation(fieldNames).Draw(t, name+"perm")
		for j := 0; j < n; j++ {
			f := &hx.Field{Name: perm[j], Type: genFieldType(name + perm[j])}
			if !isComp(f.Type.BaseName()) && f.Type.BaseName() == "String" && f.Type.List == nil {
				f.Args = genArgs(name + perm[j] + "a")
			} else if !isComp(f.Type.BaseName()) {
				if rapid.IntRange(0, 3).Draw(t, name+perm[j]+"la") == 0 {
					f.Args = genArgs(name + perm[j] + "a")
				}
			} else if rapid.IntRange(0, 2).Draw(t, name+perm[j]+"ca") == 0 {
				f.Args = genArgs(name + perm[j] + "a")
			}
			td.Fields = append(td.Fields, f)
		}
		if minComposite {
			has := false
			for _, f := range td.Fields {
				if isComp(f.Type.BaseName()) {
					has = true
				}
			}
			if !has {
				base := rapid.SampledFrom(composites).Draw(t, name+"mc")
				td.Fields = append(td.Fields, &hx.Field{Name: "o", Type: pickWrapped(t, base, name+"mcw")})
			}
		}
		for _, in := range ifaceNames {
			if rapid.Bool().Draw(t, name+"impl"+in) {
				td.Interfaces = append(td.Interfaces, in)
				for _, f := range ifaceDefs[in].Fields {
					cp := *f
					cp.Type = f.Type.Clone()
					// allowed covariant variation: T -> T!
					if !cp.Type.NonNull && rapid.IntRange(0, 3).Draw(t, name+in+f.Name+"cov") == 0 {
						cp.Type.NonNull = true
					}
					td.Fields = append(td.Fields, &cp)
				}
			}
		}
		return td
	}
	for _, on := range objNames {
		s.Types = append(s.Types, mkObject(on, false))
	}
	// every interface needs an implementer for data to exist
	for _, in := range ifaceNames {
		if len(s.PossibleTypes(in)) == 0 {
			td := s.Type(objNames[0])
			td.Interfaces = append(td.Interfaces, in)
			for _, f := range ifaceDefs[in].Fields {
				cp := *f
				cp.Type = f.Type.Clone()
				td.Fields = append(td.Fields, &cp)
			}
		}
	}
	for _, un := range unionNames {
		n := rapid.IntRange(1, len(objNames)).Draw(t, un+"nm")
		perm := rapid.Permutation(objNames).Draw(t, un+"perm")
		td := &hx.TypeDef{Kind: hx.KUnion, Name: un, Members: append([]string{}, perm[:n]...)}
		s.Types = append(s.Types, td)
	}
	s.Types = append(s.Types, mkObject("Query", true))
	if p.Mutation && rapid.Bool().Draw(t, "hasMutation") {
		s.Types = append(s.Types, mkObject("Mutation", false))
	}
	// covariant narrowing: an implementer may declare an interface field with an abstract type as
	// one of that type's concrete types (the definitions of one field then differ between implementers)
	for _, td := range s.Types {
		if td.Kind != hx.KObject {
			continue
		}
		for _, in := range td.Interfaces {
			for _, f := range ifaceDefs[in].Fields {
				base := f.Type.BaseName()
				if k := s.KindOf(base); k != hx.KInterface && k != hx.KUnion {
					continue
				}
				poss := s.PossibleTypes(base)
				if len(poss) == 0 || rapid.Bool().Draw(t, td.Name+in+f.Name+"narrow") {
					continue
				}
				of := td.Field(f.Name)
				tr := of.Type
				for tr.List != nil {
					tr = tr.List
				}
				tr.Name = rapid.SampledFrom(poss).Draw(t, td.Name+in+f.Name+"narrowTo")
			}
		}
	}
	return s
}

var timePool = []time.Time{
	time.Date(2020, 1, 2, 3, 4, 5, 0, time.UTC),
	time.Date(1999, 12, 31, 23, 59, 59, 123456789, time.UTC),
	time.Date(2024, 2, 29, 12, 0, 0, 500, time.FixedZone("x", 3600*5+1800)),
	time.Unix(0, 0).UTC(),
}

var stringPool = []string{"", "a", "héllo", "x y", "\"q\"", "line\nbreak", "back\\slash", "😀", "0", "true", "null", "tab\there", "fail:1", "both:2"}

var intKinds = []string{"int32", "int", "int64", "int16", "int8", "uint8", "uint16", "uint32", "uint", "uint64"}

// GenLeaf draws a faithful Go value for a leaf type.
// LeafFn draws a leaf value; hint >= 0 asks for a fixed Go kind (homogeneous lists).
type LeafFn func(t *rapid.T, s *hx.Schema, base, label string, hint int) hx.Val

func GenLeaf(t *rapid.T, s *hx.Schema, base string, label string, hint int) hx.Val {
	if td := s.Type(base); td != nil {
		switch td.Kind {
		case hx.KEnum:
			name := rapid.SampledFrom(td.Values).Draw(t, label+"ev").Name
			sym := hint%2 == 1
			if hint < 0 {
				sym = rapid.Bool().Draw(t, label+"sym")
			}
			if sym {
				return hx.Sym(name)
			}
			return hx.Str(name)
		case hx.KScalar:
			return hx.Str(rapid.SampledFrom(stringPool).Draw(t, label+"cs"))
		}
	}
	switch base {
	case "Int":
		var kind string
		if hint >= 0 {
			kind = []string{"int", "int32", "int64", "int"}[hint%4]
		} else {
			kind = rapid.SampledFrom(intKinds).Draw(t, label+"ik")
		}
		var v int64
		switch kind {
		case "int8":
			v = int64(rapid.Int8().Draw(t, label+"iv"))
		case "uint8":
			v = int64(rapid.Uint8().Draw(t, label+"iv"))
		case "int16":
			v = int64(rapid.Int16().Draw(t, label+"iv"))
		case "uint16":
			v = int64(rapid.Uint16().Draw(t, label+"iv"))
		case "uint", "uint32", "uint64":
			v = rapid.SampledFrom([]int64{0, 1, 7, 65536, math.MaxInt32}).Draw(t, label+"iv")
		default:
			v = rapid.SampledFrom([]int64{0, 1, -1, 42, -7, 65536, math.MaxInt32, math.MinInt32, 1000000}).Draw(t, label+"iv")
		}
		return hx.IntKind(kind, v)
	case "Int64":
		return hx.I64(rapid.SampledFrom([]int64{0, 1, -1, 1 << 40, -(1 << 53) - 1, math.MaxInt64, math.MinInt64, 99}).Draw(t, label+"i64"))
	case "Float":
		f := float64(rapid.IntRange(-4000, 4000).Draw(t, label+"f")) / 8
		f32 := hint%2 == 1
		if hint < 0 {
			f32 = rapid.Bool().Draw(t, label+"f32")
		}
		if f32 {
			return hx.F32(float32(f))
		}
		return hx.F64(f)
	case "Float64":
		return hx.F64(rapid.SampledFrom([]float64{0, 0.1, -2.5, 1e300, 5e-324, 1.0 / 3, 123456789.125, -1e-7}).Draw(t, label+"f64"))
	case "String":
		if rapid.IntRange(0, 11).Draw(t, label+"long") == 0 {
			// a long text with characters that need the six byte escape, at any distance from the start
			// (a writer that works in blocks has its boundaries somewhere)
			n := rapid.IntRange(40, 140).Draw(t, label+"longLen")
			special := rapid.SampledFrom([]string{"\x01", "\x1f\x7f", "\x0b\"", "\u00e9\x02", "\\\x1e"}).Draw(t, label+"longSpecial")
			return hx.Str(strings.Repeat("x", n) + special + strings.Repeat("y", rapid.IntRange(0, 70).Draw(t, label+"longTail")) + special)
		}
		return hx.Str(rapid.SampledFrom(stringPool).Draw(t, label+"s"))
	case "ID":
		return hx.Str(rapid.SampledFrom([]string{"id-1", "7", "", "Z"}).Draw(t, label+"id"))
	case "Boolean":
		return hx.Bool(rapid.Bool().Draw(t, label+"b"))
	case "Time":
		return hx.Time(rapid.SampledFrom(timePool).Draw(t, label+"tm"))
	}
	return hx.Nil()
}

// GenGraph draws a data graph typed by the schema.
func GenGraph(t *rapid.T, s *hx.Schema, p Profile, leaf LeafFn) *hx.Graph {
	if leaf == nil {
		leaf = GenLeaf
	}
	g := &hx.Graph{}
	byType := map[string][]int{}
	add := func(typ string) *hx.Node {
		n := &hx.Node{ID: len(g.Nodes), Type: typ, F: map[string]hx.Val{}}
		g.Nodes = append(g.Nodes, n)
		if typ != "" {
			byType[typ] = append(byType[typ], n.ID)
		}
		return n
	}
	root := add("")
	g.Root = root.ID
	for _, td := range s.Types {
		if td.Kind != hx.KObject {
			continue
		}
		cnt := 1
		if td.Name != "Query" && td.Name != "Mutation" {
			cnt = rapid.IntRange(1, 3).Draw(t, "n"+td.Name)
		}
		for i := 0; i < cnt; i++ {
			add(td.Name)
		}
	}
	root.F["query"] = hx.Ref(byType["Query"][0])
	if ids := byType["Mutation"]; len(ids) > 0 {
		root.F["mutation"] = hx.Ref(ids[0])
	}
	var genVal func(tr *hx.TRef, label string, hint int) hx.Val
	genVal = func(tr *hx.TRef, label string, hint int) hx.Val {
		if !tr.NonNull && rapid.IntRange(0, 6).Draw(t, label+"null") == 0 {
			return hx.Nil()
		}
		if tr.List != nil {
			if p.Hostile && p.Strategy == "R" && rapid.IntRange(0, 11).Draw(t, label+"notAList") == 0 {
				// a Resolver handing over something that is no list at all for a list typed field
				// (only Resolver objects can: reflection fields are typed, a root resolver decides itself what a list is)
				return rapid.SampledFrom([]hx.Val{hx.Str("not a list"), hx.I64(5), hx.Bool(true), hx.F64(1.5), hx.Map(hx.KV{Key: "a", V: hx.I64(1)})}).Draw(t, label+"notAListV")
			}
			n := rapid.IntRange(0, 3).Draw(t, label+"len")
			vs := make([]hx.Val, 0, n)
			if hint < 0 && rapid.Bool().Draw(t, label+"homog") {
				hint = rapid.IntRange(0, 3).Draw(t, label+"hint")
			}
			for i := 0; i < n; i++ {
				vs = append(vs, genVal(tr.List, fmt.Sprintf("%s_%d", label, i), hint))
			}
			return hx.List(vs...)
		}
		if s.IsComposite(tr.Name) {
			poss := s.PossibleTypes(tr.Name)
			var cands []int
			for _, pt := range poss {
				cands = append(cands, byType[pt]...)
			}
			if len(cands) == 0 {
				return hx.Nil()
			}
			return hx.Ref(rapid.SampledFrom(cands).Draw(t, label+"ref"))
		}
		return leaf(t, s, tr.Name, label, hint)
	}
	for _, n := range g.Nodes {
		if n.Type == "" {
			continue
		}
		for _, f := range s.Type(n.Type).Fields {
			n.F[f.Name] = genVal(f.Type, fmt.Sprintf("n%d%s", n.ID, f.Name), -1)
		}
	}
	GenHidden(t, s, g)
	return g
}

// GenHidden gives some of the empty lists of the graph hidden members (see hx.Node.Hidden).
func GenHidden(t *rapid.T, s *hx.Schema, g *hx.Graph) {
	byType := map[string][]int{}
	for _, n := range g.Nodes {
		if n.Type != "" {
			byType[n.Type] = append(byType[n.Type], n.ID)
		}
	}
	for _, n := range g.Nodes {
		if n.Type == "" || s.Type(n.Type) == nil {
			continue
		}
		for _, f := range s.Type(n.Type).Fields {
			v, ok := n.F[f.Name]
			if !ok || v.K != "list" || len(v.L) != 0 || f.Type.List == nil || f.Type.List.List != nil {
				continue
			}
			lab := fmt.Sprintf("hidden%d%s", n.ID, f.Name)
			if rapid.IntRange(0, 2).Draw(t, lab) != 0 {
				continue
			}
			var members []hx.Val
			base := f.Type.BaseName()
			switch {
			case s.IsComposite(base):
				var cands []int
				for _, pt := range s.PossibleTypes(base) {
					cands = append(cands, byType[pt]...)
				}
				if len(cands) == 0 {
					continue
				}
				for i := 0; i < rapid.IntRange(1, 2).Draw(t, lab+"n"); i++ {
					members = append(members, hx.Ref(rapid.SampledFrom(cands).Draw(t, fmt.Sprintf("%s_%d", lab, i))))
				}
			case base == "String":
				members = []hx.Val{hx.Str("hidden")}
			case base == "Int":
				members = []hx.Val{hx.I32(7), hx.I32(8)}
			case base == "Boolean":
				members = []hx.Val{hx.Bool(true)}
			case base == "Float":
				members = []hx.Val{hx.F64(1.5)}
			default:
				continue
			}
			if n.Hidden == nil {
				n.Hidden = map[string]hx.Val{}
			}
			n.Hidden[f.Name] = hx.List(members...)
		}
	}
}

// docGen carries the state of document generation.
type docGen struct {
	t     *rapid.T
	s     *hx.Schema
	p     Profile
	doc   *hx.Doc
	vars  map[string]*hx.VarDef
	vals  map[string]hx.Val
	nArg  int
	nFrag int
	nVar  int
	// composite keys already selected per scope (to control merging)
	budget   int
	building map[string]bool
	// dataKeyUsed: some selection of the document has the response key "data" already
	dataKeyUsed bool
}

func (g *docGen) newVar(tr *hx.TRef, val hx.Val, withDefault bool) string {
	g.nVar++
	name := fmt.Sprintf("v%d", g.nVar)
	vd := &hx.VarDef{Name: name, Type: tr}
	if withDefault {
		d := val
		vd.Default = &d
	} else {
		g.vals[name] = val
	}
	g.vars[name] = vd
	return name
}

// genArgLiteral draws a faithful literal for an input type.
func (g *docGen) genArgLiteral(tr *hx.TRef, label string, allowNull bool) hx.Val {
	t := g.t
	if allowNull && !tr.NonNull && rapid.IntRange(0, 7).Draw(t, label+"null") == 0 {
		return hx.Nil()
	}
	if tr.List != nil {
		n := rapid.IntRange(0, 3).Draw(t, label+"n")
		vs := make([]hx.Val, 0, n)
		for i := 0; i < n; i++ {
			vs = append(vs, g.genArgLiteral(tr.List, fmt.Sprintf("%s_%d", label, i), true))
		}
		return hx.List(vs...)
	}
	if td := g.s.Type(tr.Name); td != nil && td.Kind == hx.KEnum {
		return hx.Sym(rapid.SampledFrom(td.Values).Draw(t, label+"ev").Name)
	}
	switch tr.Name {
	case "Int":
		return hx.I64(rapid.SampledFrom([]int64{0, 1, -1, 42, math.MaxInt32, math.MinInt32}).Draw(t, label+"i"))
	case "Float64":
		return hx.F64(rapid.SampledFrom([]float64{0.5, -2.25, 1e10 + 0.5, 3.75}).Draw(t, label+"f"))
	case "Boolean":
		return hx.Bool(rapid.Bool().Draw(t, label+"b"))
	case "ID":
		return hx.Str(rapid.SampledFrom([]string{"id-9", "x"}).Draw(t, label+"id"))
	default:
		return hx.Str(rapid.SampledFrom(stringPool).Draw(t, label+"s"))
	}
}

func (g *docGen) genArgs(fd *hx.Field, label string) []hx.KV {
	t := g.t
	var out []hx.KV
	order := make([]int, len(fd.Args))
	for i := range order {
		order[i] = i
	}
	if len(order) > 1 {
		order = rapid.Permutation(order).Draw(t, label+"order")
	}
	for _, i := range order {
		a := fd.Args[i]
		if !a.Type.NonNull && rapid.IntRange(0, 2).Draw(t, label+a.Name+"omit") == 0 {
			continue
		}
		lit := g.genArgLiteral(a.Type, label+a.Name, !a.Type.NonNull)
		switch rapid.IntRange(0, 4).Draw(t, label+a.Name+"via") {
		case 0: // via variable value
			if !lit.IsNil() {
				out = append(out, hx.KV{Key: a.Name, V: hx.VarV(g.newVar(a.Type.Clone(), jsonish(lit), false))})
				continue
			}
		case 1: // via variable default
			if !lit.IsNil() {
				out = append(out, hx.KV{Key: a.Name, V: hx.VarV(g.newVar(a.Type.Clone(), lit, true))})
				continue
			}
		}
		out = append(out, hx.KV{Key: a.Name, V: lit})
	}
	return out
}

// jsonish converts a literal into the shape a JSON-decoded variable has
// (enum symbols stay symbols: ggql only accepts Symbol for enums unless Relaxed).
func jsonish(v hx.Val) hx.Val {
	switch v.K {
	case "list":
		out := make([]hx.Val, len(v.L))
		for i, e := range v.L {
			out[i] = jsonish(e)
		}
		return hx.List(out...)
	}
	return v
}

func (g *docGen) genDirs(label string) []hx.DirUse {
	if !g.p.Dirs || rapid.IntRange(0, 5).Draw(g.t, label+"hasdir") != 0 {
		return nil
	}
	mk := func(name string, lab string) hx.DirUse {
		b := rapid.Bool().Draw(g.t, lab+"v")
		var v hx.Val
		src := rapid.IntRange(0, 2).Draw(g.t, lab+"src")
		if g.p.LitDirs {
			src = 0
		}
		switch src {
		case 0:
			v = hx.Bool(b)
		case 1:
			v = hx.VarV(g.newVar(hx.Named("Boolean").NN(), hx.Bool(b), false))
		default:
			v = hx.VarV(g.newVar(hx.Named("Boolean"), hx.Bool(b), true))
		}
		return hx.DirUse{Name: name, Args: []hx.KV{{Key: "if", V: v}}}
	}
	switch rapid.IntRange(0, 3).Draw(g.t, label+"which") {
	case 0:
		return []hx.DirUse{mk("skip", label+"s")}
	case 1:
		return []hx.DirUse{mk("include", label+"i")}
	case 2:
		return []hx.DirUse{mk("skip", label+"s"), mk("include", label+"i")}
	default:
		return []hx.DirUse{mk("include", label+"i"), mk("skip", label+"s")}
	}
}

// fieldsOf returns the fields selectable on a composite type (objects and interfaces).
func (g *docGen) fieldsOf(tn string) []*hx.Field {
	if td := g.s.Type(tn); td != nil {
		return td.Fields
	}
	return nil
}

// fragConds lists the type conditions that make sense beneath a container type.
func (g *docGen) fragConds(tn string) []string {
	conds := []string{tn}
	switch g.s.KindOf(tn) {
	case hx.KObject:
		td := g.s.Type(tn)
		conds = append(conds, td.Interfaces...)
		for _, u := range g.s.Types {
			if u.Kind == hx.KUnion && u.HasMember(tn) {
				conds = append(conds, u.Name)
			}
		}
	case hx.KInterface, hx.KUnion:
		conds = append(conds, g.s.PossibleTypes(tn)...)
		// abstract types overlapping through a common object
		for _, o := range g.s.PossibleTypes(tn) {
			conds = append(conds, g.s.Type(o).Interfaces...)
			for _, u := range g.s.Types {
				if u.Kind == hx.KUnion && u.HasMember(o) {
					conds = append(conds, u.Name)
				}
			}
		}
	}
	if g.p.Abstract {
		// an unrelated object type: contributes nothing (kept rare)
		for _, td := range g.s.Types {
			if td.Kind == hx.KObject && td.Name != tn && td.Name != "Query" && td.Name != "Mutation" {
				conds = append(conds, td.Name)
				break
			}
		}
		// ... and, beneath an object, an interface it does not implement / a union it is no member of
		if td := g.s.Type(tn); td != nil && td.Kind == hx.KObject {
			have := map[string]bool{}
			for _, c := range conds {
				have[c] = true
			}
			for _, other := range g.s.Types {
				if (other.Kind == hx.KInterface || other.Kind == hx.KUnion) && !have[other.Name] {
					conds = append(conds, other.Name)
					break
				}
			}
		}
	}
	return conds
}

func (g *docGen) genSels(tn string, depth int, label string) []*hx.Sel {
	t := g.t
	n := rapid.IntRange(1, 4).Draw(t, label+"n")
	var out []*hx.Sel
	fields := g.fieldsOf(tn)
	for i := 0; i < n; i++ {
		lab := fmt.Sprintf("%s_%d", label, i)
		g.budget--
		kind := rapid.IntRange(0, 15).Draw(t, lab+"kind")
		switch {
		case kind == 0 || len(fields) == 0 && kind < 12:
			s := &hx.Sel{Kind: "field", Name: "__typename"}
			if rapid.IntRange(0, 3).Draw(t, lab+"ta") == 0 {
				s.Alias = "tn"
			}
			out = append(out, s)
		case kind <= 11:
			fd := rapid.SampledFrom(fields).Draw(t, lab+"f")
			if depth > 0 && g.budget > 0 && !g.s.IsComposite(fd.Type.BaseName()) && rapid.Bool().Draw(t, lab+"preferComposite") {
				// bias towards nesting
				for _, f := range fields {
					if g.s.IsComposite(f.Type.BaseName()) {
						fd = f
						break
					}
				}
			}
			comp := g.s.IsComposite(fd.Type.BaseName())
			if comp && (depth <= 0 || g.budget <= 0) {
				// no room for a sub-selection: fall back to a leaf or __typename
				var leaves []*hx.Field
				for _, f := range fields {
					if !g.s.IsComposite(f.Type.BaseName()) {
						leaves = append(leaves, f)
					}
				}
				if len(leaves) == 0 {
					out = append(out, &hx.Sel{Kind: "field", Name: "__typename"})
					continue
				}
				fd = rapid.SampledFrom(leaves).Draw(t, lab+"leaf")
				comp = false
			}
			s := &hx.Sel{Kind: "field", Name: fd.Name}
			if len(fd.Args) > 0 {
				s.Args = g.genArgs(fd, lab+"a")
			}
			if len(s.Args) > 0 {
				g.nArg++
				s.Alias = fmt.Sprintf("k%d", g.nArg)
			} else if rapid.IntRange(0, 3).Draw(t, lab+"alias") == 0 {
				s.Alias = rapid.SampledFrom([]string{"x_", "y_"}).Draw(t, lab+"ap") + fd.Name
				if !g.dataKeyUsed && rapid.IntRange(0, 7).Draw(t, lab+"dataKey") == 0 {
					// (once per document) a response key that is also the name of an envelope member
					s.Alias, g.dataKeyUsed = "data", true
				}
			}
			s.Dirs = g.genDirs(lab + "d")
			if comp {
				s.Sels = g.genSels(fd.Type.BaseName(), depth-1, lab+"s")
			}
			out = append(out, s)
		case kind <= 13: // inline fragment
			conds := append([]string{""}, g.fragConds(tn)...)
			on := rapid.SampledFrom(conds).Draw(t, lab+"on")
			target := on
			if target == "" {
				target = tn
			}
			s := &hx.Sel{Kind: "inline", On: on, Dirs: g.genDirs(lab + "d")}
			s.Sels = g.genSels(target, depth, lab+"i")
			out = append(out, s)
		default: // fragment spread
			conds := g.fragConds(tn)
			on := rapid.SampledFrom(conds).Draw(t, lab+"fon")
			var reuse []*hx.Frag
			for _, f := range g.doc.Frags {
				if f.On == on && !g.building[f.Name] {
					reuse = append(reuse, f)
				}
			}
			var fr *hx.Frag
			if len(reuse) > 0 && rapid.Bool().Draw(t, lab+"reuse") {
				fr = rapid.SampledFrom(reuse).Draw(t, lab+"rf")
			} else if g.nFrag < 4 {
				// A new fragment; its body may only spread completed fragments or newer ones,
				// which keeps the spread graph acyclic.
				g.nFrag++
				fr = &hx.Frag{Name: fmt.Sprintf("F%d", g.nFrag), On: on}
				g.doc.Frags = append(g.doc.Frags, fr)
				g.building[fr.Name] = true
				fr.Sels = g.genSels(on, minInt(depth, 2), lab+"fr")
				delete(g.building, fr.Name)
			} else if len(reuse) > 0 {
				fr = reuse[0]
			} else {
				out = append(out, &hx.Sel{Kind: "field", Name: "__typename"})
				continue
			}
			out = append(out, &hx.Sel{Kind: "spread", Name: fr.Name, Dirs: g.genDirs(lab + "d")})
		}
	}
	return out
}

func minInt(a, b int) int {
	if a < b {
		return a
	}
	return b
}

// usedVars collects variables used by selections (following spreads).
func usedVars(d *hx.Doc, sels []*hx.Sel, seen map[string]bool, out map[string]bool) {
	var fromVal func(v hx.Val)
	fromVal = func(v hx.Val) {
		switch v.K {
		case "var":
			out[v.S] = true
		case "list":
			for _, e := range v.L {
				fromVal(e)
			}
		case "map":
			for _, kv := range v.M {
				fromVal(kv.V)
			}
		}
	}
	for _, s := range sels {
		for _, kv := range s.Args {
			fromVal(kv.V)
		}
		for _, du := range s.Dirs {
			for _, kv := range du.Args {
				fromVal(kv.V)
			}
		}
		if s.Kind == "spread" && !seen[s.Name] {
			seen[s.Name] = true
			if f := d.Frag(s.Name); f != nil {
				usedVars(d, f.Sels, seen, out)
			}
		}
		usedVars(d, s.Sels, seen, out)
	}
}

// GenDoc draws a document valid against the schema, plus variable values.
func GenDoc(t *rapid.T, s *hx.Schema, p Profile, multiOp bool) (*hx.Doc, []hx.KV) {
	return genDocPrefixed(t, s, p, multiOp, "")
}

func genDocPrefixed(t *rapid.T, s *hx.Schema, p Profile, multiOp bool, pre string) (*hx.Doc, []hx.KV) {
	g := &docGen{t: t, s: s, p: p, doc: &hx.Doc{}, vars: map[string]*hx.VarDef{}, vals: map[string]hx.Val{}, budget: 40, building: map[string]bool{}}
	nOps := 1
	if multiOp {
		nOps = rapid.IntRange(1, 3).Draw(t, pre+"nOps")
	}
	depth := p.MaxDepth
	if depth == 0 {
		depth = 4
	}
	for i := 0; i < nOps; i++ {
		op := &hx.Op{Type: "query"}
		if s.Type("Mutation") != nil && rapid.IntRange(0, 3).Draw(t, fmt.Sprintf("%sop%dmut", pre, i)) == 0 {
			op.Type = "mutation"
		}
		if nOps > 1 || rapid.Bool().Draw(t, pre+"named") {
			op.Name = fmt.Sprintf("Op%d", i)
		} else {
			op.Anon = rapid.Bool().Draw(t, pre+"anon")
		}
		rootType := "Query"
		if op.Type == "mutation" {
			rootType = "Mutation"
		}
		op.Sels = g.genSels(rootType, depth, fmt.Sprintf("%sop%d", pre, i))
		g.doc.Ops = append(g.doc.Ops, op)
	}
	// declare exactly the variables each operation uses
	names := make([]string, 0, len(g.vars))
	for n := range g.vars {
		names = append(names, n)
	}
	sort.Strings(names)
	for _, op := range g.doc.Ops {
		used := map[string]bool{}
		usedVars(g.doc, op.Sels, map[string]bool{}, used)
		for _, n := range names {
			if used[n] {
				op.Vars = append(op.Vars, g.vars[n])
			}
		}
		if len(op.Vars) > 0 {
			op.Anon = false
		}
	}
	// definition order: operations and fragments interleaved
	var order []string
	for i := range g.doc.Ops {
		order = append(order, fmt.Sprintf("o%d", i))
	}
	for i := range g.doc.Frags {
		order = append(order, fmt.Sprintf("f%d", i))
	}
	if len(order) > 1 {
		order = rapid.Permutation(order).Draw(t, pre+"order")
	}
	g.doc.Order = order
	g.doc.Number()
	var vals []hx.KV
	for _, n := range names {
		if v, ok := g.vals[n]; ok {
			vals = append(vals, hx.KV{Key: n, V: v})
		}
	}
	return g.doc, vals
}

// GenLayout draws a layout.
func GenLayout(t *rapid.T) hx.Layout {
	return hx.Layout{
		Mode:     rapid.SampledFrom([]string{"single", "pretty", "pretty", "argline"}).Draw(t, "layMode"),
		CRLF:     rapid.IntRange(0, 4).Draw(t, "layCRLF") == 0,
		Comments: rapid.IntRange(0, 3).Draw(t, "layComments") == 0,
		Commas:   rapid.IntRange(0, 2).Draw(t, "layCommas") == 0,
		BOM:      rapid.IntRange(0, 9).Draw(t, "layBOM") == 0,
		Indent:   rapid.SampledFrom([]int{1, 2, 4}).Draw(t, "layIndent"),
	}
}

// GenAssign draws a strategy assignment for every node.
func GenAssign(t *rapid.T, g *hx.Graph, strategy string) (assign []string, anyInstalled bool) {
	assign = make([]string, len(g.Nodes))
	for i := range g.Nodes {
		switch strategy {
		case "R":
			assign[i] = "R"
		case "A":
			anyInstalled = true
			assign[i] = rapid.SampledFrom([]string{"A", "A", "AX"}).Draw(t, fmt.Sprintf("as%d", i))
		case "X":
			assign[i] = "X"
		case "RX":
			assign[i] = rapid.SampledFrom([]string{"R", "X"}).Draw(t, fmt.Sprintf("as%d", i))
		case "RA":
			anyInstalled = true
			assign[i] = rapid.SampledFrom([]string{"R", "A", "AX"}).Draw(t, fmt.Sprintf("as%d", i))
		}
	}
	return
}

// GenSelection draws a selection set on a type (valid by construction), without variables.
func GenSelection(t *rapid.T, s *hx.Schema, typeName string, p Profile, label string) ([]*hx.Sel, []*hx.Frag) {
	g := &docGen{t: t, s: s, p: p, doc: &hx.Doc{}, vars: map[string]*hx.VarDef{}, vals: map[string]hx.Val{}, budget: 25, building: map[string]bool{}}
	depth := p.MaxDepth
	if depth == 0 {
		depth = 3
	}
	sels := g.genSels(typeName, depth, label)
	return sels, g.doc.Frags
}

// GenDocLabeled is GenDoc with a label prefix so that several documents can be drawn in one rapid case.
// GenWarm draws 0-2 earlier requests (valid documents over the same schema) for a case.
func GenWarm(t *rapid.T, s *hx.Schema, p Profile) []WarmReq {
	if rapid.IntRange(0, 3).Draw(t, "warm") != 0 {
		return nil
	}
	var out []WarmReq
	for i := 0; i < rapid.IntRange(1, 2).Draw(t, "nWarm"); i++ {
		d, vars := genDocPrefixed(t, s, p, false, fmt.Sprintf("warm%d", i))
		out = append(out, WarmReq{Text: d.Render(hx.Layout{Mode: "single"}).Text, Op: d.Ops[0].Name, Vars: vars})
	}
	return out
}

func GenDocLabeled(t *rapid.T, s *hx.Schema, p Profile, multiOp bool, prefix string) (*hx.Doc, []hx.KV) {
	return genDocPrefixed(t, s, p, multiOp, prefix)
}

// AltVars draws other good values for the variables the operations of the document declare (those
// with a value or a default alike): what an earlier request may have given the same parsed document.
func AltVars(t *rapid.T, s *hx.Schema, d *hx.Doc, label string) []hx.KV {
	g := &docGen{t: t, s: s, doc: d}
	seen := map[string]bool{}
	var out []hx.KV
	for _, o := range d.Ops {
		for _, vd := range o.Vars {
			if seen[vd.Name] {
				continue
			}
			seen[vd.Name] = true
			if rapid.IntRange(0, 3).Draw(t, label+vd.Name+"skip") == 0 {
				continue
			}
			if v := g.genArgLiteral(vd.Type, label+vd.Name, false); !v.IsNil() {
				out = append(out, hx.KV{Key: vd.Name, V: jsonish(v)})
			}
		}
	}
	return out
}
