// Package exec hosts the model-based differential checks that execute
// generated requests against generated schemas and data (C01, C02, C04-C11).
package exec

import (
	"errors"
	"fmt"
	"hash/fnv"
	"reflect"
	"sort"
	"strings"
	"sync"
	"sync/atomic"
	"time"

	"github.com/uhn/ggql/pkg/ggql"

	"verifharness/hx"
)

// Case is one executable case: schema, data, request and how the data is served.
type Case struct {
	Schema *hx.Schema `json:"schema"`
	Graph  *hx.Graph  `json:"graph"`
	Doc    *hx.Doc    `json:"doc"`
	Layout hx.Layout  `json:"layout"`
	Op     string     `json:"op"`
	Vars   []hx.KV    `json:"vars,omitempty"`
	// Assign gives each node its representation: R (ggql.Resolver), A (opaque handle for the
	// root resolver), X (struct found by reflection), AX (struct with poison fields served by the
	// root resolver).
	Assign       []string   `json:"assign"`
	AnyInstalled bool       `json:"any"`
	ListSeed     int        `json:"list_seed"`
	Register     []string   `json:"register,omitempty"` // object types bound with RegisterType
	Faults       []hx.Fault `json:"faults,omitempty"`
	Echo         bool       `json:"echo,omitempty"`
	// CrossedNames (universe): an object type is named like the Go type bound to another object type
	CrossedNames bool `json:"crossed_names,omitempty"`
	// VeeIsMap (universe): the by-value type is the named map Mee, all of whose members are methods
	VeeIsMap bool `json:"vee_is_map,omitempty"`
	// LateJoin: memberships the schema gets only after the root has been used - "T implements I" or
	// "U = T": the first load leaves them out, the request is resolved once (response not looked at),
	// then the extension arrives. (If the schema without them is refused, they are there from the start.)
	LateJoin []string `json:"late_join,omitempty"`
	// Scribble: every resolver overwrites the arguments it was given once it has its value
	Scribble bool `json:"scribble,omitempty"`
	// Universe: reflection nodes are instances of the fixed Go types of universe.go instead of
	// reflect.StructOf types; GoType maps a GraphQL object type to its Go type ("Alpha", ...);
	// Rename maps "Type.field" to the Go field/method it is registered to (RegisterField).
	Universe bool              `json:"universe,omitempty"`
	GoType   map[string]string `json:"go_type,omitempty"`
	Rename   map[string]string `json:"rename,omitempty"`
	// LateRegister (universe only): the request is resolved once before any RegisterType /
	// RegisterField call is made (a warm-up whose response is not looked at) - the bindings the
	// application registers arrive after the root has already been used.
	LateRegister bool `json:"late_register,omitempty"`
	// Decoy (universe): before the root of the case exists, other roots of the same process have
	// bound the same Go types - with RegisterField mappings that cross the members over (str <->
	// extra, greet <-> htmlid). Nothing a root is told about its bindings concerns another root.
	Decoy bool `json:"decoy,omitempty"`
	// KeepParsed (with LateRegister): the request is parsed once; that parsed request is what is
	// resolved before the registrations and again after them
	KeepParsed bool `json:"keep_parsed,omitempty"`
	// DepthAfter (non-zero): ggql.MaxResolveDepth is set to this once the root exists (an application
	// that sets up a second root with another limit, say); far above what any generated request needs
	DepthAfter int `json:"depth_after,omitempty"`
	// TightDepth (>0): ggql.MaxResolveDepth is set (once the root exists) to the number of object and
	// list levels the deepest leaf of this request needs plus TightDepth-1: the request fits, with
	// nothing to spare
	TightDepth int `json:"tight_depth,omitempty"`
	// ViaAPI: the schema is given to the root through the Go API (hx.BuildAPI, interfaces without
	// their Root member) instead of as SDL text
	ViaAPI bool `json:"via_api,omitempty"`
	// RefusedSDL: a document the root refuses (in validation) is given to it after everything else was
	// loaded - a hot reload with a mistake in it; the root keeps serving
	RefusedSDL string `json:"refused_sdl,omitempty"`
	// ExtraSDL is loaded after the schema (extensions the harness' schema model does not describe,
	// e.g. a field no Go member answers to).
	ExtraSDL string `json:"extra_sdl,omitempty"`
	// Warm: other (valid) requests over the same schema and data that the root has answered before
	// the request of the case arrives; their responses are not looked at. A root serves many
	// requests, whatever it caches has to stay right for the next one.
	Warm []WarmReq `json:"warm,omitempty"`
	// PrimeVars: the request is parsed once, resolved with these variables first (response not
	// looked at) and then - the same parsed Executable - with Vars: what the second resolution
	// delivers must not depend on the first.
	PrimeVars []hx.KV `json:"prime_vars,omitempty"`
	// Text overrides the rendered document (replay of shrunk / hand-written requests).
	Text string `json:"text,omitempty"`
	Note string `json:"note,omitempty"`
}

func (c *Case) VarMap() map[string]hx.Val {
	m := map[string]hx.Val{}
	for _, kv := range c.Vars {
		m[kv.Key] = kv.V
	}
	return m
}

func (c *Case) GoVars() map[string]interface{} {
	if len(c.Vars) == 0 {
		return nil
	}
	m := map[string]interface{}{}
	for _, kv := range c.Vars {
		m[kv.Key] = kv.V.Go()
	}
	return m
}

// WarmReq is one earlier request.
type WarmReq struct {
	Text string  `json:"text"`
	Op   string  `json:"op"`
	Vars []hx.KV `json:"vars,omitempty"`
}

// Call is one logged resolver invocation.
type Call struct {
	Strategy string
	Node     int
	Field    string
	Key      string
	Args     string
	HasArgs  map[string]interface{}
}

// World is a ggql root wired to fixtures serving the case's graph.
type World struct {
	kept            *ggql.Executable // the parsed request (KeepParsed)
	lateExts        []string         // extensions still to be applied (LateJoin)
	LateJoined      bool             // ... they were applied, after a first use of the root
	hiddenHandedOut int64
	C               *Case
	Root            *ggql.Root

	mu      sync.Mutex
	calls   []Call
	ncalls  map[string]int // invocations per (node, field) since the last ResetCalls
	faults  map[string]hx.Fault
	structs map[int]reflect.Value // node id -> *struct
	byPtr   map[interface{}]int   // struct pointer -> node id (AX nodes)
	stypes  map[string]reflect.Type
	rnodes  map[int]*RNode
	anodes  map[int]*ANode

	// Hook, when set, may answer a resolver invocation instead of the graph (used by the
	// subscription fixtures to return ggql.NewSubscription).
	Hook func(node int, field *ggql.Field, args map[string]interface{}) (interface{}, error, bool)
}

// NodeValue returns the Go representation of a node (what a resolver would hand to ggql).
func (w *World) NodeValue(id int) interface{} { return w.nodeValue(id) }

// RNode serves a node through the ggql.Resolver interface.
type RNode struct {
	w  *World
	id int
}

// ANode is an opaque handle only the root (any) resolver understands.
type ANode struct {
	id int
}

// RList is a ggql.ListResolver.
type RList struct{ items []interface{} }

func (l *RList) Len() int              { return len(l.items) }
func (l *RList) Nth(i int) interface{} { return l.items[i] }

// AList is an opaque list only the root resolver's Len/Nth understand.
type AList struct {
	items   []interface{}
	failAt  int  // -1 = never
	failVal bool // the failing access hands the member over together with the error
}

var errInjected = errors.New("injected failure")

func fkey(node int, field string) string { return fmt.Sprintf("%d/%s", node, field) }

func (w *World) log(c Call) int {
	w.mu.Lock()
	w.calls = append(w.calls, c)
	if w.ncalls == nil {
		w.ncalls = map[string]int{}
	}
	w.ncalls[fkey(c.Node, c.Field)]++
	n := w.ncalls[fkey(c.Node, c.Field)]
	w.mu.Unlock()
	return n
}

// Calls returns a copy of the call log.
func (w *World) Calls() []Call {
	w.mu.Lock()
	defer w.mu.Unlock()
	return append([]Call(nil), w.calls...)
}

func (w *World) ResetCalls() {
	w.mu.Lock()
	w.calls = nil
	w.ncalls = nil
	w.mu.Unlock()
}

var sentinelExtErr = &ggql.Error{Base: errInjected, Extensions: map[string]interface{}{"code": "E44"}}

func faultErr(f hx.Fault) error {
	switch f.Kind {
	case "group":
		var es ggql.Errors
		for i := 0; i < f.N; i++ {
			if f.Same {
				es = append(es, errors.New("injected group member"))
			} else {
				es = append(es, fmt.Errorf("injected group member %d", i))
			}
		}
		return es
	case "wgroup":
		// a group that is wrapped, some members wrapped as well
		var es ggql.Errors
		for i := 0; i < f.N; i++ {
			var e error = fmt.Errorf("injected group member %d", i)
			if i%2 == 1 {
				e = fmt.Errorf("member context: %w", e)
			}
			es = append(es, e)
		}
		return fmt.Errorf("while resolving: %w", es)
	case "lext":
		// an error that was located in some other text (the resolver parsed a value of its own, say):
		// its line and column mean nothing in the request
		e := &ggql.Error{Base: errInjected, Line: 1000 + f.N, Column: 900 + f.N, Extensions: map[string]interface{}{"code": "E43"}}
		if f.N%2 == 1 {
			return fmt.Errorf("resolver context: %w", e)
		}
		return e
	case "oext":
		// extensions holding values of the application's own Go types: an error, a named string, a
		// value that prints itself - with text that needs escaping
		return &ggql.Error{Base: errInjected, Extensions: map[string]interface{}{
			"cause": errors.New("disk \"sda1\" said: C:\\temp\\new\tlog"),
			"label": extLabel("bell\x07 del\x7f unit\x1f nl\n"),
			"where": extPlace{"r\u00e9gion \U000e0001 \"east\""},
			// (times an application uses for "never" and "always")
			"until": time.Date(10000, 1, 1, 0, 0, 0, 0, time.UTC), "since": time.Date(-1, 12, 31, 23, 59, 59, 0, time.UTC), "at": time.Date(2021, 3, 4, 5, 6, 7, 8, time.FixedZone("", 7200)),
		}}
	case "ext":
		if f.Same {
			// one error value of the application's (a package level sentinel carrying extensions),
			// returned by every failing resolver
			return sentinelExtErr
		}
		return &ggql.Error{Base: errInjected, Extensions: map[string]interface{}{"code": "E42", "a \"quoted\" key": []interface{}{int64(1), "x"}}}
	}
	if f.Msg != "" {
		return errors.New(f.Msg)
	}
	return errInjected
}

// extLabel, extPlace: values of application types that end up in error extensions.
type extLabel string

type extPlace struct{ name string }

func (p extPlace) String() string { return "place(" + p.name + ")" }

// scribble overwrites an argument value in place, all the way down: members added to and removed
// from every object, every list member replaced.
func scribble(v interface{}) {
	switch tv := v.(type) {
	case map[string]interface{}:
		if tv == nil {
			return
		}
		for k, e := range tv {
			scribble(e)
			if len(k)%2 == 0 {
				delete(tv, k)
			}
		}
		tv["zz~"] = "scribbled"
	case []interface{}:
		for i, e := range tv {
			scribble(e)
			tv[i] = "scribbled"
		}
	}
}

func (w *World) resolveNode(strategy string, id int, field *ggql.Field, args map[string]interface{}) (interface{}, error) {
	key := field.Alias
	if key == "" {
		key = field.Name
	}
	nth := w.log(Call{Strategy: strategy, Node: id, Field: field.Name, Key: key, Args: hx.CanonArgs(args), HasArgs: args})
	if w.C.Scribble {
		// a resolver that treats what it was given as its own: once done it writes all over it
		defer scribble(args)
	}
	valErr := false
	if f, bad := w.faults[fkey(id, field.Name)]; bad && f.Kind != "nth" && (f.Call == 0 || f.Call == nth) {
		if f.Kind != "valerr" {
			return nil, faultErr(f)
		}
		valErr = true // the value is handed over as usual, together with an error
	}
	if valErr {
		v, _ := w.resolveNodeValue(strategy, id, field, args)
		return v, errInjected
	}
	return w.resolveNodeValue(strategy, id, field, args)
}

func (w *World) resolveNodeValue(strategy string, id int, field *ggql.Field, args map[string]interface{}) (interface{}, error) {
	if w.Hook != nil {
		if v, err, ok := w.Hook(id, field, args); ok {
			return v, err
		}
	}
	n := w.C.Graph.Nodes[id]
	v, ok := n.F[field.Name]
	if w.C.Universe && n.Type != "" {
		if fd := w.C.Schema.Type(n.Type).Field(field.Name); fd != nil {
			if cv, isComputed := UniverseCompute(n, fd, args); isComputed {
				v, ok = cv, true
			}
			switch UniverseFault(n, fd, args) {
			case "err":
				return nil, errRisky
			case "valerr":
				return v.Go(), errRisky
			}
		}
	}
	if !ok {
		return nil, nil
	}
	var ft *hx.TRef
	if n.Type == "" {
		ft = hx.Named(w.C.Schema.RootType(field.Name))
	} else if fd := w.C.Schema.Type(n.Type).Field(field.Name); fd != nil {
		ft = fd.Type
		if w.C.Echo && len(fd.Args) > 0 && v.K == "string" && ft.List == nil && ft.Name == "String" {
			return v.S + "|" + hx.CanonArgs(args), nil
		}
	}
	if hv, has := n.Hidden[field.Name]; has && strategy == "A" && w.C.AnyInstalled && v.K == "list" && len(v.L) == 0 {
		// the data layer's own slice, members and all: whether it is shown is the root resolver's
		// business (anyRes.Len says 0 for it), not reflection's
		atomic.AddInt64(&w.hiddenHandedOut, 1)
		countRep("go-slice-with-members-the-root-resolver-hides")
		out := make([]anyElem, len(hv.L))
		for i, e := range hv.L {
			out[i] = w.project(e, ft.List, fmt.Sprintf("%s.hidden%d", fkey(id, field.Name), i))
		}
		return out, nil
	}
	return w.project(v, ft, fkey(id, field.Name)), nil
}

// HiddenHandedOut: how many times a list with hidden members was handed to ggql.
func (w *World) HiddenHandedOut() int { return int(atomic.LoadInt64(&w.hiddenHandedOut)) }

// Resolve implements ggql.Resolver.
func (n *RNode) Resolve(field *ggql.Field, args map[string]interface{}) (interface{}, error) {
	return n.w.resolveNode("R", n.id, field, args)
}

// anyRes is the root (any) resolver.
type anyRes struct{ w *World }

func (a *anyRes) Resolve(obj interface{}, field *ggql.Field, args map[string]interface{}) (interface{}, error) {
	switch t := obj.(type) {
	case *ANode:
		return a.w.resolveNode("A", t.id, field, args)
	case *RNode:
		a.w.log(Call{Strategy: "A-on-R", Node: t.id, Field: field.Name})
		return "POISON:any-resolver-asked-for-a-Resolver-object", nil
	}
	if id, ok := a.w.byPtr[obj]; ok {
		return a.w.resolveNode("A", id, field, args)
	}
	return nil, fmt.Errorf("any resolver: unknown object %T", obj)
}

func (a *anyRes) Len(list interface{}) int {
	if l, ok := list.(*AList); ok {
		return len(l.items)
	}
	return 0
}

func (a *anyRes) Nth(list interface{}, i int) (interface{}, error) {
	if l, ok := list.(*AList); ok {
		if i < 0 || i >= len(l.items) {
			return nil, fmt.Errorf("index %d out of bounds", i)
		}
		if l.failAt == i {
			if l.failVal {
				return l.items[i], errInjected
			}
			return nil, errInjected
		}
		return l.items[i], nil
	}
	return nil, fmt.Errorf("not a list: %T", list)
}

func hashOf(seed int, salt string) uint32 {
	h := fnv.New32a()
	_, _ = h.Write([]byte(fmt.Sprintf("%d|%s", seed, salt)))
	return h.Sum32()
}

func (w *World) nodeValue(id int) interface{} {
	switch w.C.Assign[id] {
	case "R":
		return w.rnodes[id]
	case "A":
		return w.anodes[id]
	default: // X, AX, UR
		if w.isVee(id) {
			return w.veeValue(id)
		}
		return w.structs[id].Interface()
	}
}

// typedSlice returns a typed slice for a homogeneous, null-free leaf list (nil if not applicable).
func typedSlice(vals []hx.Val) interface{} {
	if len(vals) == 0 {
		return nil
	}
	k := vals[0].K
	for _, v := range vals {
		if v.K != k {
			return nil
		}
	}
	switch k {
	case "string":
		out := make([]string, len(vals))
		for i, v := range vals {
			out[i] = v.S
		}
		return out
	case "int":
		out := make([]int, len(vals))
		for i, v := range vals {
			out[i] = v.Go().(int)
		}
		return out
	case "int64":
		out := make([]int64, len(vals))
		for i, v := range vals {
			out[i] = v.Go().(int64)
		}
		return out
	case "bool":
		out := make([]bool, len(vals))
		for i, v := range vals {
			out[i] = v.Go().(bool)
		}
		return out
	case "float32":
		out := make([]float32, len(vals))
		for i, v := range vals {
			out[i] = v.Go().(float32)
		}
		return out
	case "float64":
		out := make([]float64, len(vals))
		for i, v := range vals {
			out[i] = v.Go().(float64)
		}
		return out
	case "time":
		out := make([]time.Time, len(vals))
		for i, v := range vals {
			out[i] = v.Go().(time.Time)
		}
		return out
	}
	return nil
}

// ListRepName names the representation chosen for a list (for class counters).
var listRepMu sync.Mutex
var ListRepCount = map[string]int{}

func countRep(name string) {
	listRepMu.Lock()
	ListRepCount[name]++
	listRepMu.Unlock()
}

// project turns a graph value into the Go value a resolver hands to ggql.
func (w *World) project(v hx.Val, t *hx.TRef, salt string) interface{} {
	switch v.K {
	case "", "nil":
		// an absent object is, as often as not, a nil pointer of the Go type the data layer uses:
		// a typed nil (in a field, a list member, whatever a list accessor hands out)
		if t != nil && t.List == nil && !w.C.Universe && w.C.Schema.IsComposite(t.Name) {
			switch hashOf(w.C.ListSeed, "nil"+salt) % 4 {
			case 0:
				countRep("typed-nil-object")
				if w.C.AnyInstalled {
					return (*ANode)(nil)
				}
				return (*RNode)(nil)
			case 1:
				if poss := w.C.Schema.PossibleTypes(t.Name); len(poss) > 0 {
					if _, isX := w.stypes[poss[0]]; isX {
						countRep("typed-nil-object")
						return reflect.Zero(reflect.PtrTo(w.structType(w.C.Schema.Type(poss[0])))).Interface()
					}
				}
			}
		}
		return nil
	case "ref":
		return w.nodeValue(v.RefID())
	case "list":
		var et *hx.TRef
		if t != nil {
			et = t.List
		}
		items := make([]interface{}, len(v.L))
		for i, e := range v.L {
			items[i] = w.project(e, et, fmt.Sprintf("%s.%d", salt, i))
		}
		h := hashOf(w.C.ListSeed, salt)
		failAt, failVal := -1, false
		if f, ok := w.faults[strings.SplitN(salt, ".", 2)[0]]; ok && f.Kind == "nth" && !strings.Contains(salt, ".") {
			failAt, failVal = f.Index, f.N == 1
		}
		if failAt >= 0 {
			countRep("AList")
			return &AList{items: items, failAt: failAt, failVal: failVal}
		}
		var variants []string
		variants = append(variants, "iface", "iface", "ListResolver")
		if ts := typedSlice(v.L); ts != nil {
			variants = append(variants, "typed", "typed")
		}
		if w.C.AnyInstalled {
			variants = append(variants, "AList")
		} else {
			variants = append(variants, "reflect-slice", "reflect-array")
		}
		switch pick := variants[int(h)%len(variants)]; pick {
		case "ListResolver":
			countRep(pick)
			return &RList{items: items}
		case "typed":
			ts := typedSlice(v.L)
			countRep(fmt.Sprintf("%T", ts))
			return ts
		case "AList":
			countRep(pick)
			return &AList{items: items, failAt: -1}
		case "reflect-slice":
			countRep(pick)
			// a slice type that is none of ggql's fast paths: [][1]interface{} would change shape, so use
			// a named element type: []hx-any
			out := make([]anyElem, len(items))
			for i, it := range items {
				out[i] = it
			}
			return out
		case "reflect-array":
			countRep(pick)
			at := reflect.ArrayOf(len(items), ifaceType)
			av := reflect.New(at).Elem()
			for i, it := range items {
				if it != nil {
					av.Index(i).Set(reflect.ValueOf(it))
				}
			}
			return av.Interface()
		default:
			countRep("[]interface{}")
			return items
		}
	}
	return v.Go()
}

// anyElem makes []anyElem a slice type distinct from []interface{} (reflect path).
type anyElem interface{}

var ifaceType = reflect.TypeOf((*interface{})(nil)).Elem()

func goFieldName(gql string) string {
	return strings.ToUpper(gql[:1]) + gql[1:]
}

func (w *World) structType(td *hx.TypeDef) reflect.Type {
	if t, ok := w.stypes[td.Name]; ok {
		return t
	}
	var fs []reflect.StructField
	for _, f := range td.Fields {
		fs = append(fs, reflect.StructField{Name: goFieldName(f.Name), Type: ifaceType})
	}
	// distinguishing marker so that structurally equal GraphQL types get distinct Go types
	fs = append(fs, reflect.StructField{Name: "Zz" + td.Name, Type: reflect.TypeOf(struct{}{})})
	t := reflect.StructOf(fs)
	w.stypes[td.Name] = t
	return t
}

var rootStructType = reflect.StructOf([]reflect.StructField{
	{Name: "Query", Type: ifaceType}, {Name: "Mutation", Type: ifaceType}, {Name: "Subscription", Type: ifaceType},
})

func poisonFor(t *hx.TRef) interface{} {
	if t.List != nil {
		return []interface{}{"POISON:reflection-read-a-root-resolver-object"}
	}
	return "POISON:reflection-read-a-root-resolver-object"
}

// NewWorld builds the root and the fixtures for a case.
func NewWorld(c *Case) (*World, error) {
	ggql.Sort = true
	ggql.Relaxed = false
	ggql.MaxResolveDepth = 100
	if c.Universe {
		cc := c
		universeSlotOf = func(tn, f string) string { return slotFor(cc, tn, f) }
	}
	w := &World{C: c, faults: map[string]hx.Fault{}, structs: map[int]reflect.Value{}, byPtr: map[interface{}]int{},
		stypes: map[string]reflect.Type{}, rnodes: map[int]*RNode{}, anodes: map[int]*ANode{}}
	for _, f := range c.Faults {
		w.faults[fkey(f.Node, f.Field)] = f
	}
	g := c.Graph
	if c.Universe {
		// the by-value type has no Resolver twin and no identity an AnyResolver could recognise it by
		for _, n := range g.Nodes {
			if n.Type != "" && strings.TrimPrefix(strings.TrimPrefix(c.GoType[n.Type], "R"), "M") == "Vee" {
				c.GoType[n.Type] = "Vee"
				switch c.Assign[n.ID] {
				case "UR", "UM":
					// (with a root resolver installed an unknown Go value would be its business, not reflection's)
					c.Assign[n.ID] = "X"
					if c.AnyInstalled {
						c.Assign[n.ID] = "R"
					}
				case "AX":
					c.Assign[n.ID] = "A"
				}
			}
		}
	}
	// phase 1: allocate
	for _, n := range g.Nodes {
		switch c.Assign[n.ID] {
		case "R":
			w.rnodes[n.ID] = &RNode{w: w, id: n.ID}
		case "A":
			w.anodes[n.ID] = &ANode{id: n.ID}
		case "UR":
			w.structs[n.ID] = w.newUniverseResolver(c.GoType[n.Type], n.ID)
		case "UM":
			w.structs[n.ID] = w.newUniverseMap(c.GoType[n.Type], n.ID)
		case "X", "AX":
			if c.Universe && n.Type != "" {
				pv := newUniverseValue(c.GoType[n.Type], c.Assign[n.ID] == "RX")
				w.structs[n.ID] = pv
				if c.Assign[n.ID] == "AX" {
					w.byPtr[pv.Interface()] = n.ID
				}
				continue
			}
			var st reflect.Type
			if n.Type == "" {
				st = rootStructType
			} else {
				st = w.structType(c.Schema.Type(n.Type))
			}
			pv := reflect.New(st)
			w.structs[n.ID] = pv
			if c.Assign[n.ID] == "AX" {
				w.byPtr[pv.Interface()] = n.ID
			}
		default:
			return nil, fmt.Errorf("bad assignment %q", c.Assign[n.ID])
		}
	}
	// phase 2: fill structs
	for _, n := range g.Nodes {
		pv, ok := w.structs[n.ID]
		if !ok || c.Assign[n.ID] == "UR" || c.Assign[n.ID] == "UM" {
			continue
		}
		sv := pv.Elem()
		if n.Type == "" {
			for name, v := range n.F {
				if x := w.project(v, nil, fkey(n.ID, name)); x != nil {
					sv.FieldByName(goFieldName(name)).Set(reflect.ValueOf(x))
				}
			}
			continue
		}
		td := c.Schema.Type(n.Type)
		if c.Universe {
			w.fillUniverse(n, td, pv, c.Assign[n.ID] == "AX")
			continue
		}
		for _, f := range td.Fields {
			var x interface{}
			if c.Assign[n.ID] == "AX" {
				x = poisonFor(f.Type)
			} else {
				x = w.project(n.F[f.Name], f.Type, fkey(n.ID, f.Name))
			}
			if x != nil {
				sv.FieldByName(goFieldName(f.Name)).Set(reflect.ValueOf(x))
			}
		}
	}
	if c.Universe && c.Decoy {
		seen := map[string]bool{}
		for _, gn := range c.GoType {
			gn = strings.TrimPrefix(strings.TrimPrefix(gn, "R"), "M")
			if seen[gn] || gn == "UQuery" || gn == "Vee" || gn == "" {
				continue
			}
			seen[gn] = true
			if _, ok := universeTypes[gn]; ok {
				decoyRoot(gn)
			}
		}
	}
	load := func(sch *hx.Schema) error {
		w.Root = ggql.NewRoot(w.nodeValue(g.Root))
		if c.AnyInstalled {
			w.Root.AnyResolver = &anyRes{w: w}
		}
		built := false
		if c.ViaAPI {
			err, usable := hx.BuildAPI(w.Root, sch, hx.BuildOpts{NoInterfaceRoot: true})
			if usable && err != nil {
				return fmt.Errorf("schema built with the Go API rejected: %w\n%s", err, sch.SDL(hx.SDLOpts{}))
			}
			built = usable
		}
		if !built {
			if err := w.Root.ParseString(sch.SDL(hx.SDLOpts{})); err != nil {
				return fmt.Errorf("schema rejected: %w\n%s", err, sch.SDL(hx.SDLOpts{}))
			}
		}
		return nil
	}
	if len(c.LateJoin) > 0 {
		first, exts := withoutJoins(c.Schema, c.LateJoin)
		if err := load(first); err == nil {
			w.lateExts = exts
		}
	}
	if w.lateExts == nil {
		if err := load(c.Schema); err != nil {
			return nil, err
		}
	}
	if c.DepthAfter > 0 {
		ggql.MaxResolveDepth = c.DepthAfter
	}
	if c.ExtraSDL != "" {
		if err := w.Root.ParseString(c.ExtraSDL); err != nil {
			return nil, fmt.Errorf("extra SDL rejected: %w\n%s", err, c.ExtraSDL)
		}
	}
	if c.RefusedSDL != "" {
		if err := w.Root.ParseString(c.RefusedSDL); err == nil {
			return nil, fmt.Errorf("the document meant to be refused was accepted:\n%s", c.RefusedSDL)
		}
	}
	if c.Universe {
		if c.LateRegister {
			if c.KeepParsed && len(c.PrimeVars) == 0 {
				text := c.Text
				if text == "" {
					text = c.Doc.Render(c.Layout).Text
				}
				func() {
					defer func() { _ = recover() }()
					if exe, err := w.Root.ParseExecutableString(text); err == nil {
						w.kept = exe
						_, _ = w.Root.ResolveExecutable(exe, c.Op, c.GoVars())
					}
				}()
			} else {
				w.Resolve()
			}
			w.ResetCalls()
		}
		for _, tn := range c.Register {
			sample := newUniverseValue(c.GoType[tn], false)
			if c.GoType[tn] == "Vee" {
				sample = sample.Elem() // bound by value
				if c.VeeIsMap {
					sample = reflect.ValueOf(Mee{})
				}
			}
			if err := w.Root.RegisterType(sample.Interface(), tn); err != nil {
				return nil, fmt.Errorf("RegisterType(%s): %w", tn, err)
			}
		}
		keys := make([]string, 0, len(c.Rename))
		for k := range c.Rename {
			keys = append(keys, k)
		}
		sort.Strings(keys)
		for _, k := range keys {
			parts := strings.SplitN(k, ".", 2)
			if t, ok := universeTypes[c.GoType[parts[0]]]; ok && t.Kind() == reflect.Map {
				continue // a map that resolves for itself has no members to name
			}
			goName := c.Rename[k]
			var order []string
			if i := strings.IndexByte(goName, '('); i >= 0 {
				order = strings.Split(strings.TrimSuffix(goName[i+1:], ")"), ",")
				goName = goName[:i]
			}
			if err := w.Root.RegisterField(parts[0], parts[1], goName, order...); err != nil {
				return nil, fmt.Errorf("RegisterField(%s, %s): %w", k, goName, err)
			}
		}
		return w, w.lateJoin()
	}
	for _, tn := range c.Register {
		for _, n := range g.Nodes {
			if n.Type == tn {
				if _, ok := w.structs[n.ID]; ok {
					if err := w.Root.RegisterType(w.structs[n.ID].Interface(), tn); err != nil {
						return nil, fmt.Errorf("RegisterType(%s): %w", tn, err)
					}
					break
				}
			}
		}
	}
	return w, w.lateJoin()
}

// withoutJoins returns the schema minus the listed memberships and the extensions that add them.
func withoutJoins(s *hx.Schema, joins []string) (*hx.Schema, []string) {
	cp := *s
	cp.Types = append([]*hx.TypeDef{}, s.Types...)
	drop := func(l []string, x string) []string {
		var out []string
		for _, e := range l {
			if e != x {
				out = append(out, e)
			}
		}
		return out
	}
	var exts []string
	for _, j := range joins {
		if parts := strings.SplitN(j, " implements ", 2); len(parts) == 2 {
			for i, td := range cp.Types {
				if td.Name == parts[0] && td.Kind == hx.KObject {
					c2 := *td
					c2.Interfaces = drop(td.Interfaces, parts[1])
					cp.Types[i] = &c2
					exts = append(exts, "extend type "+parts[0]+" implements "+parts[1]+" {}")
				}
			}
		} else if parts := strings.SplitN(j, " = ", 2); len(parts) == 2 {
			for i, td := range cp.Types {
				if td.Name == parts[0] && td.Kind == hx.KUnion && len(td.Members) > 1 {
					c2 := *td
					c2.Members = drop(td.Members, parts[1])
					cp.Types[i] = &c2
					exts = append(exts, "extend union "+parts[0]+" = "+parts[1])
				}
			}
		}
	}
	return &cp, exts
}

// LateJoinedWorlds counts the worlds whose memberships arrived after a first use.
var LateJoinedWorlds int64

// lateJoin: the root is used once with the schema as first loaded, then the memberships arrive.
func (w *World) lateJoin() error {
	if len(w.lateExts) == 0 {
		return nil
	}
	func() {
		defer func() { _ = recover() }()
		text := w.C.Text
		if text == "" {
			text = w.C.Doc.Render(w.C.Layout).Text
		}
		_ = w.Root.ResolveString(text, w.C.Op, w.C.GoVars())
	}()
	w.ResetCalls()
	for _, ext := range w.lateExts {
		if err := w.Root.ParseString(ext); err != nil {
			return fmt.Errorf("late membership %q refused: %w", ext, err)
		}
	}
	w.LateJoined = true
	atomic.AddInt64(&LateJoinedWorlds, 1)
	return nil
}

// Resolve runs the case's request.
func (w *World) Resolve() (res map[string]interface{}, text string, panicked interface{}) {
	text = w.C.Text
	if text == "" {
		text = w.C.Doc.Render(w.C.Layout).Text
	}
	defer func() {
		if r := recover(); r != nil {
			panicked = r
		}
	}()
	if len(w.C.Warm) > 0 {
		for _, wr := range w.C.Warm {
			_ = w.Root.ResolveString(wr.Text, wr.Op, kvGo(wr.Vars))
		}
		w.ResetCalls()
	}
	if len(w.C.PrimeVars) > 0 {
		res = ResolveReused(w.Root, text, w.C.Op, kvGo(w.C.PrimeVars), w.C.GoVars(), w.ResetCalls)
		return
	}
	if w.kept != nil {
		var err error
		if res, err = w.Root.ResolveExecutable(w.kept, w.C.Op, w.C.GoVars()); res == nil {
			res = map[string]interface{}{"data": nil}
		}
		if err != nil {
			res["errors"] = ggql.FormErrorsResult(err)
		}
		return
	}
	res = w.Root.ResolveString(text, w.C.Op, w.C.GoVars())
	return
}

func kvGo(kvs []hx.KV) map[string]interface{} {
	m := map[string]interface{}{}
	for _, kv := range kvs {
		m[kv.Key] = kv.V.Go()
	}
	return m
}

// ResolveReused does what Root.ResolveString does, except that the parsed request is resolved
// with the prime variables before it is resolved with the real ones.
func ResolveReused(root *ggql.Root, text, op string, prime, vars map[string]interface{}, between func()) map[string]interface{} {
	var result map[string]interface{}
	exe, err := root.ParseExecutableString(text)
	if err == nil {
		_, _ = root.ResolveExecutable(exe, op, prime)
		if between != nil {
			between()
		}
		if result, err = root.ResolveExecutable(exe, op, vars); result == nil {
			result = map[string]interface{}{"data": nil}
		}
	}
	if err != nil {
		errors := ggql.FormErrorsResult(err)
		if result == nil {
			result = map[string]interface{}{"errors": errors}
		}
		result["errors"] = errors
	}
	return result
}

// FlipBooleans returns prime variables that give every Boolean variable of the operations the
// opposite of the value it has in the case (supplied or default).
func FlipBooleans(c *Case) []hx.KV {
	have := c.VarMap()
	seen := map[string]bool{}
	var out []hx.KV
	for _, o := range c.Doc.Ops {
		for _, vd := range o.Vars {
			if seen[vd.Name] || vd.Type.List != nil || vd.Type.Name != "Boolean" {
				continue
			}
			seen[vd.Name] = true
			cur := false
			if v, ok := have[vd.Name]; ok && v.K == "bool" {
				cur = v.S == "true"
			} else if vd.Default != nil && vd.Default.K == "bool" {
				cur = vd.Default.S == "true"
			}
			out = append(out, hx.KV{Key: vd.Name, V: hx.Bool(!cur)})
		}
	}
	return out
}

type decoySchema struct {
	Query interface{}
}

// decoyRoot builds and uses a root of its own that binds a universe Go type with crossed-over
// RegisterField mappings.
func decoyRoot(goName string) {
	defer func() { _ = recover() }()
	sample := newUniverseValue(goName, false)
	r := ggql.NewRoot(&decoySchema{Query: sample.Interface()})
	if err := r.ParseString("type Query { str: String extra: String greet: String htmlid: String }"); err != nil {
		return
	}
	_ = r.RegisterType(sample.Interface(), "Query")
	_ = r.RegisterField("Query", "str", "Extra")
	_ = r.RegisterField("Query", "extra", "Str")
	_ = r.RegisterField("Query", "greet", "HTMLID")
	_ = r.RegisterField("Query", "htmlid", "Greet")
	_ = r.ResolveString("{str extra greet htmlid}", "", nil)
}
