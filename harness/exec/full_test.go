package exec

import (
	"fmt"
	"regexp"
	"sort"
	"strings"

	"verifharness/hx"
)

var fragElem = regexp.MustCompile(`^fragment at \d+:\d+$`)

func lookup(data interface{}, path []interface{}) (interface{}, bool) {
	cur := data
	for _, p := range path {
		switch k := p.(type) {
		case string:
			m, ok := cur.(map[string]interface{})
			if !ok {
				return nil, false
			}
			cur, ok = m[k]
			if !ok {
				return nil, false
			}
		case int:
			l, ok := cur.([]interface{})
			if !ok || k < 0 || k >= len(l) {
				return nil, false
			}
			cur = l[k]
		}
	}
	return cur, true
}

// actualErrors extracts the error paths of a response. stripped reports whether
// "fragment at L:C" elements had to be removed.
func actualErrors(res map[string]interface{}) (paths [][]interface{}, stripped int, malformed string) {
	paths, elems, malformed := actualErrorsElems(res)
	return paths, len(elems), malformed
}

// namedSpreadAt: does "fragment at L:C" name the place of a spread of a NAMED fragment in the text
// (the recorded deviation) - and not that of an inline fragment?
func namedSpreadAt(text, elem string) bool {
	var line, col int
	if _, err := fmt.Sscanf(elem, "fragment at %d:%d", &line, &col); err != nil {
		return false
	}
	// (ggql records the place where its reader stood once the spread was read: look backwards)
	off := 0
	for l := 1; l < line; l++ {
		i := strings.IndexByte(text[off:], '\n')
		if i < 0 {
			return false
		}
		off += i + 1
	}
	off += col - 1
	if off > len(text) {
		off = len(text)
	}
	isName := func(b byte) bool {
		return b == '_' || b >= '0' && b <= '9' || b >= 'a' && b <= 'z' || b >= 'A' && b <= 'Z'
	}
	isBlank := func(b byte) bool { return b == ' ' || b == '\t' || b == '\n' || b == '\r' || b == ',' }
	i := off
	// the reader may stand on the first byte after the name, or one further
	for i > 0 && !isName(text[i-1]) && isBlankOrOne(text, i, off, isBlank) {
		i--
	}
	end := i
	for i > 0 && isName(text[i-1]) {
		i--
	}
	name := text[i:end]
	for i > 0 && isBlank(text[i-1]) {
		i--
	}
	return name != "" && name != "on" && i >= 3 && text[i-3:i] == "..."
}

// isBlankOrOne: going backwards, blanks may be skipped - and a single other byte directly at the
// recorded place (the reader stands one byte past what it looked at).
func isBlankOrOne(text string, i, off int, isBlank func(byte) bool) bool {
	return isBlank(text[i-1]) || i == off
}

func actualErrorsElems(res map[string]interface{}) (paths [][]interface{}, stripped []string, malformed string) {
	raw, has := res["errors"]
	if !has {
		return
	}
	list, ok := raw.([]interface{})
	if !ok {
		return nil, nil, fmt.Sprintf("errors is a %T", raw)
	}
	for _, e := range list {
		em, ok := e.(map[string]interface{})
		if !ok {
			return nil, nil, fmt.Sprintf("error entry is a %T", e)
		}
		var path []interface{}
		if p, has := em["path"]; has {
			pl, ok := p.([]interface{})
			if !ok {
				return nil, nil, fmt.Sprintf("path is a %T", p)
			}
			for _, el := range pl {
				switch t := el.(type) {
				case string:
					if fragElem.MatchString(t) {
						stripped = append(stripped, t)
						continue
					}
					path = append(path, t)
				case int:
					path = append(path, t)
				default:
					path = append(path, fmt.Sprintf("<%T:%v>", el, el))
				}
			}
		}
		paths = append(paths, path)
	}
	return
}

// checkFull compares data (shape-checking borderline leaves) and the multiset of error paths.
func checkFull(c *Case, prop string) (ds []hx.Discrepancy, exp *hx.Expect, res map[string]interface{}, w *World) {
	return checkFullWith(c, prop, nil)
}

// checkFullWith is checkFull with a definition of computed fields for the reference.
func checkFullWith(c *Case, prop string, compute func(n *hx.Node, fd *hx.Field, args map[string]interface{}) (hx.Val, bool)) (ds []hx.Discrepancy, exp *hx.Expect, res map[string]interface{}, w *World) {
	add := func(kind, sig, format string, args ...interface{}) {
		ds = append(ds, hx.Discrepancy{Kind: kind, Sig: sig, Detail: fmt.Sprintf(format, args...)})
	}
	x := &hx.Exec{S: c.Schema, G: c.Graph, D: c.Doc, Faults: c.Faults, Echo: c.Echo, Compute: compute}
	if c.Universe {
		x.ComputeFault = UniverseFault
	}
	exp = x.Run(c.Op, c.VarMap())
	if c.TightDepth > 0 && !exp.Rejected {
		c.DepthAfter = exp.T.MaxLevels + depthSlack + c.TightDepth - 1
	}
	var err error
	w, err = NewWorld(c)
	if err != nil {
		add("setup", "", "%v", err)
		return
	}
	var text string
	var pan interface{}
	res, text, pan = w.Resolve()
	ctx := func() string {
		return fmt.Sprintf("\nrequest: %s\nop=%q vars=%v strategy=%s faults=%+v\nexpected data: %s\nactual data:   %s\nexpected errors: %v\nactual errors: %s",
			text, c.Op, c.GoVars(), stratName(c), c.Faults, hx.Show(stripMarks(exp.Data)), hx.Show(hx.Norm(res["data"])), errPaths(exp.Errors), hx.Show(hx.Norm(res["errors"])))
	}
	if pan != nil {
		add("panic", "", "ResolveString panicked: %v%s", pan, ctx())
		return
	}
	if exp.Rejected {
		return
	}
	act := hx.Norm(res["data"])
	// enum leaks (open finding: Enum.CoerceOut accepts undeclared names, pinned by the repository's tests)
	leaked := map[string]bool{}
	for p, info := range exp.BadEnum {
		if av, ok := lookup(act, info.Path); ok && av == info.Value {
			leaked["data."+p] = true
			add("enum-leak", "KF-C05-enum-undeclared", "undeclared enum value %q leaked into the response at %s without an error%s", info.Value, p, ctx())
		}
	}
	for _, e := range exp.Errors {
		if e.Kind == "nthval" {
			av, _ := lookup(act, e.Path)
			add("list-accessor-value-with-error", "KF-C05-list-accessor-value-with-error", "the root resolver's Nth returned a member together with an error; the response holds %s at %s%s", hx.Show(av), hx.PathString(e.Path), ctx())
		}
	}
	if d := diffSkipping(exp.Data, act, "data", leaked); d != "" {
		add("data", "", "%s%s", d, ctx())
	}
	// borderline leaves: shape only
	rawData := res["data"]
	// Expected number of error entries per path: one per failing invocation. The same response
	// key can be selected several times; ggql resolves every occurrence, GraphQL proper would
	// resolve the merged field once - the property counts failures, so anything from one entry
	// to one per occurrence is accepted for such a path.
	needMax := map[string]int{}
	perSel := map[string]map[int]int{} // entries expected per path and per selection (occurrence of the response key)
	for _, e := range exp.Errors {
		ps := hx.PathString(e.Path)
		if leaked["data."+ps] {
			continue
		}
		needMax[ps]++
		if perSel[ps] == nil {
			perSel[ps] = map[int]int{}
		}
		perSel[ps][e.Sel]++
	}
	for ps, kind := range exp.Borderline {
		path := exp.BorderPath[ps]
		av, ok := lookup(rawData, path)
		if !ok {
			add("data", "", "borderline leaf %s missing%s", ps, ctx())
			continue
		}
		nv := hx.Norm(av)
		var enum *hx.TypeDef
		k := kind
		if td := c.Schema.Type(kind); td != nil {
			if td.Kind == hx.KEnum {
				enum = td
			} else {
				k = "String"
			}
		}
		if !hx.ShapeOK(k, enum, nv) {
			add("shape", "", "leaf %s of type %s has value %s of the wrong shape%s", ps, kind, hx.Show(nv), ctx())
		}
		if nv == nil {
			needMax[ps] += exp.BorderN[ps] // null for a non-null resolver value needs its error
		}
	}
	paths, strippedElems, malformed := actualErrorsElems(res)
	stripped := len(strippedElems)
	if malformed != "" {
		add("errors-malformed", "", "%s%s", malformed, ctx())
		return
	}
	got := map[string]int{}
	for _, p := range paths {
		got[hx.PathString(p)]++
	}
	var keys []string
	for k := range needMax {
		keys = append(keys, k)
	}
	for k := range got {
		if _, ok := needMax[k]; !ok {
			keys = append(keys, k)
		}
	}
	sort.Strings(keys)
	for _, k := range keys {
		discarded := false
		for _, pre := range exp.Nulled {
			if strings.HasPrefix(k, pre) {
				discarded = true
			}
		}
		if discarded {
			continue
		}
		// at least what one occurrence of the response key yields (all the members of a group), at
		// most the sum over all occurrences
		min := 0
		for _, n := range perSel[k] {
			if min == 0 || n < min {
				min = n
			}
		}
		if min == 0 && needMax[k] > 0 {
			min = 1 // (a coercion failure of a borderline leaf)
		}
		if got[k] < min || got[k] > needMax[k] {
			add("error-paths", "", "path %q: expected %d..%d error entries, got %d%s", k, min, needMax[k], got[k], ctx())
			break
		}
	}
	for _, el := range strippedElems {
		if !namedSpreadAt(text, el) {
			add("fragment-path-element-inline", "", "error path carries %q although no named fragment is spread there: the path does not address the position%s", el, ctx())
			return
		}
	}
	if stripped > 0 {
		add("fragment-path-element", "KF-C06-fragment-path", "error path carries %d extra \"fragment at L:C\" element(s) for a failure inside a named fragment%s", stripped, ctx())
	}
	return
}

func errPaths(es []hx.ExpErr) []string {
	var out []string
	for _, e := range es {
		out = append(out, hx.PathString(e.Path)+"("+e.Kind+")")
	}
	return out
}

// diffSkipping is diff that ignores the listed paths.
func diffSkipping(exp, act interface{}, path string, skip map[string]bool) string {
	if skip[path] {
		return ""
	}
	switch te := exp.(type) {
	case hx.BorderlineMark:
		return ""
	case map[string]interface{}:
		ta, ok := act.(map[string]interface{})
		if !ok {
			return fmt.Sprintf("%s: expected object %s, got %s", path, hx.Show(stripMarks(exp)), hx.Show(act))
		}
		keys := make([]string, 0, len(te))
		for k := range te {
			keys = append(keys, k)
		}
		sort.Strings(keys)
		for _, k := range keys {
			av, has := ta[k]
			if !has {
				return fmt.Sprintf("%s: key %q missing (expected %s)", path, k, hx.Show(stripMarks(te[k])))
			}
			if d := diffSkipping(te[k], av, path+"."+k, skip); d != "" {
				return d
			}
		}
		for k := range ta {
			if _, has := te[k]; !has {
				return fmt.Sprintf("%s: unexpected key %q = %s", path, k, hx.Show(ta[k]))
			}
		}
		return ""
	case []interface{}:
		ta, ok := act.([]interface{})
		if !ok {
			return fmt.Sprintf("%s: expected list %s, got %s", path, hx.Show(stripMarks(exp)), hx.Show(act))
		}
		if len(ta) != len(te) {
			return fmt.Sprintf("%s: expected %d elements, got %d: %s", path, len(te), len(ta), hx.Show(act))
		}
		for i := range te {
			if d := diffSkipping(te[i], ta[i], fmt.Sprintf("%s.%d", path, i), skip); d != "" {
				return d
			}
		}
		return ""
	}
	if !hx.Equal(exp, act) {
		return fmt.Sprintf("%s: expected %s, got %s", path, hx.Show(exp), hx.Show(act))
	}
	return ""
}
