package exec

import (
	"fmt"
	"strings"

	"pgregory.net/rapid"

	"verifharness/hx"
)

// slot descriptions: GraphQL type of each slot ("C" = the composite type chosen for the owner)
type slotDef struct {
	name string
	typ  string // scalar name, "E", "C", "[C]", "[[C]]", "[String]", ...
	args []*hx.Arg
	goNm string
}

func strArg() *hx.Arg  { return &hx.Arg{Name: "s", Type: hx.Named("String").NN()} }
func boolArg() *hx.Arg { return &hx.Arg{Name: "b", Type: hx.Named("Boolean").NN()} }

var slotDefs = []slotDef{
	{"str", "String", nil, "Str"}, {"num", "Int", nil, "Num"}, {"i32", "Int", nil, "I32"}, {"i64", "Int64", nil, "I64"},
	{"f32", "Float", nil, "F32"}, {"f64", "Float64", nil, "F64"}, {"flag", "Boolean", nil, "Flag"}, {"when", "Time", nil, "When"},
	{"sym", "E", nil, "Sym"}, {"strs", "[String]", nil, "Strs"}, {"nums", "[Int]", nil, "Nums"}, {"flags", "[Boolean]", nil, "Flags"},
	{"objs", "[C]", nil, "Objs"}, {"obj", "C", nil, "Obj"}, {"grid", "[[C]]", nil, "Grid"}, {"extra", "String", nil, "Extra"},
	{"echo", "String", []*hx.Arg{strArg()}, "Echo"}, {"pick", "String", []*hx.Arg{strArg(), boolArg()}, "Pick"},
	{"greet", "String", nil, "Greet"}, {"flip", "Boolean", []*hx.Arg{boolArg()}, "Flip"},
	{"swap", "String", []*hx.Arg{strArg(), boolArg()}, "Swap"}, {"peer", "C", nil, "Peer"}, {"peers", "[C]", nil, "Peers"}, {"count", "Int", nil, "Count"},
	{"risky", "String", []*hx.Arg{strArg()}, "Risky"},
	// a method whose Go name differs from the field name by more than the case of its first letter
	{"htmlid", "String", nil, "HTMLID"},
	// methods whose Go parameter is of a string kind but not the type the coerced argument has: a plain
	// string for an enum (which arrives as a ggql.Symbol), an application string type for a String
	{"tint", "String", []*hx.Arg{{Name: "c", Type: hx.Named("Color").NN()}}, "Tint"},
	{"tag", "String", []*hx.Arg{{Name: "l", Type: hx.Named("String").NN()}}, "Tag"},
	// a method taking an optional argument in an interface{} parameter (nil when it is not given)
	{"opt", "String", []*hx.Arg{{Name: "o", Type: hx.Named("String")}}, "Opt"},
	// three arguments whose Go parameters come in a rotated order (RegisterField says which)
	{"trio", "String", []*hx.Arg{strArg(), boolArg(), {Name: "t", Type: hx.Named("String").NN()}}, "Trio"},
	{"vals", "[V]", nil, "Vals"}, {"val", "V", nil, "Val"},
}

// the slots of the by-value type Vee
var veeSlots = map[string]bool{"str": true, "num": true, "flag": true, "greet": true, "echo": true, "flip": true}

// alternative GraphQL names used together with RegisterField
var renamePool = map[string][]string{"str": {"title", "label"}, "num": {"amount"}, "echo": {"shout"}, "obj": {"link"}, "objs": {"links"}, "flag": {"enabled"}, "peers": {"friends"}}

// UniverseOpts selects features of a universe schema.
type UniverseOpts struct {
	Abstract bool // interface Named and union Any
	Renames  bool
}

// UBinding records how each GraphQL object type is bound to its Go type.
type UBinding struct {
	Mode string // name | go-short | go-pkg | go-full | register
}

func slotType(typ, comp string) *hx.TRef {
	switch {
	case strings.HasPrefix(typ, "[["):
		return hx.ListOf(hx.ListOf(slotType(typ[2:len(typ)-2], comp)))
	case strings.HasPrefix(typ, "["):
		return hx.ListOf(slotType(typ[1:len(typ)-1], comp))
	case typ == "C":
		return hx.Named(comp)
	case typ == "E":
		return hx.Named("Color")
	case typ == "V":
		return hx.Named(veeName)
	}
	return hx.Named(typ)
}

// veeName is the GraphQL name of the by-value type in the schema being generated ("" = not in it).
var veeName string

// GenUniverse draws a schema over the fixed universe of Go types.
func GenUniverse(t *rapid.T, o UniverseOpts, c *Case) map[string]UBinding {
	s := &hx.Schema{}
	c.Schema, c.Universe, c.GoType, c.Rename = s, true, map[string]string{}, map[string]string{}
	s.Types = append(s.Types, &hx.TypeDef{Kind: hx.KEnum, Name: "Color", Values: []*hx.EnumValue{{Name: "RED"}, {Name: "GREEN"}, {Name: "BLUE"}}})
	k := rapid.IntRange(1, 4).Draw(t, "nTypes")
	if o.Abstract && k < 2 {
		k = 2
	}
	goNames := rapid.Permutation(UniverseGoNames).Draw(t, "goPerm")[:k]
	bind := map[string]UBinding{}
	var names []string
	reg := map[string]bool{}
	dirs := map[string][]hx.DirUse{}
	// crossed names: the first object type is NAMED like the Go type that is bound to the second one
	// (and is itself bound, explicitly, to another Go type): a name is not a binding once there is one
	tagged := false
	crossed := o.Abstract && k >= 2 && rapid.IntRange(0, 3).Draw(t, "crossedNames") == 0
	c.CrossedNames = crossed
	for i, gn := range goNames {
		mode := rapid.SampledFrom([]string{"name", "go-short", "go-pkg", "go-full", "register"}).Draw(t, "bind"+gn)
		name := fmt.Sprintf("T%d", i)
		if crossed && i < 2 {
			mode = rapid.SampledFrom([]string{"go-pkg", "go-full", "register"}).Draw(t, "bindCrossed"+gn)
			if i == 0 {
				name = goNames[1]
			}
		}
		switch mode {
		case "name":
			name = gn
			if rapid.IntRange(0, 2).Draw(t, "tagged"+gn) == 0 {
				// bound by name, and carrying a directive that has nothing to do with the binding
				dirs[name] = []hx.DirUse{{Name: "zqtagged"}}
				tagged = true
			}
		case "go-short":
			dirs[name] = []hx.DirUse{{Name: "go", Args: []hx.KV{{Key: "type", V: hx.Str(gn)}}}}
		case "go-pkg":
			dirs[name] = []hx.DirUse{{Name: "go", Args: []hx.KV{{Key: "type", V: hx.Str("exec." + gn)}}}}
		case "go-full":
			dirs[name] = []hx.DirUse{{Name: "go", Args: []hx.KV{{Key: "type", V: hx.Str("verifharness/exec." + gn)}}}}
		case "register":
			reg[name] = true
		}
		names = append(names, name)
		c.GoType[name] = gn
		bind[name] = UBinding{Mode: mode}
	}
	c.GoType["Query"] = "UQuery"
	// the by-value type
	veeName = ""
	if rapid.IntRange(0, 2).Draw(t, "hasVee") != 0 {
		mode := rapid.SampledFrom([]string{"name", "go-short", "register", "register"}).Draw(t, "bindVee")
		veeName = "TV"
		veeGo := "Vee"
		if c.VeeIsMap = rapid.IntRange(0, 2).Draw(t, "veeIsMap") == 0; c.VeeIsMap {
			veeGo = "Mee"
		}
		switch mode {
		case "name":
			veeName = veeGo
		case "go-short":
			dirs[veeName] = []hx.DirUse{{Name: "go", Args: []hx.KV{{Key: "type", V: hx.Str(veeGo)}}}}
		case "register":
			reg[veeName] = true
		}
		names = append(names, veeName)
		c.GoType[veeName] = "Vee"
		bind[veeName] = UBinding{Mode: mode}
	}
	// one Go type serving two object types (a row type of the application exposed under two names):
	// "TZ" is bound to the Go type of the first type as well. Of such a pair at most one implements
	// the interface and at most one is a member of the union - otherwise nothing could tell which of
	// the two a value under an abstract field is meant to be.
	twin, twinOf := "", ""
	if o.Abstract && len(goNames) > 0 && rapid.IntRange(0, 3).Draw(t, "goTypeServesTwoTypes") == 0 {
		twin, twinOf = "TZ", names[0]
		c.GoType[twin] = goNames[0]
		if rapid.Bool().Draw(t, "twinRegistered") {
			reg[twin] = true
			bind[twin] = UBinding{Mode: "register"}
		} else {
			dirs[twin] = []hx.DirUse{{Name: "go", Args: []hx.KV{{Key: "type", V: hx.Str(goNames[0])}}}}
			bind[twin] = UBinding{Mode: "go-short"}
		}
		names = append(names, twin)
	}
	without := func(l []string, x string) []string {
		var out []string
		for _, e := range l {
			if e != x {
				out = append(out, e)
			}
		}
		return out
	}
	has := func(l []string, x string) bool { return len(without(l, x)) != len(l) }
	composites := append([]string{}, names...)
	var impl []string
	if o.Abstract {
		n := rapid.IntRange(1, len(names)).Draw(t, "nImpl")
		impl = append(impl, rapid.Permutation(names).Draw(t, "implPerm")[:n]...)
		m := rapid.IntRange(1, len(names)).Draw(t, "nMem")
		mem := append([]string{}, rapid.Permutation(names).Draw(t, "memPerm")[:m]...)
		if twin != "" {
			if has(impl, twin) && has(impl, twinOf) {
				impl = without(impl, []string{twin, twinOf}[rapid.IntRange(0, 1).Draw(t, "twinImplDrop")])
			}
			if has(mem, twin) && has(mem, twinOf) {
				mem = without(mem, []string{twin, twinOf}[rapid.IntRange(0, 1).Draw(t, "twinMemDrop")])
			}
		}
		// the operation root is an object type like any other: it may implement the interface and be
		// a member of the union, and be returned under fields typed with them
		if rapid.IntRange(0, 2).Draw(t, "queryImplements") == 0 {
			impl = append(impl, "Query")
		}
		if rapid.IntRange(0, 3).Draw(t, "queryIsMember") == 0 {
			mem = append(mem, "Query")
		}
		s.Types = append(s.Types, &hx.TypeDef{Kind: hx.KInterface, Name: "Named", Fields: []*hx.Field{
			{Name: "str", Type: hx.Named("String")}, {Name: "greet", Type: hx.Named("String")}, {Name: "echo", Type: hx.Named("String"), Args: []*hx.Arg{strArg()}}}})
		s.Types = append(s.Types, &hx.TypeDef{Kind: hx.KUnion, Name: "Any", Members: mem})
		composites = append(composites, "Named", "Any")
	}
	mk := func(name string, isQuery bool) *hx.TypeDef {
		td := &hx.TypeDef{Kind: hx.KObject, Name: name, Dirs: dirs[name]}
		comp := rapid.SampledFrom(composites).Draw(t, name+"comp")
		isImpl := false
		for _, in := range impl {
			if in == name {
				isImpl = true
				td.Interfaces = []string{"Named"}
			}
		}
		used := map[string]bool{}
		for _, sd := range slotDefs {
			if name == veeName && !veeSlots[sd.name] {
				continue
			}
			if strings.Contains(sd.typ, "V") && (veeName == "" || name == veeName || c.VeeIsMap) {
				continue
			}
			must := isImpl && (sd.name == "str" || sd.name == "greet" || sd.name == "echo")
			compSlot := strings.Contains(sd.typ, "C")
			want := must || rapid.IntRange(0, 2).Draw(t, name+sd.name+"use") == 0 || (isQuery && compSlot && sd.name == "objs")
			if !want {
				continue
			}
			gname := sd.name
			if o.Renames && !must && rapid.IntRange(0, 3).Draw(t, name+sd.name+"ren") == 0 && !isQuery && name != veeName {
				if alts := renamePool[sd.name]; len(alts) > 0 {
					gname = rapid.SampledFrom(alts).Draw(t, name+sd.name+"alt")
					c.Rename[name+"."+gname] = sd.goNm
					reg[name] = true
				}
			}
			if sd.name == "swap" {
				if isQuery {
					continue
				}
				c.Rename[name+"."+gname] = "Swap(b,s)"
				reg[name] = true
			}
			if sd.name == "trio" {
				if isQuery {
					continue
				}
				c.Rename[name+"."+gname] = "Trio(t,s,b)"
				reg[name] = true
			}
			if used[gname] {
				continue
			}
			used[gname] = true
			f := &hx.Field{Name: gname, Type: slotType(sd.typ, comp)}
			for _, a := range sd.args {
				cp := *a
				f.Args = append(f.Args, &cp)
			}
			td.Fields = append(td.Fields, f)
		}
		if len(td.Fields) == 0 {
			td.Fields = append(td.Fields, &hx.Field{Name: "str", Type: hx.Named("String")})
		}
		return td
	}
	for _, n := range names {
		s.Types = append(s.Types, mk(n, false))
	}
	s.Types = append(s.Types, mk("Query", true))
	for n := range reg {
		c.Register = append(c.Register, n)
	}
	sortStrings(c.Register)
	if tagged {
		s.Dirs = append(s.Dirs, &hx.DirDef{Name: "zqtagged", On: []string{"OBJECT"}})
	}
	return bind
}

func sortStrings(a []string) {
	for i := 1; i < len(a); i++ {
		for j := i; j > 0 && a[j] < a[j-1]; j-- {
			a[j], a[j-1] = a[j-1], a[j]
		}
	}
}

// GenUniverseGraph draws data for a universe schema (values typed as the Go slots are).
func GenUniverseGraph(t *rapid.T, c *Case) {
	s := c.Schema
	g := &hx.Graph{}
	c.Graph = g
	byType := map[string][]int{}
	add := func(typ string) *hx.Node {
		n := &hx.Node{ID: len(g.Nodes), Type: typ, F: map[string]hx.Val{}}
		g.Nodes = append(g.Nodes, n)
		if typ != "" {
			byType[typ] = append(byType[typ], n.ID)
		}
		return n
	}
	root := add("")
	for _, td := range s.Types {
		if td.Kind != hx.KObject {
			continue
		}
		cnt := 1
		if td.Name != "Query" {
			cnt = rapid.IntRange(1, 3).Draw(t, "n"+td.Name)
		}
		for i := 0; i < cnt; i++ {
			add(td.Name)
		}
	}
	root.F["query"] = hx.Ref(byType["Query"][0])
	refTo := func(comp, label string, nullable bool) hx.Val {
		var cands []int
		for _, pt := range s.PossibleTypes(comp) {
			cands = append(cands, byType[pt]...)
		}
		if len(cands) == 0 || (nullable && rapid.IntRange(0, 5).Draw(t, label+"nil") == 0) {
			return hx.Nil()
		}
		return hx.Ref(rapid.SampledFrom(cands).Draw(t, label+"ref"))
	}
	for _, n := range g.Nodes {
		if n.Type == "" {
			continue
		}
		td := s.Type(n.Type)
		lab := fmt.Sprintf("n%d", n.ID)
		// the composite type of this owner (all composite slots share it)
		comp := ""
		for _, f := range td.Fields {
			if sl := slotFor(c, n.Type, f.Name); sl == "vals" || sl == "val" {
				continue
			}
			if s.IsComposite(f.Type.BaseName()) {
				comp = f.Type.BaseName()
			}
		}
		n.F["__str"] = hx.Str(rapid.SampledFrom(stringPool).Draw(t, lab+"str"))
		if comp != "" {
			n.F["__obj"] = refTo(comp, lab+"obj", true)
			k := rapid.IntRange(0, 3).Draw(t, lab+"nobjs")
			var l []hx.Val
			for i := 0; i < k; i++ {
				l = append(l, refTo(comp, fmt.Sprintf("%sobjs%d", lab, i), true))
			}
			n.F["__objs"] = hx.List(l...)
		} else {
			n.F["__objs"] = hx.List()
		}
		for _, f := range td.Fields {
			slot := slotFor(c, n.Type, f.Name)
			fl := lab + f.Name
			switch slot {
			case "str":
				n.F[f.Name] = n.F["__str"]
			case "obj":
				n.F[f.Name] = n.F["__obj"]
			case "objs":
				n.F[f.Name] = n.F["__objs"]
			case "num":
				n.F[f.Name] = hx.Int(rapid.SampledFrom([]int{0, 1, -5, 2147483647, -2147483648}).Draw(t, fl))
			case "i32":
				n.F[f.Name] = hx.I32(rapid.SampledFrom([]int32{0, 7, -2147483648}).Draw(t, fl))
			case "i64":
				n.F[f.Name] = hx.I64(rapid.SampledFrom([]int64{0, 1 << 40, -9}).Draw(t, fl))
			case "f32":
				n.F[f.Name] = hx.F32(float32(rapid.IntRange(-100, 100).Draw(t, fl)) / 8)
			case "f64":
				n.F[f.Name] = hx.F64(rapid.SampledFrom([]float64{0.1, -2.5, 1e300}).Draw(t, fl))
			case "flag":
				n.F[f.Name] = hx.Bool(rapid.Bool().Draw(t, fl))
			case "when":
				n.F[f.Name] = hx.Time(rapid.SampledFrom(timePool).Draw(t, fl))
			case "sym":
				n.F[f.Name] = hx.Sym(rapid.SampledFrom([]string{"RED", "GREEN", "BLUE"}).Draw(t, fl))
			case "strs":
				var l []hx.Val
				for i := 0; i < rapid.IntRange(0, 3).Draw(t, fl+"n"); i++ {
					l = append(l, hx.Str(rapid.SampledFrom(stringPool).Draw(t, fmt.Sprintf("%s%d", fl, i))))
				}
				n.F[f.Name] = hx.List(l...)
			case "nums":
				var l []hx.Val
				for i := 0; i < rapid.IntRange(0, 3).Draw(t, fl+"n"); i++ {
					l = append(l, hx.Int(rapid.IntRange(-3, 3).Draw(t, fmt.Sprintf("%s%d", fl, i))))
				}
				n.F[f.Name] = hx.List(l...)
			case "flags":
				var l []hx.Val
				for i := 0; i < rapid.IntRange(0, 3).Draw(t, fl+"n"); i++ {
					l = append(l, hx.Bool(rapid.Bool().Draw(t, fmt.Sprintf("%s%d", fl, i))))
				}
				n.F[f.Name] = hx.List(l...)
			case "grid":
				var rows []hx.Val
				for i := 0; i < rapid.IntRange(0, 2).Draw(t, fl+"r"); i++ {
					var row []hx.Val
					for j := 0; j < rapid.IntRange(0, 2).Draw(t, fmt.Sprintf("%sr%d", fl, i)); j++ {
						row = append(row, refTo(comp, fmt.Sprintf("%s_%d_%d", fl, i, j), true))
					}
					rows = append(rows, hx.List(row...))
				}
				n.F[f.Name] = hx.List(rows...)
			case "extra":
				n.F[f.Name] = hx.Str(rapid.SampledFrom(stringPool).Draw(t, fl))
			case "vals":
				var l []hx.Val
				for i := 0; i < rapid.IntRange(0, 3).Draw(t, fl+"n"); i++ {
					l = append(l, refTo(f.Type.BaseName(), fmt.Sprintf("%s%d", fl, i), false))
				}
				n.F[f.Name] = hx.List(l...)
			case "val":
				n.F[f.Name] = refTo(f.Type.BaseName(), fl, false)
			}
		}
	}
	GenHidden(t, s, g)
}
