package exec

import (
	"fmt"
	"math"
	"reflect"
	"strings"
	"sync"
	"time"

	"github.com/uhn/ggql/pkg/ggql"

	"verifharness/hx"
)

// Go types the input objects of the C04 schema are bound to (RegisterType) in the GoInputs variant.
// Field kinds follow what Input.reflectSet supports: assignable values, integer and float
// conversions, slices; nested input objects arrive as pointers to their own registered type.
type c04In1G struct {
	X float64 // Float (float32) widened
	Y bool
	T time.Time
	D bool
}

type c04In0G struct {
	I   int64 // Int widened
	S   string
	R   int
	E   ggql.Symbol
	L   []int32
	N   *c04In1G
	Ln  []*c04In1G
	K   string
	Nd  *c04In1G
	Lnd []*c04In1G
}

type c04In2G struct {
	B int8
	U uint16
	H int16
	W float64
	Q int64
	M []*c04In1G
}

// goStruct marks a received value that was a registered Go struct: a Go struct can not tell an
// absent field from a zero one, the comparison is tolerant there.
type goStruct struct {
	Type string
	M    map[string]interface{}
}

// goRanges are the Go field ranges of c04In2G per GraphQL input field.
var goRanges = map[string][2]int64{"b": {math.MinInt8, math.MaxInt8}, "u": {0, math.MaxUint16}, "h": {math.MinInt16, math.MaxInt16}}

// goRangeBad reports that a representable written value holds an In2 member that does not fit
// the Go field it is bound to (GoInputs only): it can not be delivered unaltered, so it must be refused.
func goRangeBad(s *hx.Schema, tr *hx.TRef, w hx.Val) bool {
	if w.IsNil() {
		return false
	}
	if tr.List != nil {
		for _, e := range w.L {
			if goRangeBad(s, tr.List, e) {
				return true
			}
		}
		return false
	}
	td := s.Type(tr.Name)
	if td == nil || td.Kind != hx.KInput || w.K != "map" {
		return false
	}
	for _, kv := range w.M {
		f := td.Input(kv.Key)
		if f == nil {
			continue
		}
		if tr.Name == "In2" {
			if r, ok := goRanges[kv.Key]; ok {
				if i, isInt, fits := asInt64(kv.V); isInt && (!fits || i < r[0] || i > r[1]) {
					return true
				}
				if fl, isF := asFloat64(kv.V); isF && fl == math.Trunc(fl) && (fl < float64(r[0]) || fl > float64(r[1])) {
					return true
				}
			}
		}
		if goRangeBad(s, f.Type, kv.V) {
			return true
		}
	}
	return false
}

// fromGo turns what a resolver received into the map/list world of denote(): registered structs
// become goStruct values holding every declared field.
func fromGo(s *hx.Schema, v interface{}) interface{} {
	switch t := v.(type) {
	case nil:
		return nil
	case []interface{}:
		out := make([]interface{}, len(t))
		for i, e := range t {
			out[i] = fromGo(s, e)
		}
		return out
	case map[string]interface{}:
		out := make(map[string]interface{}, len(t))
		for k, e := range t {
			out[k] = fromGo(s, e)
		}
		return out
	case *c04In0G:
		return structModel(s, "In0", reflect.ValueOf(t))
	case *c04In1G:
		return structModel(s, "In1", reflect.ValueOf(t))
	case *c04In2G:
		return structModel(s, "In2", reflect.ValueOf(t))
	}
	return v
}

func structModel(s *hx.Schema, tn string, pv reflect.Value) interface{} {
	if pv.IsNil() {
		return nil
	}
	sv := pv.Elem()
	m := map[string]interface{}{}
	for _, f := range s.Type(tn).Inputs {
		fv := sv.FieldByNameFunc(func(n string) bool { return strings.EqualFold(n, f.Name) })
		m[f.Name] = goFieldModel(s, fv)
	}
	return goStruct{Type: tn, M: m}
}

func goFieldModel(s *hx.Schema, fv reflect.Value) interface{} {
	switch fv.Kind() {
	case reflect.Ptr:
		if fv.IsNil() {
			return nil
		}
		return fromGo(s, fv.Interface())
	case reflect.Slice:
		if fv.IsNil() {
			return nil
		}
		out := make([]interface{}, fv.Len())
		for i := range out {
			out[i] = goFieldModel(s, fv.Index(i))
		}
		return out
	}
	return fv.Interface()
}

// zeroish: the value a Go struct field has when nothing was put into it.
func zeroish(g interface{}) bool {
	switch t := g.(type) {
	case nil:
		return true
	case []interface{}:
		return len(t) == 0
	case time.Time:
		return t.IsZero()
	case string:
		return t == "" || t == time.Time{}.UTC().Format(time.RFC3339Nano)
	case ggql.Symbol:
		return t == ""
	case bool:
		return !t
	case goStruct:
		return false
	}
	switch n := hx.Norm(g).(type) {
	case int64:
		return n == 0
	case float64:
		return n == 0
	}
	return false
}

// c04Rec is the call log of the reflection fixture.
type c04Rec struct {
	mu    sync.Mutex
	calls []Call
}

// c04Q backs the Query type of the C04 schema through reflection: f is bound to a method whose
// parameters are interface{} so that whatever ggql hands over is recorded as it is.
type c04Q struct {
	rec *c04Rec
	Z   int32
}

func (q *c04Q) F(a interface{}) string {
	q.rec.mu.Lock()
	q.rec.calls = append(q.rec.calls, Call{Strategy: "X", Node: 1, Field: "f", Key: "k", HasArgs: map[string]interface{}{"a": a}})
	q.rec.mu.Unlock()
	return "ok"
}

func (q *c04Q) F2(a, b interface{}) string {
	q.rec.mu.Lock()
	q.rec.calls = append(q.rec.calls, Call{Strategy: "X", Node: 1, Field: "f", Key: "k", HasArgs: map[string]interface{}{"a": a, "b": b}})
	q.rec.mu.Unlock()
	return "ok"
}

func (q *c04Q) G(i interface{}) string { return "ok" }

type c04RootX struct {
	Query *c04Q
}

func registerGoInputs(root *ggql.Root) error {
	for _, p := range []struct {
		sample interface{}
		name   string
	}{{&c04In0G{}, "In0"}, {&c04In1G{}, "In1"}, {&c04In2G{}, "In2"}} {
		if err := root.RegisterType(p.sample, p.name); err != nil {
			return fmt.Errorf("RegisterType(%s): %w", p.name, err)
		}
	}
	return nil
}

// execute runs the case's request under its strategy and returns the response and the call log.
func (c *c04Case) execute() (res map[string]interface{}, text string, calls []Call, vars map[string]interface{}, s *hx.Schema, pan interface{}, err error) {
	cs, sch := c.world()
	s = sch
	vars = cs.GoVars()
	text = c.Text
	const extendIn1Warm = `query Q { w: g(i: {r: 1}) v: g(i: {r: 2, nd: {y: false}}) }`
	const extendIn1SDL = `extend input In1 { z: String = "zz" }`
	first := sch
	if c.ExtendIn1 {
		// (the same schema without the member the extension brings)
		cp := *sch
		cp.Types = append([]*hx.TypeDef{}, sch.Types...)
		for i, td := range cp.Types {
			if td.Name == "In1" {
				c2 := *td
				c2.Inputs = td.Inputs[:len(td.Inputs)-1]
				cp.Types[i] = &c2
			}
		}
		first = &cp
		cs.Schema = first
	}
	if c.Strat != "X" {
		var w *World
		if w, err = NewWorld(cs); err != nil {
			return
		}
		if c.ExtendIn1 {
			_ = w.Root.ResolveString(extendIn1Warm, "Q", nil)
			w.ResetCalls()
			if err = w.Root.ParseString(extendIn1SDL); err != nil {
				return
			}
		}
		if c.GoInputs {
			if err = registerGoInputs(w.Root); err != nil {
				return
			}
		}
		if c.WarmText != "" {
			_ = w.Root.ResolveString(c.WarmText, cs.Op, nil)
			w.ResetCalls()
		}
		res, text, pan = w.Resolve()
		calls = w.Calls()
		return
	}
	ggql.Sort = true
	ggql.Relaxed = false
	ggql.MaxResolveDepth = 100
	rec := &c04Rec{}
	root := ggql.NewRoot(&c04RootX{Query: &c04Q{rec: rec, Z: 5}})
	if err = root.ParseString(first.SDL(hx.SDLOpts{})); err != nil {
		return
	}
	if err = root.RegisterType(&c04Q{}, "Query"); err != nil {
		return
	}
	if c.ExtendIn1 {
		_ = root.ResolveString(extendIn1Warm, "Q", nil)
		rec.mu.Lock()
		rec.calls = nil
		rec.mu.Unlock()
		if err = root.ParseString(extendIn1SDL); err != nil {
			return
		}
	}
	if c.ArgT2 != nil {
		if err = root.RegisterField("Query", "f", "F2"); err != nil {
			return
		}
	}
	if c.GoInputs {
		if err = registerGoInputs(root); err != nil {
			return
		}
	}
	func() {
		defer func() {
			if r := recover(); r != nil {
				pan = r
			}
		}()
		if c.WarmText != "" {
			_ = root.ResolveString(c.WarmText, cs.Op, nil)
			rec.mu.Lock()
			rec.calls = nil
			rec.mu.Unlock()
		}
		if len(c.Prime) > 0 {
			res = ResolveReused(root, text, cs.Op, kvGo(c.Prime), vars, func() { rec.mu.Lock(); rec.calls = nil; rec.mu.Unlock() })
			return
		}
		res = root.ResolveString(text, cs.Op, vars)
	}()
	calls = rec.calls
	return
}
