package exec

import (
	"fmt"
	"strings"
	"testing"

	"pgregory.net/rapid"

	"verifharness/hx"
)

// dirStates are the ways a condition can be supplied.
// (default-*: a nullable variable with a default, left unset; nndefault-*: the same declared Boolean!)
var dirStates = []string{"absent", "lit-true", "lit-false", "var-true", "var-false", "default-true", "default-false", "nndefault-true", "nndefault-false"}

// Row is one row of the C09 table.
type Row struct {
	Skip, Include string
	SkipFirst     bool
	Kind          string // field | inline | spread
}

func allRows() []Row {
	var rows []Row
	for _, kind := range []string{"field", "inline", "spread"} {
		for _, s := range dirStates {
			for _, i := range dirStates {
				if s != "absent" && i != "absent" {
					rows = append(rows, Row{s, i, true, kind}, Row{s, i, false, kind})
				} else {
					rows = append(rows, Row{s, i, true, kind})
				}
			}
		}
	}
	return rows
}

func (r Row) String() string {
	o := "skip-first"
	if !r.SkipFirst {
		o = "include-first"
	}
	return fmt.Sprintf("%s skip=%s include=%s %s", r.Kind, r.Skip, r.Include, o)
}

// site is a selection together with the slice that holds it and its container type.
type site struct {
	parent *[]*hx.Sel
	idx    int
	con    string
}

func collectSites(d *hx.Doc, s *hx.Schema, op *hx.Op) []site {
	var out []site
	seen := map[string]bool{}
	var walk func(sels *[]*hx.Sel, con string)
	walk = func(sels *[]*hx.Sel, con string) {
		for i, sel := range *sels {
			out = append(out, site{sels, i, con})
			switch sel.Kind {
			case "field":
				if td := s.Type(con); td != nil {
					if fd := td.Field(sel.Name); fd != nil && len(sel.Sels) > 0 {
						walk(&sel.Sels, fd.Type.BaseName())
					}
				}
			case "inline":
				c := con
				if sel.On != "" {
					c = sel.On
				}
				walk(&sel.Sels, c)
			case "spread":
				if f := d.Frag(sel.Name); f != nil && !seen[f.Name] {
					seen[f.Name] = true
					walk(&f.Sels, f.On)
				}
			}
		}
	}
	root := "Query"
	if op.Type == "mutation" {
		root = "Mutation"
	}
	walk(&op.Sels, root)
	return out
}

// applyRow decorates (or creates) a selection of the row's kind with the row's directives.
func applyRow(t *rapid.T, c *Case, row Row, op *hx.Op) {
	sites := collectSites(c.Doc, c.Schema, op)
	var match []site
	for _, st := range sites {
		if (*st.parent)[st.idx].Kind == row.Kind {
			match = append(match, st)
		}
	}
	var target *hx.Sel
	if len(match) > 0 {
		st := rapid.SampledFrom(match).Draw(t, "site")
		target = (*st.parent)[st.idx]
	} else {
		// wrap a field selection
		var fields []site
		for _, st := range sites {
			if (*st.parent)[st.idx].Kind == "field" {
				fields = append(fields, st)
			}
		}
		st := rapid.SampledFrom(fields).Draw(t, "wrapSite")
		f := (*st.parent)[st.idx]
		if row.Kind == "inline" {
			target = &hx.Sel{Kind: "inline", Sels: []*hx.Sel{f}}
			if rapid.Bool().Draw(t, "wrapOn") {
				target.On = st.con
			}
		} else {
			fr := &hx.Frag{Name: "FX", On: st.con, Sels: []*hx.Sel{f}}
			c.Doc.Frags = append(c.Doc.Frags, fr)
			if len(c.Doc.Order) > 0 {
				c.Doc.Order = append(c.Doc.Order, fmt.Sprintf("f%d", len(c.Doc.Frags)-1))
			}
			target = &hx.Sel{Kind: "spread", Name: "FX"}
		}
		(*st.parent)[st.idx] = target
	}
	nv := 0
	mk := func(name, state string) *hx.DirUse {
		if state == "absent" {
			return nil
		}
		var v hx.Val
		nv++
		vn := fmt.Sprintf("c%d", nv)
		switch state {
		case "lit-true":
			v = hx.Bool(true)
		case "lit-false":
			v = hx.Bool(false)
		case "var-true", "var-false":
			v = hx.VarV(vn)
			for _, o := range c.Doc.Ops {
				o.Vars = append(o.Vars, &hx.VarDef{Name: vn, Type: hx.Named("Boolean").NN()})
				o.Anon = false
			}
			c.Vars = append(c.Vars, hx.KV{Key: vn, V: hx.Bool(state == "var-true")})
		default:
			v = hx.VarV(vn)
			d := hx.Bool(strings.HasSuffix(state, "default-true"))
			vt := hx.Named("Boolean")
			if strings.HasPrefix(state, "nn") {
				vt = vt.NN()
			}
			for _, o := range c.Doc.Ops {
				o.Vars = append(o.Vars, &hx.VarDef{Name: vn, Type: vt, Default: &d})
				o.Anon = false
			}
		}
		return &hx.DirUse{Name: name, Args: []hx.KV{{Key: "if", V: v}}}
	}
	sk, in := mk("skip", row.Skip), mk("include", row.Include)
	target.Dirs = nil
	if row.SkipFirst {
		if sk != nil {
			target.Dirs = append(target.Dirs, *sk)
		}
		if in != nil {
			target.Dirs = append(target.Dirs, *in)
		}
	} else {
		if in != nil {
			target.Dirs = append(target.Dirs, *in)
		}
		if sk != nil {
			target.Dirs = append(target.Dirs, *sk)
		}
	}
	repeated := ""
	if rapid.IntRange(0, 3).Draw(t, "repeatedDirective") == 0 {
		// the same directive once more on the selection (ggql accepts that): every use counts,
		// wherever it stands
		name := rapid.SampledFrom([]string{"skip", "include"}).Draw(t, "repeatedName")
		state := rapid.SampledFrom([]string{"lit-true", "lit-false", "var-true", "var-false", "default-true", "default-false", "nndefault-true", "nndefault-false"}).Draw(t, "repeatedState")
		if du := mk(name, state); du != nil {
			pos := rapid.IntRange(0, len(target.Dirs)).Draw(t, "repeatedPos")
			ds := append([]hx.DirUse{}, target.Dirs[:pos]...)
			ds = append(ds, *du)
			target.Dirs = append(ds, target.Dirs[pos:]...)
			repeated = fmt.Sprintf(" + @%s(%s) at %d", name, state, pos)
		}
	}
	if rapid.IntRange(0, 2).Draw(t, "foreignDirective") == 0 {
		withForeignDirective(c, target, rapid.IntRange(0, 2).Draw(t, "foreignPos"))
	}
	c.Doc.Number()
	c.Note = row.String() + repeated
}

// noteDirective is a directive of the schema's own that requests may put on selections; it says
// nothing about inclusion.
func noteDirective() *hx.DirDef {
	// (it has an argument called "if" of its own, which has nothing to do with the one of @skip and @include)
	return &hx.DirDef{Name: "note", Args: []*hx.Arg{{Name: "text", Type: hx.Named("String")}, {Name: "if", Type: hx.Named("Boolean")}}, On: []string{"FIELD", "FRAGMENT_SPREAD", "INLINE_FRAGMENT"}}
}

// withForeignDirective writes a use of @note at position pos among the directives of the selection.
func withForeignDirective(c *Case, target *hx.Sel, pos int) {
	has := false
	for _, d := range c.Schema.Dirs {
		if d.Name == "note" {
			has = true
		}
	}
	if !has {
		c.Schema.Dirs = append(c.Schema.Dirs, noteDirective())
	}
	if pos > len(target.Dirs) {
		pos = len(target.Dirs)
	}
	du := hx.DirUse{Name: "note"}
	if pos%2 == 1 {
		du.Args = []hx.KV{{Key: "text", V: hx.Str("n")}, {Key: "if", V: hx.Bool(false)}}
	} else {
		du.Args = []hx.KV{{Key: "if", V: hx.Bool(true)}}
	}
	ds := append([]hx.DirUse{}, target.Dirs[:pos]...)
	ds = append(ds, du)
	target.Dirs = append(ds, target.Dirs[pos:]...)
}

func genCaseC09(t *rapid.T) *Case {
	strategy := rapid.SampledFrom([]string{"R", "A", "X"}).Draw(t, "strategy")
	p := Profile{Strategy: strategy, MaxDepth: rapid.IntRange(2, 4).Draw(t, "maxDepth"), Dirs: rapid.Bool().Draw(t, "moreDirs")}
	if strategy == "X" {
		p.Abstract = rapid.IntRange(0, 2).Draw(t, "abstract") == 0
	}
	s := GenSchema(t, p)
	g := GenGraph(t, s, p, nil)
	d, vars := GenDoc(t, s, p, false)
	c := &Case{Schema: s, Graph: g, Doc: d, Vars: vars, Layout: GenLayout(t), ListSeed: rapid.IntRange(0, 1<<20).Draw(t, "listSeed")}
	c.Assign, c.AnyInstalled = GenAssign(t, g, strategy)
	c.Warm = GenWarm(t, s, p)
	c.Op = d.Ops[0].Name
	if strategy == "X" {
		for _, td := range s.Types {
			if td.Kind == hx.KObject && p.Abstract {
				c.Register = append(c.Register, td.Name)
			}
		}
	}
	// a failing sibling: whether a selection is included has nothing to do with what went wrong before it
	if rapid.IntRange(0, 2).Draw(t, "failingSibling") == 0 {
		for i := 0; i < rapid.IntRange(1, 3).Draw(t, "nFailing"); i++ {
			n := g.Nodes[rapid.IntRange(0, len(g.Nodes)-1).Draw(t, fmt.Sprintf("fail%dnode", i))]
			if n.Type == "" || (c.Assign[n.ID] != "R" && c.Assign[n.ID] != "A") {
				continue
			}
			fs := s.Type(n.Type).Fields
			f := fs[rapid.IntRange(0, len(fs)-1).Draw(t, fmt.Sprintf("fail%dfield", i))]
			dup := false
			for _, e := range c.Faults {
				dup = dup || (e.Node == n.ID && e.Field == f.Name)
			}
			if !dup {
				c.Faults = append(c.Faults, hx.Fault{Node: n.ID, Field: f.Name, Kind: "err"})
			}
		}
	}
	rows := allRows()
	row := rows[rapid.IntRange(0, len(rows)-1).Draw(t, "row")]
	applyRow(t, c, row, d.Ops[0])
	if rapid.IntRange(0, 2).Draw(t, "reuseParsedRequest") == 0 {
		// the parsed request has been resolved before, with every condition variable the other way round
		c.PrimeVars = FlipBooleans(c)
	}
	if rapid.IntRange(0, 5).Draw(t, "wideSelectionSet") == 0 {
		// the conditioned selection is one of very many in its selection set
		padSelections(c.Doc, rapid.IntRange(40, 140).Draw(t, "padding"))
	}
	return c
}

// padSelections puts n more selections (aliased __typename) in front of the members of every
// selection set that has a member carrying a directive.
func padSelections(d *hx.Doc, n int) {
	var walk func(sels *[]*hx.Sel)
	walk = func(sels *[]*hx.Sel) {
		has := false
		for _, s := range *sels {
			has = has || len(s.Dirs) > 0
			if len(s.Sels) > 0 {
				walk(&s.Sels)
			}
		}
		if has {
			pads := make([]*hx.Sel, 0, n+len(*sels))
			for i := 0; i < n; i++ {
				pads = append(pads, &hx.Sel{Kind: "field", Alias: fmt.Sprintf("zp%d", i), Name: "__typename"})
			}
			*sels = append(pads, *sels...)
		}
	}
	for _, op := range d.Ops {
		walk(&op.Sels)
	}
	for _, f := range d.Frags {
		walk(&f.Sels)
	}
	d.Number()
}

// checkC09: data equals the reference (which implements the stated inclusion
// rule) and no resolver outside the reference's invocation set ran.
// introspectionConditions: below __type and __schema a condition given through a variable (provided
// or left to its default) decides exactly like the same condition written as a literal.
func introspectionConditions(w *World, seed int) string {
	const body = `{ __type(name: "Query") { name @skip(if: S) kind @include(if: I) fields { name @skip(if: S) type { kind @include(if: I) } } ... on __Type @include(if: I) { description } ... @skip(if: S) { interfaces { name } } } __schema { queryType { name @include(if: I) } types @skip(if: S) { name } directives { name @skip(if: S) @include(if: I) } } }`
	sv, iv := seed&1 == 0, seed&2 == 0
	withVars := "query Q($s: Boolean!, $i: Boolean = " + fmt.Sprint(iv) + ") " + strings.ReplaceAll(strings.ReplaceAll(body, "(if: S)", "(if: $s)"), "(if: I)", "(if: $i)")
	literal := strings.ReplaceAll(strings.ReplaceAll(body, "(if: S)", "(if: "+fmt.Sprint(sv)+")"), "(if: I)", "(if: "+fmt.Sprint(iv)+")")
	a := hx.Show(hx.Norm(w.Root.ResolveString(withVars, "", map[string]interface{}{"s": sv})))
	b := hx.Show(hx.Norm(w.Root.ResolveString(literal, "", nil)))
	if a != b {
		return fmt.Sprintf("below __type / __schema the conditions decide differently when given through variables (s=%v provided, i=%v by default):\n  variables: %s\n  literals:  %s\nrequest: %s", sv, iv, hx.Trunc(a, 1200), hx.Trunc(b, 1200), withVars)
	}
	return ""
}

func checkC09(c *Case) (ds []hx.Discrepancy, exp *hx.Expect, res map[string]interface{}, w *World) {
	ds, exp, res, w = checkC01(c)
	if w != nil {
		if p := introspectionConditions(w, c.ListSeed); p != "" {
			ds = append(ds, hx.Discrepancy{Kind: "introspection-conditions", Detail: p})
		}
	}
	if w == nil || exp == nil || exp.Rejected {
		return
	}
	for _, call := range w.Calls() {
		if _, ok := exp.Calls[fmt.Sprintf("%d/%s", call.Node, call.Field)]; !ok {
			ds = append(ds, hx.Discrepancy{Kind: "excluded-resolver-ran", Detail: fmt.Sprintf("resolver of node %d field %q (key %q) ran although no included selection reaches it; row: %s; request: %s", call.Node, call.Field, call.Key, c.Note, c.Doc.Render(c.Layout).Text)})
			break
		}
	}
	return
}

func classesC09(c *Case, exp *hx.Expect) (bool, []string) {
	_, cl := classesC01(c, exp)
	cl = append(cl, "row: "+c.Note)
	if len(c.PrimeVars) > 0 {
		cl = append(cl, "parsed-request-resolved-before-with-other-conditions")
	}
	for _, d := range c.Schema.Dirs {
		if d.Name == "note" {
			cl = append(cl, "other-directive-on-the-selection")
		}
	}
	both, wide := false, false
	if exp != nil {
		c.Doc.Walk(func(s *hx.Sel, depth int) {
			if len(s.Dirs) >= 2 {
				both = true
			}
			if s.Alias == "zp64" {
				wide = true
			}
		})
	}
	if wide {
		cl = append(cl, "conditioned-selection-beyond-the-64th-of-its-selection-set")
	}
	return both, cl
}

// fixedContext is a small hand-written context for the exhaustive table.
func fixedContextC09(strategy string) *Case {
	s := &hx.Schema{Types: []*hx.TypeDef{
		{Kind: hx.KObject, Name: "T0", Fields: []*hx.Field{{Name: "a", Type: hx.Named("Int")}, {Name: "b", Type: hx.Named("String")}, {Name: "o", Type: hx.Named("T0")}}},
		{Kind: hx.KObject, Name: "Query", Fields: []*hx.Field{{Name: "c", Type: hx.ListOf(hx.Named("T0"))}, {Name: "d", Type: hx.Named("T0")}, {Name: "e", Type: hx.Named("Boolean")}}},
	}}
	g := &hx.Graph{Root: 0, Nodes: []*hx.Node{
		{ID: 0, Type: "", F: map[string]hx.Val{"query": hx.Ref(1)}},
		{ID: 1, Type: "Query", F: map[string]hx.Val{"c": hx.List(hx.Ref(2), hx.Ref(3)), "d": hx.Ref(3), "e": hx.Bool(true)}},
		{ID: 2, Type: "T0", F: map[string]hx.Val{"a": hx.I32(1), "b": hx.Str("two"), "o": hx.Ref(3)}},
		{ID: 3, Type: "T0", F: map[string]hx.Val{"a": hx.I32(3), "b": hx.Str("three"), "o": hx.Ref(2)}},
	}}
	mk := func() []*hx.Sel {
		return []*hx.Sel{{Kind: "field", Name: "a"}, {Kind: "field", Name: "o", Sels: []*hx.Sel{{Kind: "field", Name: "b"}}}}
	}
	d := &hx.Doc{
		Ops: []*hx.Op{{Type: "query", Name: "Q", Sels: []*hx.Sel{
			{Kind: "field", Name: "e"},
			{Kind: "field", Name: "c", Sels: []*hx.Sel{
				{Kind: "field", Name: "b"},
				{Kind: "field", Name: "o", Sels: mk()},
				{Kind: "inline", On: "T0", Sels: mk()},
				{Kind: "spread", Name: "F"},
			}},
			{Kind: "field", Name: "d", Sels: []*hx.Sel{{Kind: "field", Name: "a"}}},
		}}},
		Frags: []*hx.Frag{{Name: "F", On: "T0", Sels: []*hx.Sel{{Kind: "field", Alias: "x_a", Name: "a"}, {Kind: "field", Alias: "x_o", Name: "o", Sels: []*hx.Sel{{Kind: "field", Name: "a"}}}}}},
	}
	d.Number()
	c := &Case{Schema: s, Graph: g, Doc: d, Layout: hx.Layout{Mode: "pretty"}, Op: "Q"}
	for range g.Nodes {
		switch strategy {
		case "R":
			c.Assign = append(c.Assign, "R")
		case "A":
			c.Assign = append(c.Assign, "A")
			c.AnyInstalled = true
		default:
			c.Assign = append(c.Assign, "X")
		}
	}
	return c
}

func TestC09(t *testing.T) {
	if hx.Replaying() == "" {
		// exhaustive part: every row of the table, every site of the fixed context, three strategies
		run := hx.NewRun("C09")
		rows := allRows()
		n := 0
		for _, strategy := range []string{"R", "A", "X"} {
			for _, row := range rows {
				// place the row on every selection of its kind in turn
				base := fixedContextC09(strategy)
				sites := collectSites(base.Doc, base.Schema, base.Doc.Ops[0])
				for si := range sites {
					c := fixedContextC09(strategy)
					ss := collectSites(c.Doc, c.Schema, c.Doc.Ops[0])
					if (*ss[si].parent)[ss[si].idx].Kind != row.Kind {
						continue
					}
					applyRowAt(c, row, (*ss[si].parent)[ss[si].idx])
					if (si+len(row.String()))%2 == 0 {
						// every other case also carries a directive of the schema's own, in front of the two
						withForeignDirective(c, (*ss[si].parent)[ss[si].idx], 0)
						c.Doc.Number()
					}
					for _, reuse := range []bool{false, true} {
						if reuse {
							// the same row on a parsed request that was resolved before with the
							// condition variables the other way round
							if c.PrimeVars = FlipBooleans(c); len(c.PrimeVars) == 0 {
								continue
							}
						}
						ds, exp, _, _ := checkC09(c)
						nt, cl := classesC09(c, exp)
						run.Case(hx.Hash(c), nt, cl...)
						n++
						if real := run.Triage(ds); len(real) > 0 {
							t.Fatalf("C09 violated (exhaustive table): %s", run.ReportFailure(c, real))
						}
					}
				}
			}
		}
		run.Extra("table_rows", len(rows))
		run.Extra("table_cases_enumerated", n)
		run.Flush()
		if out := run.FailPath(); out != "" {
			// hand the exhaustive counters to the generated part's stats file via env-free side file
			_ = out
		}
		exhaustiveStats = run
	}
	runPropWith(t, "C09", genCaseC09, checkC09, classesC09, exhaustiveStats)
}

var exhaustiveStats *hx.Run

// applyRowAt puts the row's directives on a given selection (no generator involved).
func applyRowAt(c *Case, row Row, target *hx.Sel) {
	nv := 0
	mk := func(name, state string) *hx.DirUse {
		if state == "absent" {
			return nil
		}
		nv++
		vn := fmt.Sprintf("c%d", nv)
		var v hx.Val
		switch state {
		case "lit-true":
			v = hx.Bool(true)
		case "lit-false":
			v = hx.Bool(false)
		case "var-true", "var-false":
			v = hx.VarV(vn)
			c.Doc.Ops[0].Vars = append(c.Doc.Ops[0].Vars, &hx.VarDef{Name: vn, Type: hx.Named("Boolean").NN()})
			c.Vars = append(c.Vars, hx.KV{Key: vn, V: hx.Bool(state == "var-true")})
		default:
			v = hx.VarV(vn)
			d := hx.Bool(strings.HasSuffix(state, "default-true"))
			vt := hx.Named("Boolean")
			if strings.HasPrefix(state, "nn") {
				vt = vt.NN()
			}
			c.Doc.Ops[0].Vars = append(c.Doc.Ops[0].Vars, &hx.VarDef{Name: vn, Type: vt, Default: &d})
		}
		return &hx.DirUse{Name: name, Args: []hx.KV{{Key: "if", V: v}}}
	}
	sk, in := mk("skip", row.Skip), mk("include", row.Include)
	if row.SkipFirst {
		if sk != nil {
			target.Dirs = append(target.Dirs, *sk)
		}
		if in != nil {
			target.Dirs = append(target.Dirs, *in)
		}
	} else {
		if in != nil {
			target.Dirs = append(target.Dirs, *in)
		}
		if sk != nil {
			target.Dirs = append(target.Dirs, *sk)
		}
	}
	c.Note = row.String()
}
