package exec

import "encoding/json"

func jsonMarshal(v interface{}) ([]byte, error)   { return json.Marshal(v) }
func jsonUnmarshal(b []byte, v interface{}) error { return json.Unmarshal(b, v) }
