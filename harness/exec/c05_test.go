package exec

import (
	"fmt"
	"math"
	"testing"
	"time"

	"pgregory.net/rapid"

	"verifharness/hx"
)

var hostilePool = func() []hx.Val {
	nan32 := hx.Val{K: "float32", S: "NaN"}
	inf32 := hx.Val{K: "float32", S: "+Inf"}
	vs := []hx.Val{
		hx.Int(0), hx.Int(7), hx.Int(math.MinInt32), hx.Int(math.MaxInt32), hx.Int(math.MaxInt32 + 1), hx.Int(math.MinInt32 - 1), hx.Int(1 << 33), hx.Int(math.MaxInt64),
		hx.I64(5), hx.I64(math.MaxInt32 + 1), hx.I64(math.MinInt32 - 1), hx.I64(1 << 33), hx.I64(math.MinInt64), hx.I64(1 << 53), hx.I64(1600000000), hx.I64(10000000000), hx.I64(-10000000000), hx.I64(253402300799), hx.I64(253402300800), hx.I64(-62167219200), hx.I64(-62167219201),
		hx.I32(5), hx.I32(math.MinInt32), hx.I32(0),
		hx.IntKind("int8", -128), hx.IntKind("int16", 32767), hx.IntKind("uint8", 200), hx.IntKind("uint16", 65535),
		hx.IntKind("uint32", math.MaxUint32), hx.IntKind("uint32", 9), hx.IntKind("uint", 1<<40), hx.IntKind("uint", 3),
		{K: "uint64", S: "18446744073709551615"}, {K: "uint64", S: "9223372036854775808"}, {K: "uint64", S: "4"},
		hx.F64(0.5), hx.F64(3.9), hx.F64(-3.9), hx.F64(2147483647), hx.F64(2147483648), hx.F64(-2147483649), hx.F64(1e300), hx.F64(-1e300),
		hx.F64(math.NaN()), hx.F64(math.Inf(1)), hx.F64(math.Inf(-1)), hx.F64(5e-324), hx.F64(3.5e38), hx.F64(3.4e38), hx.F64(4), hx.F64(1e19), hx.F64(1600000000.5), hx.F64(1e10), hx.F64(-1e10), hx.F64(253402300800), hx.F64(-62167219201),
		hx.F32(1.5), hx.F32(math.MaxFloat32), hx.F32(3), nan32, inf32, hx.F32(2147483648), hx.F32(-2147483648), hx.F32(2147483520), hx.F32(-2147483904), hx.F32(4294967296), hx.F32(16777216),
		// time strings Go's parser takes but RFC 3339 does not write that way
		hx.Str("2020-01-01T00:00:00,5Z"), hx.Str("2021-06-30T7:08:09Z"), hx.Str("2020-01-02T03:04:05.000000000Z"), hx.Str("2020-01-02T03:04:05+00:00"),
		hx.Str("12"), hx.Str("-7"), hx.Str("abc"), hx.Str(""), hx.Str("1e3"), hx.Str("3.5"), hx.Str("99999999999"), hx.Str("true"), hx.Str("maybe"),
		hx.Str("2020-01-02T03:04:05Z"), hx.Str("2020-01-02T03:04:05.5+02:00"), hx.Str("notatime"), hx.Str("RED"), hx.Str("BOGUS"), hx.Str("NaN"), hx.Str("Inf"), hx.Str("1e999"),
		hx.Bool(true), hx.Bool(false),
		hx.Sym("RED"), hx.Sym("BOGUS"),
		hx.Time(time.Date(2021, 5, 6, 7, 8, 9, 10, time.UTC)), hx.Time(time.Date(10000, 1, 1, 0, 0, 0, 0, time.UTC)), hx.Time(time.Date(-1, 12, 31, 23, 59, 59, 0, time.UTC)),
		hx.Time(time.Date(9999, 12, 31, 23, 59, 59, 999999999, time.UTC)), hx.Time(time.Date(0, 1, 1, 0, 0, 0, 0, time.UTC)),
		// in their own zone the year is within 0..9999, in UTC (as the response writes times) it is not
		hx.Time(time.Date(9999, 12, 31, 23, 30, 0, 0, time.FixedZone("", -3600))), hx.Time(time.Date(0, 1, 1, 0, 30, 0, 0, time.FixedZone("", 3600))),
		hx.Str("9999-12-31T23:30:00-01:00"), hx.Str("0000-01-01T00:30:00+01:00"), hx.Time(time.Date(9999, 12, 31, 22, 30, 0, 0, time.FixedZone("", -3600))),
		{K: "bytes", S: "xyz"},
		hx.Map(hx.KV{Key: "a", V: hx.I64(1)}), hx.List(hx.I64(1)),
		{K: "nilptr"}, {K: "struct"},
	}
	return vs
}()

var hostileByKind = func() map[string][]hx.Val {
	m := map[string][]hx.Val{}
	for _, v := range hostilePool {
		m[v.K] = append(m[v.K], v)
	}
	return m
}()

var sliceKinds = []string{"string", "int", "int64", "bool", "float32", "float64", "time"}

func hostileLeaf(t *rapid.T, s *hx.Schema, base, label string, hint int) hx.Val {
	if hint >= 0 {
		// homogeneous list: one Go kind for all members, so that typed slices of the wrong member kind occur
		// (the hint has four values; the name of the field's type, the same for all members, spreads
		// them over all the kinds)
		kind := sliceKinds[(hint+len(base))%len(sliceKinds)]
		if rapid.IntRange(0, 2).Draw(t, label+"faith") == 0 {
			return GenLeaf(t, s, base, label, hint)
		}
		return rapid.SampledFrom(hostileByKind[kind]).Draw(t, label+"hk")
	}
	if rapid.IntRange(0, 2).Draw(t, label+"faith") == 0 {
		return GenLeaf(t, s, base, label, hint)
	}
	return rapid.SampledFrom(hostilePool).Draw(t, label+"h")
}

func genCaseC05(t *rapid.T) *Case {
	strategy := rapid.SampledFrom([]string{"R", "A", "X"}).Draw(t, "strategy")
	p := Profile{Strategy: strategy, MaxDepth: rapid.IntRange(1, 4).Draw(t, "maxDepth"), Hostile: true}
	if strategy == "X" {
		p.Abstract = rapid.IntRange(0, 3).Draw(t, "abstract") == 0
	}
	s := GenSchema(t, p)
	g := GenGraph(t, s, p, hostileLeaf)
	d, vars := GenDoc(t, s, p, false)
	c := &Case{Schema: s, Graph: g, Doc: d, Vars: vars, Layout: GenLayout(t), ListSeed: rapid.IntRange(0, 1<<20).Draw(t, "listSeed")}
	c.Assign, c.AnyInstalled = GenAssign(t, g, strategy)
	c.Warm = GenWarm(t, s, p)
	c.Op = d.Ops[0].Name
	if rapid.IntRange(0, 2).Draw(t, "tightDepth") == 0 {
		// the depth limit of the process is what this request needs, nothing to spare: inside the
		// limit every value is still converted
		c.TightDepth = rapid.IntRange(1, 2).Draw(t, "tightDepthPlus")
	}
	// some resolvers hand their value over together with an error: the value still has to be
	// brought into the shape of the declared type (or replaced by null)
	if rapid.Bool().Draw(t, "valueWithError") {
		for i := 0; i < rapid.IntRange(1, 3).Draw(t, "nValErr"); i++ {
			n := g.Nodes[rapid.IntRange(0, len(g.Nodes)-1).Draw(t, fmt.Sprintf("ve%dnode", i))]
			if n.Type == "" || (c.Assign[n.ID] != "R" && c.Assign[n.ID] != "A") {
				continue
			}
			fs := s.Type(n.Type).Fields
			f := fs[rapid.IntRange(0, len(fs)-1).Draw(t, fmt.Sprintf("ve%dfield", i))]
			if s.KindOf(f.Type.BaseName()) == hx.KEnum {
				continue // (undeclared enum names pass: recorded finding KF-C05-enum-undeclared, kept apart)
			}
			dup := false
			for _, e := range c.Faults {
				if e.Node == n.ID && e.Field == f.Name {
					dup = true
				}
			}
			if !dup {
				c.Faults = append(c.Faults, hx.Fault{Node: n.ID, Field: f.Name, Kind: "valerr"})
			}
		}
	}
	if p.Abstract {
		for _, td := range s.Types {
			if td.Kind == hx.KObject {
				c.Register = append(c.Register, td.Name)
			}
		}
	}
	return c
}

func checkC05(c *Case) ([]hx.Discrepancy, *hx.Expect, map[string]interface{}, *World) {
	ds, exp, res, w := checkFull(c, "C05")
	if exp != nil && !exp.Rejected && res != nil {
		// independent walk: every value in data has the JSON shape of its declared type
		if msg := walkShape(c.Schema, c.Doc, c.Op, hx.Norm(res["data"])); msg != "" {
			ds = append(ds, hx.Discrepancy{Kind: "shape-walk", Detail: msg})
		}
		// the JSON shape is the shape of the JSON text: what ggql's writer makes of the response
		// decodes (standard decoder) to the same numbers, strings and booleans - a value left in a Go
		// kind the writer has no form for would show as a string there
		for _, m := range jsonChecks(res) {
			ds = append(ds, hx.Discrepancy{Kind: "json-shape", Detail: m})
			break
		}
	}
	return ds, exp, res, w
}

// walkShape checks the response data against the schema alone (no data graph):
// objects for composites, lists for lists, scalar representations for leaves.
func walkShape(s *hx.Schema, d *hx.Doc, opName string, data interface{}) string {
	op := hx.ChooseOp(d, opName)
	if op == nil || data == nil {
		return ""
	}
	root := "Query"
	if op.Type == "mutation" {
		root = "Mutation"
	}
	var fieldTypes func(sels []*hx.Sel, con string, out map[string][]*fieldAt)
	fieldTypes = func(sels []*hx.Sel, con string, out map[string][]*fieldAt) {
		for _, sel := range sels {
			switch sel.Kind {
			case "field":
				if sel.Name == "__typename" {
					out[sel.Key()] = append(out[sel.Key()], &fieldAt{typ: hx.Named("String"), sel: sel})
					continue
				}
				for _, tn := range append([]string{con}, s.PossibleTypes(con)...) {
					if td := s.Type(tn); td != nil {
						if fd := td.Field(sel.Name); fd != nil {
							out[sel.Key()] = append(out[sel.Key()], &fieldAt{typ: fd.Type, sel: sel})
						}
					}
				}
			case "inline":
				c := con
				if sel.On != "" {
					c = sel.On
				}
				fieldTypes(sel.Sels, c, out)
			case "spread":
				if f := d.Frag(sel.Name); f != nil {
					fieldTypes(f.Sels, f.On, out)
				}
			}
		}
	}
	var check func(v interface{}, t *hx.TRef, sels []*fieldAt, path string) string
	var checkObj func(v interface{}, sels [][]*hx.Sel, cons []string, path string) string
	checkObj = func(v interface{}, selsets [][]*hx.Sel, cons []string, path string) string {
		m, ok := v.(map[string]interface{})
		if !ok {
			return fmt.Sprintf("%s: composite position holds %s, not an object", path, hx.Show(v))
		}
		fts := map[string][]*fieldAt{}
		for i, ss := range selsets {
			fieldTypes(ss, cons[i], fts)
		}
		for k, val := range m {
			fa := fts[k]
			if len(fa) == 0 {
				return fmt.Sprintf("%s: key %q is not selected anywhere", path, k)
			}
			// several selections (on different concrete types) may share the key: the value must
			// fit the declared type of at least one of them
			first := ""
			okAny := false
			for _, cand := range fa {
				if msg := check(val, cand.typ, fa, path+"."+k); msg == "" {
					okAny = true
					break
				} else if first == "" {
					first = msg
				}
			}
			if !okAny {
				return first
			}
		}
		return ""
	}
	check = func(v interface{}, t *hx.TRef, fas []*fieldAt, path string) string {
		if v == nil {
			return ""
		}
		if t.List != nil {
			l, ok := v.([]interface{})
			if !ok {
				return fmt.Sprintf("%s: list position (%s) holds %s", path, t, hx.Show(v))
			}
			for i, e := range l {
				if msg := check(e, t.List, fas, fmt.Sprintf("%s.%d", path, i)); msg != "" {
					return msg
				}
			}
			return ""
		}
		if s.IsComposite(t.Name) {
			var selsets [][]*hx.Sel
			var cons []string
			for _, fa := range fas {
				selsets = append(selsets, fa.sel.Sels)
				cons = append(cons, t.Name)
			}
			return checkObj(v, selsets, cons, path)
		}
		var enum *hx.TypeDef
		kind := t.Name
		if td := s.Type(t.Name); td != nil {
			if td.Kind == hx.KEnum {
				enum = td
			} else {
				kind = "String"
			}
		}
		if !hx.ShapeOK(kind, enum, v) {
			if enum != nil {
				if _, isStr := v.(string); isStr {
					return "" // reported (with its known-finding signature) by the differential part
				}
			}
			return fmt.Sprintf("%s: leaf of type %s holds %s", path, t.Name, hx.Show(v))
		}
		return ""
	}
	return checkObj(data, [][]*hx.Sel{op.Sels}, []string{root}, "data")
}

type fieldAt struct {
	typ *hx.TRef
	sel *hx.Sel
}

func classesC05(c *Case, exp *hx.Expect) (bool, []string) {
	_, cl := classesC01(c, exp)
	if exp == nil {
		return false, cl
	}
	if exp.T.LeafBad > 0 {
		cl = append(cl, "leaf-unrepresentable")
	}
	if exp.T.LeafBorder > 0 {
		cl = append(cl, "leaf-borderline(shape-only)")
	}
	if len(exp.BadEnum) > 0 {
		cl = append(cl, "enum-undeclared-name")
	}
	return exp.T.LeafBad+exp.T.LeafBorder > 0, cl
}

func TestC05(t *testing.T) {
	runProp(t, "C05", genCaseC05, checkC05, classesC05)
}
