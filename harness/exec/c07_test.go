package exec

import (
	"bytes"
	"encoding/json"
	"fmt"
	"os"
	"sort"
	"strconv"
	"strings"
	"testing"
	"time"

	"github.com/uhn/ggql/pkg/ggql"
	"pgregory.net/rapid"

	"verifharness/hx"
)

var hostileMsgs = []string{
	"plain", "with \"quotes\"", "back\\slash", "new\nline", "tab\tand\rcr", "nul\x00byte", "ctl\x01\x1f", "del\x7f", "ls ps ",
	"emoji 😀", "bad utf8 \xff\xfe end", "\xc3", "{\"json\": [1]}", "</script>", "ends with backslash\\", "  spaces  ",
}

type c07Case struct {
	*Case
	Mode    string    `json:"mode"`
	Layout2 hx.Layout `json:"layout2"`
	Mutated string    `json:"mutated,omitempty"` // mutated request text (mode "malformed")
}

func genCaseC07(t *rapid.T) *c07Case {
	mode := rapid.SampledFrom([]string{"valid", "faults", "faults", "defect", "malformed", "badvars", "dupop"}).Draw(t, "mode")
	strategy := rapid.SampledFrom([]string{"R", "A", "X"}).Draw(t, "strategy")
	if mode == "faults" && strategy == "X" {
		strategy = "R"
	}
	p := Profile{Strategy: strategy, MaxDepth: rapid.IntRange(2, 4).Draw(t, "maxDepth"), Dirs: rapid.Bool().Draw(t, "dirs")}
	if strategy != "X" {
		p.Args = true
	} else {
		p.Abstract = rapid.IntRange(0, 2).Draw(t, "abstract") == 0
	}
	s := GenSchema(t, p)
	leaf := LeafFn(GenLeaf)
	if mode == "faults" {
		leaf = func(t *rapid.T, s *hx.Schema, base, label string, hint int) hx.Val {
			if (base == "Float" || base == "Float64") && hint >= 0 && rapid.IntRange(0, 5).Draw(t, label+"nonFinite") == 0 {
				// members of float lists that no JSON text can hold, in the Go kind the scalar itself
				// uses (a typed slice of them needs no conversion - but still the finiteness check)
				k := "float64"
				if base == "Float" {
					k = "float32"
				}
				return hx.Val{K: k, S: rapid.SampledFrom([]string{"NaN", "+Inf", "-Inf"}).Draw(t, label+"nf")}
			}
			if rapid.IntRange(0, 5).Draw(t, label+"hz") == 0 {
				v := hostileLeaf(t, s, base, label, hint)
				if td := s.Type(base); td != nil && td.Kind == hx.KEnum && (v.K == "string" || v.K == "symbol") && !td.HasValue(v.S) {
					return GenLeaf(t, s, base, label, hint)
				}
				return v
			}
			return GenLeaf(t, s, base, label, hint)
		}
	}
	g := GenGraph(t, s, p, leaf)
	d, vars := GenDoc(t, s, p, rapid.IntRange(0, 3).Draw(t, "multi") == 0)
	c := &Case{Schema: s, Graph: g, Doc: d, Vars: vars, Layout: GenLayout(t), Echo: p.Args, ListSeed: rapid.IntRange(0, 1<<20).Draw(t, "listSeed")}
	c.Assign, c.AnyInstalled = GenAssign(t, g, strategy)
	c.Op = d.Ops[0].Name
	if p.Abstract {
		for _, td := range s.Types {
			if td.Kind == hx.KObject {
				c.Register = append(c.Register, td.Name)
			}
		}
	}
	cc := &c07Case{Case: c, Mode: mode, Layout2: GenLayout(t)}
	switch mode {
	case "faults":
		x := &hx.Exec{S: s, G: g, D: d, Echo: c.Echo}
		exp := x.Run(c.Op, c.VarMap())
		var sites []string
		for k := range exp.Calls {
			if n, _ := parseSite(k); n != g.Root {
				sites = append(sites, k)
			}
		}
		sort.Strings(sites)
		if len(sites) > 0 {
			for i := 0; i < rapid.IntRange(1, 3).Draw(t, "nFaults"); i++ {
				n, f := parseSite(rapid.SampledFrom(sites).Draw(t, fmt.Sprintf("fs%d", i)))
				fl := hx.Fault{Node: n, Field: f, Kind: rapid.SampledFrom([]string{"err", "group", "ext", "lext", "wgroup", "oext"}).Draw(t, fmt.Sprintf("fk%d", i))}
				if fl.Kind == "group" || fl.Kind == "wgroup" {
					fl.N = 2
				}
				if fl.Kind == "lext" {
					fl.N = rapid.IntRange(0, 3).Draw(t, fmt.Sprintf("fn%d", i))
				}
				if fl.Kind == "err" {
					fl.Msg = rapid.SampledFrom(hostileMsgs).Draw(t, fmt.Sprintf("fm%d", i))
				}
				dup := false
				for _, e := range c.Faults {
					if e.Node == fl.Node && e.Field == fl.Field {
						dup = true
					}
				}
				if !dup {
					c.Faults = append(c.Faults, fl)
				}
			}
		}
	case "defect":
		kinds := defectKinds
		if strategy == "X" {
			kinds = []string{"unknown-field", "unknown-directive", "misplaced-directive", "undefined-condition-inline", "undefined-condition-fragment"}
		}
		s.Dirs = append(s.Dirs, &hx.DirDef{Name: "onquery", On: []string{"QUERY"}})
		for _, k := range rapid.Permutation(kinds).Draw(t, "kindOrder") {
			if df, ok := inject(t, c, k); ok {
				c.Note = df.Kind
				break
			}
		}
		if rapid.IntRange(0, 2).Draw(t, "fragmentNameOnItsOwnLine") == 0 {
			c.Layout.FragSplit = rapid.IntRange(1, 2).Draw(t, "fragSplit")
		}
	case "malformed":
		text := d.Render(c.Layout).Text
		bs := []byte(text)
		for i := 0; i < rapid.IntRange(1, 3).Draw(t, "nMut"); i++ {
			if len(bs) == 0 {
				break
			}
			pos := rapid.IntRange(0, len(bs)-1).Draw(t, fmt.Sprintf("mpos%d", i))
			switch rapid.IntRange(0, 3).Draw(t, fmt.Sprintf("mop%d", i)) {
			case 0: // truncate
				bs = bs[:pos]
			case 1: // delete a short range
				end := pos + rapid.IntRange(1, 4).Draw(t, fmt.Sprintf("mlen%d", i))
				if end > len(bs) {
					end = len(bs)
				}
				bs = append(bs[:pos:pos], bs[end:]...)
			case 2: // insert a structural character
				ch := rapid.SampledFrom([]string{"{", "}", "(", ")", "[", "]", "$", "@", ":", "\"", "#", "!", ",", ".", "...", "\n", "\\", "\x00", "\xff", "on ", "query "}).Draw(t, fmt.Sprintf("mch%d", i))
				bs = append(bs[:pos:pos], append([]byte(ch), bs[pos:]...)...)
			default: // replace a byte
				bs[pos] = rapid.SampledFrom([]byte("{}()[]$@:\"#!,. \n\tx0-")).Draw(t, fmt.Sprintf("mb%d", i))
			}
		}
		cc.Mutated = string(bs)
		if cc.Mutated == "" {
			cc.Mutated = " "
		}
	case "dupop":
		// two operations with one name: refused before anything is executed, the error is about an
		// operation (whose header may end its line)
		if len(d.Ops) >= 2 {
			d.Ops[1].Name = d.Ops[0].Name
			d.Ops[1].Anon = false
			d.Ops[0].Anon = false
		} else {
			cp := *d.Ops[0]
			cp.Anon, d.Ops[0].Anon = false, false
			d.Ops = append(d.Ops, &cp)
			if len(d.Order) > 0 {
				d.Order = append(d.Order, fmt.Sprintf("o%d", len(d.Ops)-1))
			}
		}
		c.Layout.HeaderNL = rapid.Bool().Draw(t, "headerEndsItsLine")
	case "badvars":
		// wrong kinds for declared variables
		for i := range c.Vars {
			if rapid.Bool().Draw(t, fmt.Sprintf("bv%d", i)) {
				c.Vars[i].V = rapid.SampledFrom([]hx.Val{hx.Str("zz"), hx.I64(1 << 40), hx.Bool(true), hx.List(hx.I64(1)), hx.Map(hx.KV{Key: "a", V: hx.I64(1)}), hx.F64(1.5)}).Draw(t, fmt.Sprintf("bvv%d", i))
			}
		}
	}
	return cc
}

// envelope checks the shape of a response against the submitted text.
// lookaheadFamily: is the message one of the errors whose position ggql takes from a node other than
// a field (parse errors, operations, variable definitions, argument values, fragment spreads and
// definitions)? Only those belong to the recorded finding KF-C07-lookahead-position; a field error
// or any other message with an impossible position is a violation of its own.
func lookaheadFamily(msg string) bool {
	if strings.HasPrefix(msg, "parse error") {
		return true
	}
	for _, part := range []string{"duplicate argument ", " is not an argument to ", "fragment spread cycle", "no subscriptions resolved", " not defined for fragment ",
		"duplicate operation", " is not a valid 'if' value", "could not determine operation"} {
		if strings.Contains(msg, part) {
			return true
		}
	}
	// variable errors end in " for <variable name>" and carry no path
	if i := strings.LastIndex(msg, " for "); i > 0 && !strings.ContainsAny(msg[i+5:], " .") {
		return true
	}
	return false
}

func envelope(res map[string]interface{}, text string) (msgs []string) {
	bad := func(format string, args ...interface{}) { msgs = append(msgs, fmt.Sprintf(format, args...)) }
	if res == nil {
		bad("nil response")
		return
	}
	for k := range res {
		if k != "data" && k != "errors" {
			bad("unexpected top level key %q", k)
		}
	}
	_, hasData := res["data"]
	rawErrs, hasErrs := res["errors"]
	if !hasData && !hasErrs {
		bad("neither data nor errors")
	}
	if d, ok := res["data"]; ok && d != nil {
		if _, isMap := d.(map[string]interface{}); !isMap {
			bad("data is a %T", d)
		}
	}
	if !hasErrs {
		return
	}
	errs, ok := rawErrs.([]interface{})
	if !ok {
		bad("errors is a %T", rawErrs)
		return
	}
	if len(errs) == 0 {
		bad("errors is an empty list")
	}
	lines := strings.Split(text, "\n")
	for i, e := range errs {
		em, ok := e.(map[string]interface{})
		if !ok {
			bad("errors[%d] is a %T", i, e)
			continue
		}
		for k := range em {
			switch k {
			case "message", "locations", "path", "extensions":
			default:
				bad("errors[%d] has unexpected key %q", i, k)
			}
		}
		if m, ok := em["message"].(string); !ok || m == "" {
			bad("errors[%d].message is %#v", i, em["message"])
		}
		if p, has := em["path"]; has {
			pl, ok := p.([]interface{})
			if !ok {
				bad("errors[%d].path is a %T", i, p)
			}
			for _, el := range pl {
				switch t := el.(type) {
				case string:
				case int:
					if t < 0 {
						bad("errors[%d].path has negative index %d", i, t)
					}
				default:
					bad("errors[%d].path element is a %T", i, el)
				}
			}
		}
		if l, has := em["locations"]; has {
			ll, ok := l.([]interface{})
			if !ok || len(ll) == 0 {
				bad("errors[%d].locations is %#v", i, l)
				continue
			}
			for _, le := range ll {
				lm, ok := le.(map[string]interface{})
				if !ok {
					bad("errors[%d].locations entry is a %T", i, le)
					continue
				}
				line, lok := lm["line"].(int)
				col, cok := lm["column"].(int)
				if !lok || !cok {
					bad("errors[%d] location %#v is not a pair of ints", i, lm)
					continue
				}
				// an error about a named operation lies on a line that carries the operation's header
				// (keyword and name); asserted before anything else so that the recorded lookahead
				// finding does not cover it
				if msg, _ := em["message"].(string); strings.Contains(msg, "duplicate '") && strings.HasSuffix(msg, "' operation") {
					name := msg[strings.Index(msg, "duplicate '")+len("duplicate '") : len(msg)-len("' operation")]
					onHeader, headers := false, 0
					for li, ln := range lines {
						for _, kw := range []string{"query ", "mutation ", "subscription "} {
							if k := strings.Index(ln, kw+name); k >= 0 && name != "" && !strings.Contains(ln[:k], "#") {
								rest := ln[k+len(kw+name):]
								if rest == "" || strings.ContainsAny(rest[:1], " ({@\r\t,") {
									headers++
									onHeader = onHeader || li+1 == line
								}
							}
						}
					}
					if headers > 0 && !onHeader {
						bad("errors[%d] location line %d is not a line with the header of operation %s (message %q)", i, line, name, msg)
						continue
					}
				}
				if line < 1 || col < 1 {
					tag := ""
					if msg, _ := em["message"].(string); line >= 2 && lookaheadFamily(msg) {
						tag = " [after-newline-lookahead]"
					}
					bad("errors[%d] location line %d column %d is not positive%s (message %q)", i, line, col, tag, em["message"])
					continue
				}
				if line > len(lines) {
					tag := ""
					if msg, _ := em["message"].(string); lookaheadFamily(msg) {
						tag = " [after-newline-lookahead]"
					}
					bad("errors[%d] location line %d is beyond the %d lines of the request%s (message %q)", i, line, len(lines), tag, em["message"])
					continue
				}
				if max := len(strings.TrimSuffix(lines[line-1], "\r")) + 2; col > max {
					bad("errors[%d] location %d:%d is beyond the end of its line (%d bytes) (message %q)", i, line, col, max-2, em["message"])
				}
				// an error about a fragment definition lies on the line of that definition's header
				// (asserted when the header 'fragment NAME on' stands on one line)
				if msg, _ := em["message"].(string); strings.Contains(msg, " for fragment ") {
					name := strings.TrimSpace(msg[strings.LastIndex(msg, " for fragment ")+len(" for fragment "):])
					want := 0
					for li, ln := range lines {
						split := li > 0 && strings.HasPrefix(strings.TrimSpace(ln), name+" on ") && strings.HasPrefix(strings.TrimSpace(lines[li-1]), "fragment")
						if k := strings.Index(ln, "fragment "+name+" on "); (k >= 0 && !strings.Contains(ln[:k], "#")) || split {
							if want != 0 {
								want = -1 // written twice: ambiguous
								break
							}
							want = li + 1
						}
					}
					if want > 0 && line != want {
						bad("errors[%d] location line %d is not the line of the definition of fragment %s (line %d) (message %q)", i, line, name, want, msg)
					}
				}
			}
		}
	}
	return
}

func fixUTF8(x interface{}) interface{} {
	switch t := x.(type) {
	case string:
		return string([]rune(t))
	case []interface{}:
		out := make([]interface{}, len(t))
		for i, e := range t {
			out[i] = fixUTF8(e)
		}
		return out
	case map[string]interface{}:
		out := map[string]interface{}{}
		for k, e := range t {
			out[string([]rune(k))] = fixUTF8(e)
		}
		return out
	}
	return x
}

func fromJSON(x interface{}) interface{} {
	switch t := x.(type) {
	case json.Number:
		if i, err := t.Int64(); err == nil {
			return i
		}
		f, _ := t.Float64()
		return f
	case []interface{}:
		out := make([]interface{}, len(t))
		for i, e := range t {
			out[i] = fromJSON(e)
		}
		return out
	case map[string]interface{}:
		out := map[string]interface{}{}
		for k, e := range t {
			out[k] = fromJSON(e)
		}
		return out
	}
	return x
}

// numEq compares treating 3 and 3.0 alike (JSON has one number type).
func numEq(a, b interface{}) bool {
	switch ta := a.(type) {
	case []interface{}:
		tb, ok := b.([]interface{})
		if !ok || len(ta) != len(tb) {
			return false
		}
		for i := range ta {
			if !numEq(ta[i], tb[i]) {
				return false
			}
		}
		return true
	case map[string]interface{}:
		tb, ok := b.(map[string]interface{})
		if !ok || len(ta) != len(tb) {
			return false
		}
		for k, v := range ta {
			w, has := tb[k]
			if !has || !numEq(v, w) {
				return false
			}
		}
		return true
	case int64:
		switch tb := b.(type) {
		case int64:
			return ta == tb
		case float64:
			return float64(ta) == tb
		}
		return false
	case float64:
		switch tb := b.(type) {
		case int64:
			return ta == float64(tb)
		case float64:
			return ta == tb
		}
		return false
	}
	return a == b
}

// f32 renders float32 values the way any correct JSON writer may: as the shortest decimal that
// identifies the float32 (compared after reading that decimal back).
func f32(x interface{}) interface{} {
	switch t := x.(type) {
	case float32:
		f, _ := strconv.ParseFloat(strconv.FormatFloat(float64(t), 'g', -1, 32), 64)
		return f
	case []interface{}:
		out := make([]interface{}, len(t))
		for i, e := range t {
			out[i] = f32(e)
		}
		return out
	case map[string]interface{}:
		out := map[string]interface{}{}
		for k, e := range t {
			out[k] = f32(e)
		}
		return out
	case time.Time:
		return t.Format(time.RFC3339Nano) // (written as the text of the time, whatever its year)
	case nil, string, bool, int, int8, int16, int32, int64, uint, uint8, uint16, uint32, uint64, float64, ggql.Symbol, ggql.Var:
		return x
	}
	// a value of some other Go type (in an error's extensions, say) is written as the text it prints as
	return fmt.Sprint(x)
}

func jsonChecks(res map[string]interface{}) (msgs []string) {
	want := fixUTF8(hx.Norm(f32(res)))
	for _, indent := range []int{-1, 0, 2, 9} {
		var b bytes.Buffer
		if err := ggql.WriteJSONValue(&b, res, indent); err != nil {
			msgs = append(msgs, fmt.Sprintf("WriteJSONValue(indent %d) error: %v", indent, err))
			continue
		}
		dec := json.NewDecoder(bytes.NewReader(b.Bytes()))
		dec.UseNumber()
		var got interface{}
		if err := dec.Decode(&got); err != nil {
			msgs = append(msgs, fmt.Sprintf("JSON (indent %d) rejected by encoding/json: %v\n%s", indent, err, hx.Trunc(b.String(), 600)))
			continue
		}
		if g := fromJSON(got); !numEq(want, g) {
			msgs = append(msgs, fmt.Sprintf("JSON (indent %d) decodes to a different structure:\n got %s\nwant %s", indent, hx.Show(g), hx.Show(want)))
		}
	}
	return
}

func errPathsOf(res map[string]interface{}) []string {
	paths, _, _ := actualErrors(res)
	var out []string
	for _, p := range paths {
		out = append(out, hx.PathString(p))
	}
	sort.Strings(out)
	return out
}

func checkC07(cc *c07Case) (ds []hx.Discrepancy, info map[string]bool, res map[string]interface{}) {
	info = map[string]bool{}
	add := func(kind, sig, format string, args ...interface{}) {
		ds = append(ds, hx.Discrepancy{Kind: kind, Sig: sig, Detail: fmt.Sprintf(format, args...)})
	}
	c := cc.Case
	w, err := NewWorld(c)
	if err != nil {
		add("setup", "", "%v", err)
		return
	}
	var rend *hx.Rendered
	text := cc.Mutated
	if text == "" {
		rend = c.Doc.Render(c.Layout)
		text = rend.Text
	}
	run := func(txt string) (map[string]interface{}, interface{}) {
		var pan interface{}
		var r map[string]interface{}
		func() {
			defer func() {
				if x := recover(); x != nil {
					pan = x
				}
			}()
			r = w.Root.ResolveString(txt, c.Op, c.GoVars())
		}()
		return r, pan
	}
	res, pan := run(text)
	ctx := func() string {
		return fmt.Sprintf("\nmode=%s strategy=%s layout=%+v op=%q vars=%v faults=%+v\nrequest: %q\nresponse: %s", cc.Mode, stratName(c), c.Layout, c.Op, c.GoVars(), c.Faults, text, hx.Trunc(hx.Show(hx.Norm(res)), 1500))
	}
	if pan != nil {
		if cc.Mode == "malformed" || cc.Mode == "badvars" {
			info["panic(C03 territory)"] = true // crashes on malformed input are C03's findings
			return
		}
		add("panic", "", "ResolveString panicked: %v%s", pan, ctx())
		return
	}
	for _, m := range envelope(res, text) {
		sig := ""
		if strings.Contains(m, "[after-newline-lookahead]") {
			sig = "KF-C07-lookahead-position"
			if f := os.Getenv("C07_DUMP_KF"); f != "" {
				if fh, err := os.OpenFile(f, os.O_APPEND|os.O_CREATE|os.O_WRONLY, 0o644); err == nil {
					fmt.Fprintln(fh, m)
					fh.Close()
				}
			}
		}
		add("envelope", sig, "%s%s", m, ctx())
	}
	if _, has := res["errors"]; has {
		info["has-errors"] = true
	}
	// rejected before execution => no data or null data
	if _, perr := w.Root.ParseExecutableString(text); perr != nil {
		info["rejected-before-execution"] = true
		if d, has := res["data"]; has && d != nil {
			add("data-after-rejection", "", "the request does not parse/validate (%v) but the response carries data%s", perr, ctx())
		}
	}
	for _, m := range jsonChecks(res) {
		add("json", "", "%s%s", m, ctx())
	}
	if rend == nil {
		return
	}
	// error locations of field failures lie on the lines of the field's own tokens
	x := &hx.Exec{S: c.Schema, G: c.Graph, D: c.Doc, Faults: c.Faults, Echo: c.Echo}
	exp := x.Run(c.Op, c.VarMap())
	if cc.Mode == "valid" || cc.Mode == "faults" {
		spans := map[string][]hx.Span{}
		for _, e := range exp.Errors {
			spans[hx.PathString(e.Path)] = append(spans[hx.PathString(e.Path)], rend.Spans[e.Sel])
		}
		if errs, ok := res["errors"].([]interface{}); ok {
			for _, e := range errs {
				em, _ := e.(map[string]interface{})
				pl, _ := em["path"].([]interface{})
				var clean []interface{}
				for _, el := range pl {
					if s, ok := el.(string); ok && fragElem.MatchString(s) {
						continue
					}
					clean = append(clean, el)
				}
				sp, known := spans[hx.PathString(clean)]
				ll, _ := em["locations"].([]interface{})
				if !known || len(ll) == 0 {
					continue
				}
				lm, _ := ll[0].(map[string]interface{})
				line, _ := lm["line"].(int)
				okLine := false
				for _, s := range sp {
					if line >= s.Line && line <= s.EndLine {
						okLine = true
					}
				}
				info["located-field-error"] = true
				if c.Layout.Mode != "single" {
					info["located-field-error-multiline"] = true
				}
				if !okLine {
					add("location-off-field", "", "error for path %s is located on line %d but the field's tokens occupy %+v (message %q)%s", hx.PathString(clean), line, sp, em["message"], ctx())
				}
			}
		}
	}
	// metamorphic: another layout of the same document gives the same data and error paths
	if cc.Mode != "malformed" {
		w2, err := NewWorld(c)
		if err != nil {
			add("setup", "", "%v", err)
			return
		}
		text2 := c.Doc.Render(cc.Layout2).Text
		var res2 map[string]interface{}
		var pan2 interface{}
		func() {
			defer func() {
				if x := recover(); x != nil {
					pan2 = x
				}
			}()
			res2 = w2.Root.ResolveString(text2, c.Op, c.GoVars())
		}()
		if pan2 != nil {
			add("panic", "", "ResolveString panicked on the second layout: %v\n%q", pan2, text2)
			return
		}
		if !hx.Equal(hx.Norm(res["data"]), hx.Norm(res2["data"])) {
			add("layout-changes-data", "", "layouts %+v and %+v give different data:\n%s\n%s\n%q\n%q", c.Layout, cc.Layout2, hx.Show(hx.Norm(res["data"])), hx.Show(hx.Norm(res2["data"])), text, text2)
		}
		p1, p2 := errPathsOf(res), errPathsOf(res2)
		if strings.Join(p1, "|") != strings.Join(p2, "|") {
			add("layout-changes-errors", "", "layouts %+v and %+v give different error paths:\n%v\n%v\n%q\n%q", c.Layout, cc.Layout2, p1, p2, text, text2)
		}
		for _, m := range envelope(res2, text2) {
			sig := ""
			if strings.Contains(m, "[after-newline-lookahead]") {
				sig = "KF-C07-lookahead-position"
			}
			add("envelope", sig, "(second layout) %s\nrequest: %q\nresponse: %s", m, text2, hx.Trunc(hx.Show(hx.Norm(res2)), 1200))
		}
	}
	return
}

func TestC07(t *testing.T) {
	run := hx.NewRun("C07")
	defer run.Flush()
	classes := func(cc *c07Case, info map[string]bool) (bool, []string) {
		cl := []string{"mode=" + cc.Mode, "layout=" + cc.Layout.Mode, "strategy=" + stratName(cc.Case)}
		if cc.Layout.CRLF {
			cl = append(cl, "crlf")
		}
		if cc.Layout.Comments {
			cl = append(cl, "comments")
		}
		if cc.Layout.Commas {
			cl = append(cl, "commas")
		}
		if cc.Layout.BOM {
			cl = append(cl, "bom")
		}
		for k := range info {
			cl = append(cl, k)
		}
		return info["has-errors"] && cc.Layout.Mode != "single", cl
	}
	if f := hx.Replaying(); f != "" {
		var cc c07Case
		if err := hx.LoadCase(f, &cc); err != nil {
			t.Fatalf("load %s: %v", f, err)
		}
		ds, info, _ := checkC07(&cc)
		nt, cl := classes(&cc, info)
		run.Case(hx.Hash(&cc), nt, cl...)
		real := run.Triage(ds)
		for _, d := range ds {
			if d.Sig != "" {
				fmt.Printf("REPLAY-KNOWN sig=%s %s\n", d.Sig, hx.Trunc(d.Detail, 400))
			}
		}
		if len(real) > 0 {
			t.Fatalf("REPLAY-FAIL %s", run.ReportFailure(&cc, real))
		}
		return
	}
	rapid.Check(t, func(rt *rapid.T) {
		cc := genCaseC07(rt)
		ds, info, res := checkC07(cc)
		nt, cl := classes(cc, info)
		run.Case(hx.Hash(cc), nt, cl...)
		run.Sample(func() interface{} {
			text := cc.Mutated
			if text == "" {
				text = cc.Doc.Render(cc.Layout).Text
			}
			return map[string]interface{}{"mode": cc.Mode, "request": hx.Trunc(text, 500), "response": hx.Trunc(hx.Show(hx.Norm(res)), 500)}
		})
		if real := run.Triage(ds); len(real) > 0 {
			rt.Fatalf("C07 violated: %s", run.ReportFailure(cc, real))
		}
	})
}
