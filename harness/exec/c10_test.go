package exec

import (
	"fmt"
	"github.com/uhn/ggql/pkg/ggql"
	"strings"
	"testing"

	"pgregory.net/rapid"

	"verifharness/hx"
)

type setRef struct {
	sels  *[]*hx.Sel
	con   string
	depth int
	via   string // how the set is reached: root | field | inline | fragment
}

func collectSets(d *hx.Doc, s *hx.Schema, op *hx.Op) []setRef {
	var out []setRef
	seen := map[string]bool{}
	var walk func(sels *[]*hx.Sel, con string, depth int, via string)
	walk = func(sels *[]*hx.Sel, con string, depth int, via string) {
		out = append(out, setRef{sels, con, depth, via})
		for _, sel := range *sels {
			switch sel.Kind {
			case "field":
				if td := s.Type(con); td != nil {
					if fd := td.Field(sel.Name); fd != nil && len(sel.Sels) > 0 {
						walk(&sel.Sels, fd.Type.BaseName(), depth+1, "field")
					}
				}
			case "inline":
				c := con
				if sel.On != "" {
					c = sel.On
				}
				walk(&sel.Sels, c, depth, "inline")
			case "spread":
				if f := d.Frag(sel.Name); f != nil && !seen[f.Name] {
					seen[f.Name] = true
					walk(&f.Sels, f.On, depth, "fragment")
				}
			}
		}
	}
	root := "Query"
	if op.Type == "mutation" {
		root = "Mutation"
	}
	walk(&op.Sels, root, 1, "root")
	return out
}

var defectKinds = []string{"unknown-field", "undeclared-arg", "omitted-required-arg", "unknown-directive", "misplaced-directive", "undeclared-directive-arg", "omitted-required-directive-arg", "undefined-condition-inline", "undefined-condition-fragment"}

// Defect describes the injected defect (kept in Case.Note as text, and here for the oracle).
type Defect struct {
	// ViaVar: the required argument is written as a variable without a value
	ViaVar   bool
	Kind     string
	Name     string // undefined field / argument / directive / type name
	Key      string // response key of the defective selection ("" if it has none)
	Con      string // container type
	ConKind  string
	Depth    int
	Rejected bool // ggql may reject the whole document for this kind
	Borrowed bool // unknown-field whose name is defined by some other type
	KeyTaken bool // an earlier, valid selection of the same set has the same response key
}

func pick0(t *rapid.T, n int, label string) int { return rapid.IntRange(0, n-1).Draw(t, label) }

func insertAt(t *rapid.T, set *[]*hx.Sel, s *hx.Sel) {
	i := rapid.IntRange(0, len(*set)).Draw(t, "insertAt")
	ns := append([]*hx.Sel{}, (*set)[:i]...)
	ns = append(ns, s)
	ns = append(ns, (*set)[i:]...)
	*set = ns
}

func leafSel(s *hx.Schema, con string) []*hx.Sel {
	return []*hx.Sel{{Kind: "field", Name: "__typename"}}
}

// inject adds exactly one defective selection to the document. ok=false if the kind is not applicable.
func inject(t *rapid.T, c *Case, kind string) (df Defect, ok bool) {
	s := c.Schema
	op := hx.ChooseOp(c.Doc, c.Op)
	sets := collectSets(c.Doc, s, op)
	df.Kind = kind
	reachedSel := (&hx.Exec{S: s, G: c.Graph, D: c.Doc, Echo: c.Echo}).Run(c.Op, c.VarMap()).Seen
	pickSet := func(filter func(setRef) bool) (setRef, bool) {
		var cand []setRef
		for _, sr := range sets {
			if s.KindOf(sr.con) == hx.KUnion && kind != "undefined-condition-inline" && kind != "unknown-directive" && kind != "misplaced-directive" {
				continue // a union has no fields of its own
			}
			if filter == nil || filter(sr) {
				cand = append(cand, sr)
			}
		}
		if len(cand) == 0 {
			return setRef{}, false
		}
		// where the request has selection sets on interfaces or unions, they are chosen often (they
		// are few next to those on objects)
		var abstract []setRef
		for _, sr := range cand {
			if k := s.KindOf(sr.con); k == hx.KInterface || k == hx.KUnion {
				abstract = append(abstract, sr)
			}
		}
		if len(abstract) > 0 && rapid.Bool().Draw(t, "preferAbstractContainer") {
			cand = abstract
		}
		// mostly choose a selection set that execution actually reaches (the lazy-validation finding
		// would otherwise dominate)
		var hot []setRef
		for _, sr := range cand {
			for _, sel := range *sr.sels {
				if reachedSel[sel.ID] > 0 {
					hot = append(hot, sr)
					break
				}
			}
		}
		if len(hot) > 0 && rapid.IntRange(0, 9).Draw(t, "preferReached") != 0 {
			return rapid.SampledFrom(hot).Draw(t, "set"), true
		}
		return rapid.SampledFrom(cand).Draw(t, "set"), true
	}
	fieldsWith := func(con string, pred func(*hx.Field) bool) []*hx.Field {
		var out []*hx.Field
		if td := s.Type(con); td != nil {
			for _, f := range td.Fields {
				if pred(f) {
					out = append(out, f)
				}
			}
		}
		return out
	}
	mkFieldSel := func(fd *hx.Field) *hx.Sel {
		sel := &hx.Sel{Kind: "field", Alias: "dfct", Name: fd.Name}
		if s.IsComposite(fd.Type.BaseName()) {
			sel.Sels = leafSel(s, fd.Type.BaseName())
		}
		return sel
	}
	var twinSet *[]*hx.Sel // where the defective field went (its response key may be taken already)
	switch kind {
	case "unknown-field":
		sr, found := pickSet(nil)
		if !found {
			return df, false
		}
		df.Name = rapid.SampledFrom([]string{"zzz", "nope", "A", "__nope"}).Draw(t, "badName")
		sel := &hx.Sel{Kind: "field", Alias: "dfct", Name: df.Name}
		if rapid.Bool().Draw(t, "badSub") {
			sel.Sels = []*hx.Sel{{Kind: "field", Name: "__typename"}}
		}
		// or: a name that some other type does define (for an abstract container: a field of one
		// implementer that another implementer lacks)
		if rapid.Bool().Draw(t, "borrowName") {
			var cands []*hx.Field
			for _, td := range s.Types {
				if td.Kind != hx.KObject || td.Name == sr.con {
					continue
				}
				for _, f := range td.Fields {
					if ct := s.Type(sr.con); ct != nil && ct.Field(f.Name) == nil && len(f.Args) == 0 {
						cands = append(cands, f)
					}
				}
			}
			if len(cands) > 0 {
				bf := cands[pick0(t, len(cands), "borrowed")]
				df.Name, sel.Name, sel.Sels = bf.Name, bf.Name, nil
				if s.IsComposite(bf.Type.BaseName()) {
					sel.Sels = []*hx.Sel{{Kind: "field", Name: "__typename"}}
				}
				df.Borrowed = true
			}
		}
		insertAt(t, sr.sels, sel)
		df.Key, df.Con, df.Depth = "dfct", sr.con, sr.depth
		twinSet = sr.sels
	case "undeclared-arg":
		sr, found := pickSet(func(sr setRef) bool { return len(fieldsWith(sr.con, func(*hx.Field) bool { return true })) > 0 })
		if !found {
			return df, false
		}
		fd := rapid.SampledFrom(fieldsWith(sr.con, func(*hx.Field) bool { return true })).Draw(t, "fd")
		sel := mkFieldSel(fd)
		df.Name = "zzz"
		// declared optional arguments are sometimes given too, sometimes left out (so that the number
		// of written arguments may equal the number of declared ones)
		for _, a := range fd.Args {
			if a.Type.NonNull || rapid.Bool().Draw(t, "give"+a.Name) {
				g := &docGen{t: t, s: s, vars: map[string]*hx.VarDef{}, vals: map[string]hx.Val{}}
				sel.Args = append(sel.Args, hx.KV{Key: a.Name, V: g.genArgLiteral(a.Type, "da"+a.Name, false)})
			}
		}
		// (whatever is written for it - a null too - the argument is one the field does not declare)
		bad := hx.KV{Key: "zzz", V: rapid.SampledFrom([]hx.Val{hx.I64(1), hx.Nil(), hx.Str("x"), hx.Bool(false), hx.List(), hx.Nil()}).Draw(t, "undeclaredArgValue")}
		pos := rapid.IntRange(0, len(sel.Args)).Draw(t, "argPos")
		args := append([]hx.KV{}, sel.Args[:pos]...)
		args = append(args, bad)
		sel.Args = append(args, sel.Args[pos:]...)
		insertAt(t, sr.sels, sel)
		df.Key, df.Con, df.Depth = "dfct", sr.con, sr.depth
		twinSet = sr.sels
	case "omitted-required-arg":
		req := func(f *hx.Field) bool {
			for _, a := range f.Args {
				if a.Type.NonNull {
					return true
				}
			}
			return false
		}
		sr, found := pickSet(func(sr setRef) bool { return len(fieldsWith(sr.con, req)) > 0 })
		if !found {
			return df, false
		}
		fd := rapid.SampledFrom(fieldsWith(sr.con, req)).Draw(t, "fd")
		sel := mkFieldSel(fd)
		omitted := false
		for _, a := range fd.Args {
			if a.Type.NonNull && !omitted {
				omitted = true
				df.Name = a.Name
				switch rapid.IntRange(0, 5).Draw(t, "explicitNull") {
				case 0, 1:
					sel.Args = append(sel.Args, hx.KV{Key: a.Name, V: hx.Nil()})
				case 2, 3:
					// written, but as a variable that has no value (nullable, no default, not supplied)
					// or was supplied as null: nothing is given for the argument
					for _, o := range c.Doc.Ops {
						o.Vars = append(o.Vars, &hx.VarDef{Name: "dfu", Type: a.Type.Nullable()})
						o.Anon = false
					}
					if rapid.Bool().Draw(t, "nullSupplied") {
						c.Vars = append(c.Vars, hx.KV{Key: "dfu", V: hx.Nil()})
					}
					sel.Args = append(sel.Args, hx.KV{Key: a.Name, V: hx.VarV("dfu")})
					df.ViaVar = true
				}
				continue
			}
			if a.Type.NonNull || rapid.Bool().Draw(t, "give"+a.Name) {
				g := &docGen{t: t, s: s, vars: map[string]*hx.VarDef{}, vals: map[string]hx.Val{}}
				sel.Args = append(sel.Args, hx.KV{Key: a.Name, V: g.genArgLiteral(a.Type, "da"+a.Name, false)})
			}
		}
		insertAt(t, sr.sels, sel)
		df.Key, df.Con, df.Depth = "dfct", sr.con, sr.depth
		twinSet = sr.sels
	case "unknown-directive", "misplaced-directive":
		sr, found := pickSet(nil)
		if !found {
			return df, false
		}
		var du hx.DirUse
		if kind == "unknown-directive" {
			df.Name = rapid.SampledFrom([]string{"nope", "Skip", "String", "T0"}).Draw(t, "badDir")
			du = hx.DirUse{Name: df.Name}
			if rapid.Bool().Draw(t, "badDirArgs") {
				du.Args = []hx.KV{{Key: "if", V: hx.Bool(false)}}
			}
		} else {
			which := rapid.SampledFrom([]string{"deprecated", "go", "onquery"}).Draw(t, "misDir")
			df.Name = which
			du = hx.DirUse{Name: which}
			if which == "go" {
				du.Args = []hx.KV{{Key: "type", V: hx.Str("X")}}
			}
		}
		// where: a new field / inline fragment / spread inside the set, or (misplaced only) the operation itself
		where := rapid.IntRange(0, 4).Draw(t, "dirWhere")
		switch {
		case where == 4 && len(c.Doc.Frags) > 0:
			// on the definition of a named fragment (which may be written before or after its spreads)
			fr := c.Doc.Frags[pick0(t, len(c.Doc.Frags), "dirFrag")]
			if kind == "misplaced-directive" && rapid.Bool().Draw(t, "skipOnFragDef") {
				du = hx.DirUse{Name: "skip", Args: []hx.KV{{Key: "if", V: hx.Bool(false)}}}
				df.Name = "skip"
			}
			fr.Dirs = append(fr.Dirs, du)
			sr = sets[0]
		case where == 0 && s.KindOf(sr.con) != hx.KUnion:
			insertAt(t, sr.sels, &hx.Sel{Kind: "field", Alias: "dfct", Name: "__typename", Dirs: []hx.DirUse{du}})
			df.Key = "dfct"
		case where == 1 && len(c.Doc.Frags) > 0:
			// spread an existing fragment from the operation's own selection set (never from inside a
			// fragment: that could close a spread cycle, which is a different defect)
			insertAt(t, sets[0].sels, &hx.Sel{Kind: "spread", Name: c.Doc.Frags[0].Name, Dirs: []hx.DirUse{du}})
			sr = sets[0]
		case where == 2 && kind == "misplaced-directive" && du.Name == "deprecated": // @go and @onquery are legal on an operation
			op.Dirs = append(op.Dirs, du)
			op.Anon = false
		default:
			insertAt(t, sr.sels, &hx.Sel{Kind: "inline", Dirs: []hx.DirUse{du}, Sels: []*hx.Sel{{Kind: "field", Alias: "dfct", Name: "__typename"}}})
			df.Key = "dfct"
		}
		df.Con, df.Depth, df.Rejected = sr.con, sr.depth, true
	case "undeclared-directive-arg":
		// a declared directive at a legal place, its declared arguments satisfied, plus an argument the
		// directive does not declare - written as a literal or as a (declared) variable
		sr, found := pickSet(nil)
		if !found {
			return df, false
		}
		df.Name = "zzz"
		which := rapid.SampledFrom([]string{"include", "skip", "onfield", "plain"}).Draw(t, "udaDir")
		du := hx.DirUse{Name: which}
		switch which {
		case "include":
			du.Args = []hx.KV{{Key: "if", V: hx.Bool(true)}}
		case "skip":
			du.Args = []hx.KV{{Key: "if", V: hx.Bool(false)}}
		case "onfield":
			if rapid.Bool().Draw(t, "udaGiveOptional") {
				du.Args = []hx.KV{{Key: "level", V: hx.I64(2)}}
			}
		}
		bad := hx.KV{Key: "zzz", V: hx.Bool(true)}
		dvDefault := hx.Bool(true)
		switch rapid.IntRange(0, 2).Draw(t, "udaValue") {
		case 1:
			op.Vars = append(op.Vars, &hx.VarDef{Name: "dv", Type: hx.Named("Boolean"), Default: &dvDefault})
			op.Anon = false
			bad.V = hx.VarV("dv")
		case 2:
			bad.V = hx.Nil()
		}
		pos := rapid.IntRange(0, len(du.Args)).Draw(t, "argPos")
		args := append([]hx.KV{}, du.Args[:pos]...)
		args = append(args, bad)
		du.Args = append(args, du.Args[pos:]...)
		fds := fieldsWith(sr.con, func(*hx.Field) bool { return true })
		where := rapid.IntRange(0, 2).Draw(t, "dirWhere")
		switch {
		case where == 0 && len(fds) > 0:
			fd := rapid.SampledFrom(fds).Draw(t, "fd")
			sel := mkFieldSel(fd)
			for _, a := range fd.Args {
				if a.Type.NonNull {
					g := &docGen{t: t, s: s, vars: map[string]*hx.VarDef{}, vals: map[string]hx.Val{}}
					sel.Args = append(sel.Args, hx.KV{Key: a.Name, V: g.genArgLiteral(a.Type, "da"+a.Name, false)})
				}
			}
			sel.Dirs = []hx.DirUse{du}
			insertAt(t, sr.sels, sel)
		case where == 1 && which != "onfield":
			insertAt(t, sr.sels, &hx.Sel{Kind: "inline", Dirs: []hx.DirUse{du}, Sels: []*hx.Sel{{Kind: "field", Alias: "dfct", Name: "__typename"}}})
		default:
			if s.KindOf(sr.con) == hx.KUnion {
				return df, false
			}
			insertAt(t, sr.sels, &hx.Sel{Kind: "field", Alias: "dfct", Name: "__typename", Dirs: []hx.DirUse{du}})
		}
		df.Key, df.Con, df.Depth, df.Rejected = "dfct", sr.con, sr.depth, true
	case "omitted-required-directive-arg":
		// a declared directive at a legal place whose required argument is not written at all
		sr, found := pickSet(nil)
		if !found {
			return df, false
		}
		which := rapid.SampledFrom([]string{"include", "skip", "need"}).Draw(t, "ordaDir")
		df.Name = map[string]string{"include": "if", "skip": "if", "need": "level"}[which]
		du := hx.DirUse{Name: which}
		if which == "need" && rapid.Bool().Draw(t, "ordaGiveOptional") {
			du.Args = []hx.KV{{Key: "note", V: hx.Str("n")}}
		}
		fds := fieldsWith(sr.con, func(*hx.Field) bool { return true })
		where := rapid.IntRange(0, 2).Draw(t, "dirWhere")
		switch {
		case where == 0 && len(fds) > 0:
			fd := rapid.SampledFrom(fds).Draw(t, "fd")
			sel := mkFieldSel(fd)
			for _, a := range fd.Args {
				if a.Type.NonNull {
					g := &docGen{t: t, s: s, vars: map[string]*hx.VarDef{}, vals: map[string]hx.Val{}}
					sel.Args = append(sel.Args, hx.KV{Key: a.Name, V: g.genArgLiteral(a.Type, "da"+a.Name, false)})
				}
			}
			sel.Dirs = []hx.DirUse{du}
			insertAt(t, sr.sels, sel)
		case where == 1:
			insertAt(t, sr.sels, &hx.Sel{Kind: "inline", Dirs: []hx.DirUse{du}, Sels: []*hx.Sel{{Kind: "field", Alias: "dfct", Name: "__typename"}}})
		default:
			if s.KindOf(sr.con) == hx.KUnion {
				return df, false
			}
			insertAt(t, sr.sels, &hx.Sel{Kind: "field", Alias: "dfct", Name: "__typename", Dirs: []hx.DirUse{du}})
		}
		df.Key, df.Con, df.Depth, df.Rejected = "dfct", sr.con, sr.depth, true
	case "undefined-condition-inline":
		sr, found := pickSet(nil)
		if !found {
			return df, false
		}
		// (a directive is not a type, whatever it is called)
		df.Name = rapid.SampledFrom([]string{"Nope", "T9", "query", "Nope!", "[Nope]", "skip", "include", "deprecated", "onquery", "onfield"}).Draw(t, "badType")
		insertAt(t, sr.sels, &hx.Sel{Kind: "inline", On: df.Name, Sels: []*hx.Sel{{Kind: "field", Alias: "dfct", Name: "__typename"}}})
		df.Key, df.Con, df.Depth, df.Rejected = "dfct", sr.con, sr.depth, true
	case "undefined-condition-fragment":
		sr, found := pickSet(nil)
		if !found {
			return df, false
		}
		df.Name = rapid.SampledFrom([]string{"Nope", "T9", "Nope!", "[T9]", "skip", "deprecated", "go", "onfield"}).Draw(t, "badType")
		c.Doc.Frags = append(c.Doc.Frags, &hx.Frag{Name: "FBad", On: df.Name, Sels: []*hx.Sel{{Kind: "field", Alias: "dfct", Name: "__typename"}}})
		if len(c.Doc.Order) > 0 {
			pos := rapid.IntRange(0, len(c.Doc.Order)).Draw(t, "fragPos")
			ord := append([]string{}, c.Doc.Order[:pos]...)
			ord = append(ord, fmt.Sprintf("f%d", len(c.Doc.Frags)-1))
			c.Doc.Order = append(ord, c.Doc.Order[pos:]...)
		}
		insertAt(t, sr.sels, &hx.Sel{Kind: "spread", Name: "FBad"})
		df.Key, df.Con, df.Depth, df.Rejected = "dfct", sr.con, sr.depth, true
	}
	if twinSet != nil && rapid.IntRange(0, 3).Draw(t, "keyTakenBefore") == 0 {
		// the response key of the defective selection was selected before, validly (a meta field: no
		// resolver of the application is involved)
		*twinSet = append([]*hx.Sel{{Kind: "field", Alias: "dfct", Name: "__typename"}}, *twinSet...)
		df.KeyTaken = true
	}
	df.ConKind = s.KindOf(df.Con)
	if df.Con == "Query" || df.Con == "Mutation" {
		df.ConKind = "root-operation-type"
	}
	c.Doc.Number()
	return df, true
}

type c10Case struct {
	*Case
	Base   *Case  `json:"base"` // the defect-free request
	Defect Defect `json:"defect"`
	// Meta: the case is of the second scenario (see c10Meta); Case and Base are nil then
	Meta *c10Meta `json:"meta,omitempty"`
}

// c10Meta: the meta fields __schema and __type are fields of the query root only. The schema names
// its query type in a schema block (Root) and has an ordinary object type called Query; the request
// selects a meta field at the root (defined there) or below it (not defined there).
type c10Meta struct {
	Path  []string `json:"path"` // fields from the root down to the container: "q" (Root.q: Query), then "sub" (Query.sub: Query)
	Field string   `json:"field"`
	Alias string   `json:"alias,omitempty"`
	Strat string   `json:"strategy"` // R | X
	// BadArg: the meta field (at the root, where it is defined) is written with an argument it does
	// not declare - instead of, or next to, its own
	BadArg bool `json:"bad_arg,omitempty"`
	// Sub: the request is a subscription whose root selection is defective (Field holds it)
	Sub bool `json:"sub,omitempty"`
	// Borrow (1: cat first, 2: dog first): another small schema - interface Pet { name }, C10PetCat
	// declares name(loud: Boolean), C10PetDog declares name without arguments; the request selects
	// name(loud: true) on the members of a [Pet] list holding one of each
	Borrow int `json:"borrow,omitempty"`
}

const c10BorrowSDL = `type Query { pets: [Pet] }
interface Pet { name: String }
type C10PetCat implements Pet { name(loud: Boolean): String }
type C10PetDog implements Pet { name: String }
`

// C10PetCat / C10PetDog are bound to the object types of their names.
type C10PetCat struct{ calls *[]string }
type C10PetDog struct{ calls *[]string }

func (c *C10PetCat) Resolve(field *ggql.Field, args map[string]interface{}) (interface{}, error) {
	*c.calls = append(*c.calls, fmt.Sprintf("C10PetCat.%s%v", field.Name, args))
	return "cat", nil
}
func (d *C10PetDog) Resolve(field *ggql.Field, args map[string]interface{}) (interface{}, error) {
	*d.calls = append(*d.calls, fmt.Sprintf("C10PetDog.%s%v", field.Name, args))
	return "dog", nil
}

type c10BorrowRoot struct {
	order int
	calls *[]string
}

func (r *c10BorrowRoot) Resolve(field *ggql.Field, args map[string]interface{}) (interface{}, error) {
	switch field.Name {
	case "query":
		return r, nil
	case "pets":
		cat, dog := &C10PetCat{calls: r.calls}, &C10PetDog{calls: r.calls}
		if r.order == 1 {
			return []interface{}{cat, dog}, nil
		}
		return []interface{}{dog, cat, dog}, nil
	}
	return nil, nil
}

func checkC10Borrow(m *c10Meta) (ds []hx.Discrepancy, res map[string]interface{}) {
	var calls []string
	root := ggql.NewRoot(&c10BorrowRoot{order: m.Borrow, calls: &calls})
	if err := root.ParseString(c10BorrowSDL); err != nil {
		return []hx.Discrepancy{{Kind: "setup", Detail: err.Error()}}, nil
	}
	text := `{ pets { name(loud: true) } }`
	func() {
		defer func() { _ = recover() }()
		res = root.ResolveString(text, "", nil)
	}()
	ctx := fmt.Sprintf("\nschema:\n%srequest: %s (the list holds %s)\nresolver calls: %v\nresponse: %s", c10BorrowSDL, text, map[int]string{1: "a cat, then a dog", 2: "a dog, a cat, a dog"}[m.Borrow], calls, hx.Show(hx.Norm(res)))
	for _, c := range calls {
		if strings.HasPrefix(c, "C10PetDog.name") && strings.Contains(c, "loud") {
			ds = append(ds, hx.Discrepancy{Kind: "resolver-invoked", Detail: "C10PetDog.name declares no argument loud, yet its resolver was invoked with it (the argument was checked against the type of the first member only)" + ctx})
			return
		}
	}
	if errs, _ := res["errors"].([]interface{}); len(errs) == 0 {
		ds = append(ds, hx.Discrepancy{Kind: "no-error", Detail: "an argument one member's type does not declare produced no error" + ctx})
	}
	return
}

const c10MetaSDL = `schema { query: Root subscription: Feed }
type Root { a: Int q: Query }
type Query { a: Int sub: Query }
type Feed { ev(id: String!): Query }
`

type c10MetaNode struct {
	depth int
	calls *[]string
}

func (n *c10MetaNode) Resolve(field *ggql.Field, args map[string]interface{}) (interface{}, error) {
	*n.calls = append(*n.calls, field.Name)
	switch field.Name {
	case "a":
		return 7, nil
	case "query", "q", "sub":
		if n.depth > 6 {
			return nil, nil
		}
		return &c10MetaNode{depth: n.depth + 1, calls: n.calls}, nil
	}
	return "POISON:resolver-asked-for-" + field.Name, nil
}

type c10MetaX struct {
	A     int
	Q     *c10MetaX
	Sub   *c10MetaX
	Query *c10MetaX
}

func genC10Meta(t *rapid.T) *c10Meta {
	m := &c10Meta{Strat: rapid.SampledFrom([]string{"R", "X"}).Draw(t, "metaStrategy")}
	depth := rapid.IntRange(0, 3).Draw(t, "metaDepth")
	for i := 0; i < depth; i++ {
		if i == 0 {
			m.Path = append(m.Path, "q")
		} else {
			m.Path = append(m.Path, "sub")
		}
	}
	m.Field = rapid.SampledFrom([]string{`__schema { queryType { name } }`, `__type(name: "Query") { name kind }`, `__type(name: "Root") { name }`, `__schema { types { name } }`}).Draw(t, "metaField")
	m.Alias = rapid.SampledFrom([]string{"", "m", "a2"}).Draw(t, "metaAlias")
	switch rapid.IntRange(0, 5).Draw(t, "metaVariant") {
	case 0:
		// an argument the meta field does not declare (alone, or next to the declared one)
		m.Path, m.BadArg = nil, true
		m.Field = rapid.SampledFrom([]string{`__type(foo: "Query") { name }`, `__type(name: "Query", foo: 1) { name }`, `__schema(x: 1) { queryType { name } }`, `__type(nam: "Root") { kind }`}).Draw(t, "metaBadArg")
	case 2:
		m.Path, m.Borrow = nil, rapid.IntRange(1, 2).Draw(t, "borrowOrder")
	case 1:
		// a subscription whose root selection is defective: the error has to come back here too
		m.Path, m.Sub = nil, true
		m.Field = rapid.SampledFrom([]string{`nope`, `ev { a }`, `ev(id: "a", zzz: 1) { a }`, `ev(id: "a") { nope }`, `ev(id: null) { a }`}).Draw(t, "subDefect")
	}
	return m
}

func checkC10Meta(m *c10Meta) (ds []hx.Discrepancy, res map[string]interface{}) {
	if m.Borrow > 0 {
		return checkC10Borrow(m)
	}
	add := func(kind, format string, args ...interface{}) {
		ds = append(ds, hx.Discrepancy{Kind: kind, Detail: fmt.Sprintf(format, args...)})
	}
	ggql.Sort = true
	var calls []string
	var root *ggql.Root
	if m.Strat == "R" {
		root = ggql.NewRoot(&c10MetaNode{calls: &calls})
	} else {
		leaf := &c10MetaX{A: 7}
		mid := &c10MetaX{A: 7, Sub: &c10MetaX{A: 7, Sub: leaf}}
		top := &c10MetaX{A: 7, Q: mid}
		root = ggql.NewRoot(&c10MetaX{Query: top})
	}
	if err := root.ParseString(c10MetaSDL); err != nil {
		add("setup", "%v", err)
		return
	}
	sel := m.Field
	key := m.Field
	if i := strings.IndexAny(m.Field, " ("); i >= 0 {
		key = m.Field[:i]
	}
	if m.Alias != "" {
		sel, key = m.Alias+": "+sel, m.Alias
	}
	text := "a " + sel
	for i := len(m.Path) - 1; i >= 0; i-- {
		text = "a " + m.Path[i] + " { " + text + " }"
	}
	text = "{ " + text + " }"
	if m.Sub {
		text = "subscription { " + sel + " }"
	}
	func() {
		defer func() {
			if r := recover(); r != nil {
				add("panic", "ResolveString panicked: %v\n%s", r, text)
			}
		}()
		res = root.ResolveString(text, "", nil)
	}()
	if len(ds) > 0 {
		return
	}
	ctx := fmt.Sprintf("\nschema:\n%srequest: %s\nresponse: %s", c10MetaSDL, text, hx.Show(hx.Norm(res)))
	var cur interface{} = res["data"]
	for _, p := range m.Path {
		if cm, ok := cur.(map[string]interface{}); ok {
			cur = cm[p]
		} else {
			cur = nil
		}
	}
	holder, _ := cur.(map[string]interface{})
	errs, _ := res["errors"].([]interface{})
	if m.Sub {
		if len(errs) == 0 {
			add("no-error", "the subscription's root selection is defective but the response carries no error%s", ctx)
		}
		return
	}
	if m.BadArg {
		if len(errs) == 0 {
			add("no-error", "the meta field is written with an argument it does not declare but the response has no error%s", ctx)
		}
		if holder != nil && holder[key] != nil && strings.Contains(m.Field, "foo") && !strings.Contains(m.Field, "name:") {
			add("resolved", "__type without its name argument (an undeclared one in its place) was answered%s", ctx)
		}
		return
	}
	if len(m.Path) == 0 {
		// at the query root the meta field is defined
		if len(errs) > 0 || holder == nil || holder[key] == nil {
			add("meta-field-at-root", "the meta field at the query root (type Root, named by the schema block) is not answered%s", ctx)
		}
		return
	}
	// below the root the container (type Query - which is NOT the query type) does not define it
	if len(errs) == 0 {
		add("no-error", "the object type Query does not define %s (it is not the query root) but the response has no error%s", key, ctx)
	}
	if holder != nil && holder[key] != nil {
		add("resolved", "the meta field selected on the object type Query (not the query root) was answered%s", ctx)
	}
	if res["data"] != nil && holder != nil {
		if fmt.Sprint(holder["a"]) != "7" {
			add("siblings", "the valid sibling selection a is not resolved%s", ctx)
		}
	}
	for _, c := range calls {
		if strings.HasPrefix(c, "__") {
			add("resolver-invoked", "the application's resolver was asked for %s%s", c, ctx)
		}
	}
	return
}

func genCaseC10(t *rapid.T) *c10Case {
	strategy := rapid.SampledFrom([]string{"R", "A", "X", "RA"}).Draw(t, "strategy")
	p := Profile{Strategy: strategy, MaxDepth: rapid.IntRange(2, 4).Draw(t, "maxDepth"), Mutation: true}
	if strategy == "X" {
		p.Abstract = rapid.Bool().Draw(t, "abstract")
		// (Go struct members take no arguments; the fields they back may declare some all the same,
		// and what the request writes for them is checked like anywhere else)
		p.Args = !p.Abstract && rapid.Bool().Draw(t, "argumentsOnStructBackedFields")
	} else {
		p.Args = true
	}
	s := GenSchema(t, p)
	s.Dirs = append(s.Dirs, &hx.DirDef{Name: "onquery", On: []string{"QUERY"}})
	s.Dirs = append(s.Dirs, &hx.DirDef{Name: "onfield", On: []string{"FIELD"}, Args: []*hx.Arg{{Name: "level", Type: hx.Named("Int")}}})
	// (a directive that declares no arguments at all)
	s.Dirs = append(s.Dirs, &hx.DirDef{Name: "plain", On: []string{"FIELD", "INLINE_FRAGMENT", "FRAGMENT_SPREAD"}})
	s.Dirs = append(s.Dirs, &hx.DirDef{Name: "need", On: []string{"FIELD", "INLINE_FRAGMENT", "FRAGMENT_SPREAD"}, Args: []*hx.Arg{{Name: "level", Type: hx.Named("Int").NN()}, {Name: "note", Type: hx.Named("String")}}})
	if p.Args {
		// make sure fields with a required argument exist (needed by the omitted-argument defect)
		for _, td := range s.Types {
			if td.Kind == hx.KObject && td.Field("r") == nil && rapid.Bool().Draw(t, "req"+td.Name) {
				td.Fields = append(td.Fields, &hx.Field{Name: "r", Type: hx.Named("String"), Args: []*hx.Arg{
					{Name: "n", Type: hx.Named("String").NN()}, {Name: "s", Type: hx.Named("String")}}})
			}
		}
	}
	g := GenGraph(t, s, p, nil)
	d, vars := GenDoc(t, s, p, false)
	base := &Case{Schema: s, Graph: g, Doc: d, Vars: vars, Layout: GenLayout(t), Echo: p.Args && strategy != "X", ListSeed: rapid.IntRange(0, 1<<20).Draw(t, "listSeed")}
	base.Assign, base.AnyInstalled = GenAssign(t, g, strategy)
	base.Warm = GenWarm(t, s, p)
	base.Op = d.Ops[0].Name
	if p.Abstract {
		for _, td := range s.Types {
			if td.Kind == hx.KObject {
				base.Register = append(base.Register, td.Name)
			}
		}
	}
	// deep copy the document through JSON so that the base stays defect free
	var cp Case
	roundTrip(base, &cp)
	kinds := defectKinds
	if strategy == "X" && p.Args {
		kinds = defectKinds
	} else if strategy == "X" {
		kinds = []string{"unknown-field", "unknown-directive", "misplaced-directive", "undeclared-directive-arg", "omitted-required-directive-arg", "undefined-condition-inline", "undefined-condition-fragment"}
	}
	perm := rapid.Permutation(kinds).Draw(t, "kindOrder")
	for _, k := range perm {
		var trial Case
		roundTrip(base, &trial)
		if df, ok := inject(t, &trial, k); ok {
			trial.Note = fmt.Sprintf("%s %q under %s (%s) depth %d", df.Kind, df.Name, df.Con, df.ConKind, df.Depth)
			return &c10Case{Case: &trial, Base: &cp, Defect: df}
		}
	}
	t.Fatalf("no defect applicable (generator bug)")
	return nil
}

func checkC10(cc *c10Case) (ds []hx.Discrepancy, exp *hx.Expect, res map[string]interface{}) {
	if cc.Meta != nil {
		d, r := checkC10Meta(cc.Meta)
		return d, nil, r
	}
	add := func(kind, sig, format string, args ...interface{}) {
		ds = append(ds, hx.Discrepancy{Kind: kind, Sig: sig, Detail: fmt.Sprintf(format, args...)})
	}
	c := cc.Case
	w, err := NewWorld(c)
	if err != nil {
		add("setup", "", "%v", err)
		return
	}
	x := &hx.Exec{S: cc.Base.Schema, G: cc.Base.Graph, D: cc.Base.Doc, Echo: cc.Base.Echo}
	exp = x.Run(cc.Base.Op, cc.Base.VarMap())
	var text string
	var pan interface{}
	res, text, pan = w.Resolve()
	ctx := func() string {
		return fmt.Sprintf("\ndefect: %s\nrequest: %s\nstrategy=%s vars=%v\nresponse: %s", c.Note, text, stratName(c), c.GoVars(), hx.Show(hx.Norm(res)))
	}
	if pan != nil {
		add("panic", "", "ResolveString panicked: %v%s", pan, ctx())
		return
	}
	df := cc.Defect
	// Was the defective selection ever evaluated on an object? (ggql checks fields and arguments
	// lazily while resolving: open finding KF-C10-lazy-validation.)
	reached := true
	undefinedOn := map[int]bool{} // nodes on which the defective field is evaluated although their type lacks it
	definedSomewhere := false
	if df.Kind == "unknown-field" || df.Kind == "undeclared-arg" || df.Kind == "omitted-required-arg" {
		xd := &hx.Exec{S: c.Schema, G: c.Graph, D: c.Doc, Echo: c.Echo}
		expd := xd.Run(c.Op, c.VarMap())
		reached = false
		dfctID := -1
		c.Doc.Walk(func(sel *hx.Sel, depth int) {
			if sel.Kind == "field" && sel.Alias == "dfct" {
				dfctID = sel.ID
				if expd.Seen[sel.ID] > 0 {
					reached = true
				}
			}
		})
		if df.Kind == "unknown-field" {
			// a borrowed name may be defined for some of the objects the selection is evaluated on
			for _, u := range expd.Undefined {
				if u.Sel == dfctID {
					undefinedOn[u.Node] = true
				}
			}
			definedSomewhere = reached && len(undefinedOn) < expd.Seen[dfctID]
			if reached && len(undefinedOn) == 0 {
				return // evaluated only on objects that do define the field: a valid request after all
			}
		}
	}
	// 1. an error exists, and it names the offender where the statement says so
	errs, _ := res["errors"].([]interface{})
	if len(errs) == 0 {
		if !reached {
			add("no-error-unreached", "KF-C10-lazy-validation", "the defective selection sits beneath a null / empty list / non-applicable fragment, is never resolved and produced no error%s", ctx())
		} else {
			add("no-error", "", "the defect produced no error%s", ctx())
		}
	} else if df.Kind == "unknown-field" || df.Kind == "undeclared-arg" || df.Kind == "undeclared-directive-arg" {
		named := false
		for _, e := range errs {
			if em, ok := e.(map[string]interface{}); ok {
				if msg, _ := em["message"].(string); strings.Contains(msg, df.Name) {
					named = true
				}
			}
		}
		if !named {
			add("error-does-not-name-offender", "", "no error message names %q%s", df.Name, ctx())
		}
	}
	// 2. the corresponding resolver is not invoked with the defect
	for _, call := range w.Calls() {
		switch df.Kind {
		case "unknown-field":
			if call.Key == "dfct" && (!definedSomewhere || undefinedOn[call.Node]) {
				add("resolver-invoked", "", "resolver invoked for the undefined field: %+v%s", call, ctx())
			}
		case "undeclared-arg":
			if _, has := call.HasArgs[df.Name]; has {
				add("resolver-invoked", "", "resolver received the undeclared argument %q: %+v%s", df.Name, call, ctx())
			} else if call.Key == "dfct" {
				// ("rejected, never resolved": dropping the argument and resolving the selection
				// anyway - for a later member of a list, say - is not rejecting it)
				add("resolver-invoked", "", "the selection with the undeclared argument %q was resolved (the argument dropped): %+v%s", df.Name, call, ctx())
			}
		case "undeclared-directive-arg":
			if call.Key == "dfct" {
				add("resolver-invoked", "", "resolver invoked for the selection whose directive has the undeclared argument %q: %+v%s", df.Name, call, ctx())
			}
		case "omitted-required-directive-arg":
			if call.Key == "dfct" {
				add("resolver-invoked", "", "resolver invoked for the selection whose directive lacks its required argument %q: %+v%s", df.Name, call, ctx())
			}
		case "omitted-required-arg":
			if call.Key == "dfct" {
				add("resolver-invoked", "", "resolver invoked although required argument %q is missing: %+v%s", df.Name, call, ctx())
			}
		}
	}
	// 3. siblings: unless the whole document is rejected (no data), everything except the defective
	// selection equals the response of the defect-free request
	data, hasData := res["data"]
	if hasData && data != nil {
		act := hx.Norm(data)
		stripKey(act, "dfct")
		if d := diff(exp.Data, act, "data"); d != "" {
			add("siblings", "", "valid selections changed: %s%s\nexpected (defect-free): %s", d, ctx(), hx.Show(stripMarks(exp.Data)))
		}
	} else if !df.Rejected && len(errs) > 0 {
		// document-level rejection is allowed by the statement; count it
		_ = hasData
	}
	return
}

// stripKey removes every occurrence of a key (the defective selection's response key).
func stripKey(x interface{}, key string) {
	switch t := x.(type) {
	case map[string]interface{}:
		delete(t, key)
		for _, v := range t {
			stripKey(v, key)
		}
	case []interface{}:
		for _, v := range t {
			stripKey(v, key)
		}
	}
}

func roundTrip(in, out interface{}) {
	b, err := jsonMarshal(in)
	if err != nil {
		panic(err)
	}
	if err := jsonUnmarshal(b, out); err != nil {
		panic(err)
	}
}

func TestC10(t *testing.T) {
	run := hx.NewRun("C10")
	defer run.Flush()
	classes := func(cc *c10Case, res map[string]interface{}) (bool, []string) {
		if cc.Meta != nil {
			return true, []string{"meta-field-scenario", fmt.Sprintf("meta-field-depth=%d", len(cc.Meta.Path)), "strategy=" + cc.Meta.Strat, fmt.Sprintf("meta-undeclared-argument=%v", cc.Meta.BadArg), fmt.Sprintf("defective-subscription-root=%v", cc.Meta.Sub), fmt.Sprintf("argument-declared-by-one-member-type-only=%v", cc.Meta.Borrow > 0)}
		}
		df := cc.Defect
		cl := []string{"strategy=" + stratName(cc.Case), "defect=" + df.Kind, "container=" + df.ConKind, fmt.Sprintf("response-key-selected-before=%v", df.KeyTaken), fmt.Sprintf("required-argument-written-as-valueless-variable=%v", df.ViaVar),
			fmt.Sprintf("%s/%s/%s", df.Kind, df.ConKind, stratName(cc.Case))}
		if d, has := res["data"]; has && d != nil {
			cl = append(cl, "partial-data-kept")
		} else {
			cl = append(cl, "document-rejected")
		}
		return df.Depth >= 2 || (df.ConKind != hx.KObject && df.ConKind != "root-operation-type"), cl
	}
	if f := hx.Replaying(); f != "" {
		var cc c10Case
		if err := hx.LoadCase(f, &cc); err != nil {
			t.Fatalf("load %s: %v", f, err)
		}
		ds, _, res := checkC10(&cc)
		nt, cl := classes(&cc, res)
		run.Case(hx.Hash(&cc), nt, cl...)
		real := run.Triage(ds)
		for _, d := range ds {
			if d.Sig != "" {
				fmt.Printf("REPLAY-KNOWN sig=%s %s\n", d.Sig, hx.Trunc(d.Detail, 400))
			}
		}
		if len(real) > 0 {
			t.Fatalf("REPLAY-FAIL %s", run.ReportFailure(&cc, real))
		}
		return
	}
	rapid.Check(t, func(rt *rapid.T) {
		if rapid.IntRange(0, 15).Draw(rt, "metaFieldScenario") == 0 {
			cc := &c10Case{Meta: genC10Meta(rt)}
			ds, _, res := checkC10(cc)
			nt, cl := classes(cc, res)
			run.Case(hx.Hash(cc), nt, cl...)
			if real := run.Triage(ds); len(real) > 0 {
				rt.Fatalf("C10 violated: %s", run.ReportFailure(cc, real))
			}
			return
		}
		cc := genCaseC10(rt)
		ds, _, res := checkC10(cc)
		nt, cl := classes(cc, res)
		run.Case(hx.Hash(cc), nt, cl...)
		run.Sample(func() interface{} {
			m := sampleCase(cc.Case, res).(map[string]interface{})
			m["defect"] = cc.Note
			return m
		})
		if real := run.Triage(ds); len(real) > 0 {
			rt.Fatalf("C10 violated: %s", run.ReportFailure(cc, real))
		}
	})
}
