package exec

import (
	"fmt"
	"os"
	"sort"
	"strconv"
	"testing"

	"pgregory.net/rapid"

	"verifharness/hx"
)

// diff returns the first difference between an expected and an actual normalised tree.
func diff(exp, act interface{}, path string) string {
	switch te := exp.(type) {
	case hx.BorderlineMark:
		return "" // shape-checked elsewhere
	case map[string]interface{}:
		ta, ok := act.(map[string]interface{})
		if !ok {
			return fmt.Sprintf("%s: expected object %s, got %s", path, hx.Show(exp), hx.Show(act))
		}
		keys := make([]string, 0, len(te))
		for k := range te {
			keys = append(keys, k)
		}
		sort.Strings(keys)
		for _, k := range keys {
			av, has := ta[k]
			if !has {
				return fmt.Sprintf("%s: key %q missing (expected %s)", path, k, hx.Show(te[k]))
			}
			if d := diff(te[k], av, path+"."+k); d != "" {
				return d
			}
		}
		for k := range ta {
			if _, has := te[k]; !has {
				return fmt.Sprintf("%s: unexpected key %q = %s", path, k, hx.Show(ta[k]))
			}
		}
		return ""
	case []interface{}:
		ta, ok := act.([]interface{})
		if !ok {
			return fmt.Sprintf("%s: expected list %s, got %s", path, hx.Show(exp), hx.Show(act))
		}
		if len(ta) != len(te) {
			return fmt.Sprintf("%s: expected %d elements %s, got %d %s", path, len(te), hx.Show(exp), len(ta), hx.Show(act))
		}
		for i := range te {
			if d := diff(te[i], ta[i], fmt.Sprintf("%s.%d", path, i)); d != "" {
				return d
			}
		}
		return ""
	}
	if !hx.Equal(exp, act) {
		return fmt.Sprintf("%s: expected %s, got %s", path, hx.Show(exp), hx.Show(act))
	}
	return ""
}

func showBorder(x interface{}) interface{} { return x }

// depthSlack: what ggql's depth limit needs on top of the object and list levels of the deepest leaf
// (the schema level and the operation root; calibrated on the pinned tree, see DESIGN.md).
var depthSlack = func() int {
	if v := os.Getenv("C01_DEPTH_SLACK"); v != "" {
		n, _ := strconv.Atoi(v)
		return n
	}
	return 1
}()

// genCaseC01 draws a C01 case.
func genCaseC01(t *rapid.T) *Case {
	strategy := rapid.SampledFrom([]string{"R", "A", "X", "X"}).Draw(t, "strategy")
	// (conditions on selections are part of what the selection semantics prescribe; their own
	// truth table is C09's subject)
	p := Profile{Strategy: strategy, MaxDepth: rapid.IntRange(2, 5).Draw(t, "maxDepth"), Mutation: true, Dirs: rapid.IntRange(0, 3).Draw(t, "conditions") == 0}
	if strategy == "X" {
		p.Abstract = rapid.Bool().Draw(t, "abstract")
	} else {
		p.Args = rapid.Bool().Draw(t, "args")
	}
	s := GenSchema(t, p)
	g := GenGraph(t, s, p, nil)
	multi := rapid.IntRange(0, 2).Draw(t, "multiOp") == 0
	d, vars := GenDoc(t, s, p, multi)
	c := &Case{Schema: s, Graph: g, Doc: d, Vars: vars, Layout: GenLayout(t), Echo: p.Args, ListSeed: rapid.IntRange(0, 1<<20).Draw(t, "listSeed")}
	c.Assign, c.AnyInstalled = GenAssign(t, g, strategy)
	c.Warm = GenWarm(t, s, p)
	c.ViaAPI = rapid.IntRange(0, 4).Draw(t, "schemaViaGoAPI") == 0
	if len(c.Warm) == 0 && rapid.IntRange(0, 3).Draw(t, "tightDepth") == 0 {
		c.TightDepth = rapid.IntRange(1, 2).Draw(t, "tightDepthPlus")
	}
	if rapid.IntRange(0, 3).Draw(t, "resolvedBefore") == 0 {
		// the parsed request was resolved before with other values of its variables (defaulted ones
		// given a value too): the data is that of THIS request's variables
		c.PrimeVars = AltVars(t, s, d, "prime")
	}
	if rapid.IntRange(0, 3).Draw(t, "failingResolvers") == 0 {
		// some resolvers fail: the selected response key is still there, holding null, next to its
		// siblings (the errors themselves are C06's subject)
		for i := 0; i < rapid.IntRange(1, 3).Draw(t, "nFailing"); i++ {
			n := g.Nodes[rapid.IntRange(0, len(g.Nodes)-1).Draw(t, fmt.Sprintf("fail%dnode", i))]
			if n.Type == "" || (c.Assign[n.ID] != "R" && c.Assign[n.ID] != "A") {
				continue
			}
			fs := s.Type(n.Type).Fields
			f := fs[rapid.IntRange(0, len(fs)-1).Draw(t, fmt.Sprintf("fail%dfield", i))]
			dup := false
			for _, e := range c.Faults {
				dup = dup || (e.Node == n.ID && e.Field == f.Name)
			}
			if !dup {
				c.Faults = append(c.Faults, hx.Fault{Node: n.ID, Field: f.Name, Kind: "err"})
			}
		}
	}
	// operation name
	var names []string
	for _, o := range d.Ops {
		names = append(names, o.Name)
	}
	switch rapid.IntRange(0, 9).Draw(t, "opChoice") {
	case 0:
		c.Op = ""
	case 1:
		c.Op = "Nope"
	default:
		c.Op = rapid.SampledFrom(names).Draw(t, "opName")
	}
	if len(d.Ops) >= 2 && rapid.IntRange(0, 7).Draw(t, "unnamedOps") == 0 {
		// two operations without a name (the second, at least, written with its keyword): nothing
		// can be chosen, nothing may run
		d.Ops[0].Name, d.Ops[1].Name = "", ""
		d.Ops[0].Anon = rapid.Bool().Draw(t, "firstShortForm") && len(d.Ops[0].Vars) == 0 && len(d.Ops[0].Dirs) == 0 && d.Ops[0].Type == "query"
		d.Ops[1].Anon = false
		c.Op = ""
	}
	for _, td := range s.Types {
		if td.Kind == hx.KObject && (p.Abstract || rapid.IntRange(0, 2).Draw(t, "reg"+td.Name) == 0) && strategy == "X" {
			c.Register = append(c.Register, td.Name)
		}
	}
	return c
}

// checkData compares the response data with the reference executor.
func checkC01(c *Case) (ds []hx.Discrepancy, exp *hx.Expect, res map[string]interface{}, w *World) {
	add := func(kind, sig, format string, args ...interface{}) {
		ds = append(ds, hx.Discrepancy{Kind: kind, Sig: sig, Detail: fmt.Sprintf(format, args...)})
	}
	var err error
	x := &hx.Exec{S: c.Schema, G: c.Graph, D: c.Doc, Faults: c.Faults, Echo: c.Echo}
	exp = x.Run(c.Op, c.VarMap())
	if c.TightDepth > 0 && !exp.Rejected {
		slack := depthSlack
		c.DepthAfter = exp.T.MaxLevels + slack + c.TightDepth - 1
	}
	w, err = NewWorld(c)
	if err != nil {
		add("setup", "", "%v", err)
		return
	}
	var text string
	var pan interface{}
	res, text, pan = w.Resolve()
	if pan != nil {
		add("panic", "", "ResolveString panicked: %v\nrequest: %s", pan, text)
		return
	}
	calls := w.Calls()
	if exp.Rejected {
		if len(calls) > 0 {
			add("op-choice", "", "operation name %q selects nothing (ops %v) but %d resolver calls ran, first %+v", c.Op, opNames(c.Doc), len(calls), calls[0])
		}
		if _, has := res["errors"]; !has {
			add("op-choice", "", "operation name %q selects nothing but the response has no errors: %s", c.Op, hx.Show(hx.Norm(res)))
		}
		return
	}
	act := hx.Norm(res["data"])
	if d := diff(exp.Data, act, "data"); d != "" {
		add("data", "", "%s\nrequest: %s\nop=%q vars=%v\nexpected: %s\nactual:   %s\nerrors: %s", d, text, c.Op, c.GoVars(), hx.Show(showBorder(stripMarks(exp.Data))), hx.Show(act), hx.Show(hx.Norm(res["errors"])))
	}
	return
}

func stripMarks(x interface{}) interface{} {
	switch t := x.(type) {
	case hx.BorderlineMark:
		return "<shape:" + t.Scalar + ">"
	case map[string]interface{}:
		out := map[string]interface{}{}
		for k, v := range t {
			out[k] = stripMarks(v)
		}
		return out
	case []interface{}:
		out := make([]interface{}, len(t))
		for i, v := range t {
			out[i] = stripMarks(v)
		}
		return out
	}
	return x
}

func opNames(d *hx.Doc) []string {
	var out []string
	for _, o := range d.Ops {
		out = append(out, o.Type+":"+o.Name)
	}
	return out
}

func classesC01(c *Case, exp *hx.Expect) (nt bool, cl []string) {
	cl = append(cl, "strategy="+stratName(c))
	if exp == nil {
		return false, cl
	}
	if exp.Rejected {
		cl = append(cl, "op-rejected")
		if c.Op == "" {
			cl = append(cl, "op-ambiguous")
		} else {
			cl = append(cl, "op-unknown")
		}
		return len(c.Doc.Ops) >= 1, cl
	}
	t := exp.T
	flag := func(name string, n int) {
		if n > 0 {
			cl = append(cl, name)
		}
	}
	flag("alias", t.Aliases)
	flag("inline-fragment", t.Inline)
	flag("named-fragment", t.Spread)
	flag("list-field", t.ListFields)
	flag("list-of-list", t.ListOfList)
	flag("null-value", t.NullSeen)
	flag("null-element", t.NullElem)
	flag("empty-list", t.EmptyList)
	flag("cyclic-or-shared-revisit", t.Revisit)
	flag("__typename", t.Typename)
	flag("merged-key", t.Merged)
	flag("abstract-hop", t.AbstractHops)
	flag("fragment-cond-differs-and-applies", t.FragMismatch)
	flag("fragment-not-applicable", t.FragNoApply)
	flag("args", t.ArgsSeen)
	if len(c.Doc.Ops) > 1 {
		cl = append(cl, "multi-op")
	}
	if len(c.Vars) > 0 {
		cl = append(cl, "variables")
	}
	cl = append(cl, fmt.Sprintf("depth=%d", minInt(t.MaxDepth, 6)))
	nt = t.MaxDepth >= 2 && (t.Aliases > 0 || t.Inline > 0 || t.Spread > 0 || t.ListFields > 0 || t.NullSeen > 0 || t.EmptyList > 0 || len(c.Doc.Ops) > 1)
	return
}

func stratName(c *Case) string {
	set := map[string]bool{}
	for _, a := range c.Assign {
		set[a] = true
	}
	var ks []string
	for k := range set {
		ks = append(ks, k)
	}
	sort.Strings(ks)
	s := ""
	for _, k := range ks {
		s += k
	}
	if c.AnyInstalled {
		s += "+any"
	}
	return s
}

func sampleCase(c *Case, res map[string]interface{}) interface{} {
	text := c.Text
	if text == "" {
		text = c.Doc.Render(c.Layout).Text
	}
	return map[string]interface{}{
		"schema":   hx.Trunc(c.Schema.SDL(hx.SDLOpts{}), 600),
		"request":  hx.Trunc(text, 500),
		"op":       c.Op,
		"strategy": stratName(c),
		"nodes":    len(c.Graph.Nodes),
		"response": hx.Trunc(hx.Show(hx.Norm(res)), 500),
	}
}

// runProp wires a generator and a checker into rapid with stats, triage and replay.
func runProp(t *testing.T, prop string, gen func(*rapid.T) *Case, check func(*Case) ([]hx.Discrepancy, *hx.Expect, map[string]interface{}, *World),
	classes func(*Case, *hx.Expect) (bool, []string)) {
	runPropWith(t, prop, gen, check, classes, nil)
}

// runPropWith continues an existing stats collector (used when a check has an enumerated part first).
func runPropWith(t *testing.T, prop string, gen func(*rapid.T) *Case, check func(*Case) ([]hx.Discrepancy, *hx.Expect, map[string]interface{}, *World),
	classes func(*Case, *hx.Expect) (bool, []string), run *hx.Run) {
	if run == nil {
		run = hx.NewRun(prop)
	}
	defer func() {
		listRepMu.Lock()
		for k, v := range ListRepCount {
			run.ClassN("list-rep="+k, v)
		}
		listRepMu.Unlock()
		run.Flush()
	}()
	if f := hx.Replaying(); f != "" {
		var c Case
		if err := hx.LoadCase(f, &c); err != nil {
			t.Fatalf("load %s: %v", f, err)
		}
		ds, exp, _, _ := check(&c)
		nt, cl := classes(&c, exp)
		run.Case(hx.Hash(&c), nt, cl...)
		real := run.Triage(ds)
		for _, d := range ds {
			if d.Sig != "" {
				fmt.Printf("REPLAY-KNOWN sig=%s %s\n", d.Sig, hx.Trunc(d.Detail, 400))
			}
		}
		if len(real) > 0 {
			t.Fatalf("REPLAY-FAIL %s", run.ReportFailure(&c, real))
		}
		return
	}
	rapid.Check(t, func(rt *rapid.T) {
		c := gen(rt)
		ds, exp, res, _ := check(c)
		nt, cl := classes(c, exp)
		run.Case(hx.Hash(c), nt, cl...)
		run.Sample(func() interface{} { return sampleCase(c, res) })
		if real := run.Triage(ds); len(real) > 0 {
			rt.Fatalf("%s violated: %s", prop, run.ReportFailure(c, real))
		}
	})
}

func TestC01(t *testing.T) {
	runProp(t, "C01", genCaseC01, checkC01, classesC01)
}
