package exec

import (
	"errors"
	"fmt"
	"go/token"
	"reflect"
	"strconv"
	"strings"
	"time"

	"github.com/uhn/ggql/pkg/ggql"

	"verifharness/hx"
)

// Slots is the regular set of fields and methods every universe type has.
// GraphQL fields bind to them case-insensitively (or through RegisterField).
type Slots struct {
	Str   string
	Num   int
	I32   int32
	I64   int64
	F32   float32
	F64   float64
	Flag  bool
	When  time.Time
	Sym   ggql.Symbol
	Strs  []string
	Nums  []int
	Flags []bool
	Objs  []interface{}
	Obj   interface{}
	Grid  [][]interface{}
	Extra interface{}
	// struct VALUES (not pointers): a typed slice of them and a single one
	Vals []Vee
	Val  Vee
	// private twins: bookkeeping fields of the application whose names differ from bound fields in
	// case only (they are nobody's business but the struct's own)
	extra string
	flag  int
	objs  map[string]int
}

// Vee is the universe type that is used by value: plain fields, methods with a value receiver,
// held in []Vee / Vee typed slots and as Vee values inside []interface{}.
type Vee struct {
	Str  string
	Num  int
	Flag bool
	num  string
}

func (v Vee) Greet() string          { return "hi:" + v.Str }
func (v Vee) Echo(str string) string { return "echo:" + str }
func (v Vee) Flip(b bool) bool       { return !b }

var veeType = reflect.TypeOf(Vee{})

// veeValue builds the Vee value of a node (by value: there is no shared identity to fill later).
func (w *World) veeValue(id int) interface{} {
	n := w.C.Graph.Nodes[id]
	pv := reflect.New(veeType)
	w.fillUniverse(n, w.C.Schema.Type(n.Type), pv, false)
	if w.C.VeeIsMap {
		v := pv.Elem().Interface().(Vee)
		return Mee{"s": v.Str, "n": v.Num, "f": v.Flag, "str": poisonStr, "Str": poisonStr}
	}
	return pv.Elem().Interface()
}

// Mee is Vee as a Go type that is not a struct: a named map all of whose members are methods (its
// keys are nobody's business but its own).
type Mee map[string]interface{}

func (m Mee) Str() string            { return m["s"].(string) }
func (m Mee) Num() int               { return m["n"].(int) }
func (m Mee) Flag() bool             { return m["f"].(bool) }
func (m Mee) Greet() string          { return "hi:" + m.Str() }
func (m Mee) Echo(str string) string { return "echo:" + str }
func (m Mee) Flip(b bool) bool       { return !b }

// isVee: is the node an instance of the by-value universe type?
func (w *World) isVee(id int) bool {
	n := w.C.Graph.Nodes[id]
	return w.C.Universe && n.Type != "" && w.C.GoType[n.Type] == "Vee"
}

// Label is a string type of the application's own.
type Label string

// Computed (method backed) fields. Their GraphQL names are the lower case method names.
func (s *Slots) Echo(str string) string         { return "echo:" + str }
func (s *Slots) Pick(str string, b bool) string { return str + ":" + strconv.FormatBool(b) }
func (s *Slots) Greet() string                  { return "hi:" + s.Str }
func (s *Slots) HTMLID() string                 { return "html:" + s.Str }
func (s *Slots) Tint(c string) string           { return "tint:" + c }
func (s *Slots) Tag(l Label) string             { return "tag:" + string(l) }

// Opt takes an optional argument: an interface{} parameter holds the value or nil.
func (s *Slots) Opt(o interface{}) string {
	if o == nil {
		return "opt:<nil>"
	}
	return "opt:" + fmt.Sprint(o)
}
func (s *Slots) Flip(b bool) bool               { return !b }
func (s *Slots) Swap(b bool, str string) string { return str + "/" + strconv.FormatBool(b) }

// Trio takes its three arguments in an order that is a rotation of the declared one (s, b, t).
func (s *Slots) Trio(t string, str string, b bool) string {
	return str + "/" + t + "/" + strconv.FormatBool(b)
}
func (s *Slots) Peer() interface{}    { return s.Obj }
func (s *Slots) Peers() []interface{} { return s.Objs }
func (s *Slots) Count() (int, error)  { return len(s.Objs), nil }

// Risky fails depending on its argument: "fail..." gives no value and an error, "both..." a value
// together with an error. It is what lets a reflection backed object fail like a Resolver can.
func (s *Slots) Risky(str string) (interface{}, error) {
	switch {
	case strings.HasPrefix(str, "fail"):
		return nil, errRisky
	case strings.HasPrefix(str, "both"):
		return "risky:" + str, errRisky
	}
	return "risky:" + str, nil
}

var errRisky = errors.New("risky failed")

// UniverseFault is the single definition of how the computed fields fail.
func UniverseFault(n *hx.Node, fd *hx.Field, args map[string]interface{}) string {
	slot := strings.ToLower(fd.Name)
	if universeSlotOf != nil {
		slot = universeSlotOf(n.Type, fd.Name)
	}
	if slot != "risky" {
		return ""
	}
	str, _ := args["s"].(string)
	switch {
	case strings.HasPrefix(str, "fail"):
		return "err"
	case strings.HasPrefix(str, "both"):
		return "valerr"
	}
	return ""
}

// The universe of named Go types.
type Alpha struct{ Slots }
type Beta struct{ Slots }
type Gamma struct{ Slots }
type Delta struct{ Slots }
type UQuery struct{ Slots }

// AlphaBeta: a Go type whose name begins like one and ends like another universe type (bindings
// by @go and by name compare type names).
type AlphaBeta struct{ Slots }

var universeTypes = map[string]reflect.Type{
	"Alpha": reflect.TypeOf(Alpha{}), "Beta": reflect.TypeOf(Beta{}), "Gamma": reflect.TypeOf(Gamma{}),
	"Delta": reflect.TypeOf(Delta{}), "AlphaBeta": reflect.TypeOf(AlphaBeta{}), "UQuery": reflect.TypeOf(UQuery{}), "Vee": reflect.TypeOf(Vee{}),
}

// UniverseGoNames lists the object-capable Go types.
var UniverseGoNames = []string{"Alpha", "Beta", "Gamma", "Delta", "AlphaBeta"}

func newUniverseValue(goType string, _ bool) reflect.Value {
	t, ok := universeTypes[goType]
	if !ok {
		panic("unknown universe type " + goType)
	}
	if t.Kind() == reflect.Map {
		return reflect.MakeMap(t) // bound by value
	}
	return reflect.New(t)
}

// slotFor maps a GraphQL field to the Go slot name (lower-cased) it is bound to.
func slotFor(c *Case, typeName, field string) string {
	if g, ok := c.Rename[typeName+"."+field]; ok {
		if i := strings.IndexByte(g, '('); i >= 0 {
			g = g[:i]
		}
		return strings.ToLower(g)
	}
	return strings.ToLower(field)
}

// computedSlots are backed by methods; the rest by struct fields.
var computedSlots = map[string]bool{"echo": true, "pick": true, "greet": true, "flip": true, "swap": true, "peer": true, "peers": true, "count": true, "risky": true, "htmlid": true, "tint": true, "tag": true, "opt": true, "trio": true}

// universeSlotOf is set per world so that UniverseCompute can translate renamed fields.
var universeSlotOf func(typeName, field string) string

// UniverseCompute is the single definition of what the computed fields return.
func UniverseCompute(n *hx.Node, fd *hx.Field, args map[string]interface{}) (hx.Val, bool) {
	slot := strings.ToLower(fd.Name)
	if universeSlotOf != nil {
		slot = universeSlotOf(n.Type, fd.Name)
	}
	if !computedSlots[slot] {
		return hx.Val{}, false
	}
	str, _ := args["s"].(string)
	b, _ := args["b"].(bool)
	switch slot {
	case "echo":
		return hx.Str("echo:" + str), true
	case "pick":
		return hx.Str(str + ":" + strconv.FormatBool(b)), true
	case "greet":
		return hx.Str("hi:" + n.F["__str"].S), true
	case "htmlid":
		return hx.Str("html:" + n.F["__str"].S), true
	case "tint":
		return hx.Str("tint:" + fmt.Sprint(args["c"])), true
	case "tag":
		return hx.Str("tag:" + fmt.Sprint(args["l"])), true
	case "opt":
		if args["o"] == nil {
			return hx.Str("opt:<nil>"), true
		}
		return hx.Str("opt:" + fmt.Sprint(args["o"])), true
	case "flip":
		return hx.Bool(!b), true
	case "swap":
		return hx.Str(str + "/" + strconv.FormatBool(b)), true
	case "trio":
		return hx.Str(str + "/" + fmt.Sprint(args["t"]) + "/" + strconv.FormatBool(b)), true
	case "peer":
		return n.F["__obj"], true
	case "peers":
		return n.F["__objs"], true
	case "count":
		return hx.Int(len(n.F["__objs"].L)), true
	case "risky":
		return hx.Str("risky:" + str), true
	}
	return hx.Val{}, false
}

// fillUniverse copies a node's data into its universe struct. Hidden node fields
// "__str", "__obj", "__objs" back the slots the computed fields read.
func (w *World) fillUniverse(n *hx.Node, td *hx.TypeDef, pv reflect.Value, poison bool) {
	sv := pv.Elem().FieldByName("Slots")
	if !sv.IsValid() {
		sv = pv.Elem() // Vee has its slots directly
	}
	elemValue := func(v hx.Val, salt string) interface{} {
		if v.K == "ref" {
			return w.nodeValue(v.RefID())
		}
		return v.Go()
	}
	veeElem := func(v hx.Val) reflect.Value {
		// a Vee typed slot holds the value whatever strategy the node is served by elsewhere
		return reflect.ValueOf(w.veeValue(v.RefID()))
	}
	set := func(slot string, v hx.Val, salt string) {
		f := sv.FieldByNameFunc(func(name string) bool { return token.IsExported(name) && strings.EqualFold(name, slot) })
		if !f.IsValid() {
			return
		}
		if poison {
			switch f.Kind() {
			case reflect.String:
				f.SetString("POISON:reflection-read-a-root-resolver-object")
			case reflect.Int, reflect.Int32, reflect.Int64:
				f.SetInt(-999)
			}
			return
		}
		if v.IsNil() {
			return
		}
		switch f.Kind() {
		case reflect.Slice:
			et := f.Type().Elem()
			out := reflect.MakeSlice(f.Type(), len(v.L), len(v.L))
			for i, e := range v.L {
				if et == veeType {
					out.Index(i).Set(veeElem(e))
					continue
				}
				var x interface{}
				if et.Kind() == reflect.Slice { // Grid [][]interface{}
					inner := make([]interface{}, len(e.L))
					for j, ee := range e.L {
						inner[j] = elemValue(ee, salt)
					}
					x = inner
				} else {
					x = elemValue(e, salt)
				}
				if x == nil {
					continue
				}
				xv := reflect.ValueOf(x)
				if xv.Type().AssignableTo(et) {
					out.Index(i).Set(xv)
				} else if xv.Type().ConvertibleTo(et) {
					out.Index(i).Set(xv.Convert(et))
				} else {
					panic(fmt.Sprintf("universe: cannot store element %T into slot %s (%s)", x, slot, f.Type()))
				}
			}
			f.Set(out)
		default:
			if f.Type() == veeType {
				f.Set(veeElem(v))
				return
			}
			x := elemValue(v, salt)
			xv := reflect.ValueOf(x)
			switch {
			case xv.Type().AssignableTo(f.Type()):
				f.Set(xv)
			case xv.Type().ConvertibleTo(f.Type()) && f.Kind() != reflect.Interface && f.Kind() != reflect.String:
				f.Set(xv.Convert(f.Type()))
			case f.Kind() == reflect.String && xv.Kind() == reflect.String:
				f.SetString(xv.String())
			default:
				panic(fmt.Sprintf("universe: cannot store %T into slot %s (%s)", x, slot, f.Type()))
			}
		}
	}
	for _, fd := range td.Fields {
		slot := slotFor(w.C, n.Type, fd.Name)
		if computedSlots[slot] {
			continue
		}
		set(slot, n.F[fd.Name], fkey(n.ID, fd.Name))
	}
	// the slots behind computed fields
	for hidden, slot := range map[string]string{"__str": "str", "__obj": "obj", "__objs": "objs"} {
		if v, ok := n.F[hidden]; ok {
			set(slot, v, fkey(n.ID, hidden))
		}
	}
}

// Resolver-implementing universe types: an object that implements ggql.Resolver AND has
// exported fields and methods (holding poison). The Resolver interface must win.
type RAlpha struct {
	Slots
	rn *RNode
}
type RBeta struct {
	Slots
	rn *RNode
}
type RGamma struct {
	Slots
	rn *RNode
}
type RDelta struct {
	Slots
	rn *RNode
}
type RAlphaBeta struct {
	Slots
	rn *RNode
}

func (r *RAlpha) Resolve(f *ggql.Field, a map[string]interface{}) (interface{}, error) {
	return r.rn.Resolve(f, a)
}
func (r *RBeta) Resolve(f *ggql.Field, a map[string]interface{}) (interface{}, error) {
	return r.rn.Resolve(f, a)
}
func (r *RGamma) Resolve(f *ggql.Field, a map[string]interface{}) (interface{}, error) {
	return r.rn.Resolve(f, a)
}
func (r *RDelta) Resolve(f *ggql.Field, a map[string]interface{}) (interface{}, error) {
	return r.rn.Resolve(f, a)
}

func (r *RAlphaBeta) Resolve(f *ggql.Field, a map[string]interface{}) (interface{}, error) {
	return r.rn.Resolve(f, a)
}

// Resolver-implementing universe types whose Go kind is not a struct: named maps. They are bound
// to their object types like any other Go type (RegisterType) and take part in abstract-type dispatch.
type MAlpha map[string]interface{}
type MBeta map[string]interface{}
type MGamma map[string]interface{}
type MDelta map[string]interface{}
type MAlphaBeta map[string]interface{}

func mapResolve(m map[string]interface{}, f *ggql.Field, a map[string]interface{}) (interface{}, error) {
	return m["rn"].(*RNode).Resolve(f, a)
}
func (m MAlpha) Resolve(f *ggql.Field, a map[string]interface{}) (interface{}, error) {
	return mapResolve(m, f, a)
}
func (m MBeta) Resolve(f *ggql.Field, a map[string]interface{}) (interface{}, error) {
	return mapResolve(m, f, a)
}
func (m MGamma) Resolve(f *ggql.Field, a map[string]interface{}) (interface{}, error) {
	return mapResolve(m, f, a)
}
func (m MDelta) Resolve(f *ggql.Field, a map[string]interface{}) (interface{}, error) {
	return mapResolve(m, f, a)
}
func (m MAlphaBeta) Resolve(f *ggql.Field, a map[string]interface{}) (interface{}, error) {
	return mapResolve(m, f, a)
}

// newUniverseMap builds a UM node: a named map holding poison and the fixture node it delegates to.
func (w *World) newUniverseMap(goType string, id int) reflect.Value {
	rn := &RNode{w: w, id: id}
	w.rnodes[id] = rn
	m := reflect.MakeMap(universeTypes[goType])
	m.SetMapIndex(reflect.ValueOf("rn"), reflect.ValueOf(rn))
	m.SetMapIndex(reflect.ValueOf("str"), reflect.ValueOf(poisonStr))
	return m
}

func init() {
	universeTypes["MAlphaBeta"] = reflect.TypeOf(MAlphaBeta{})
	universeTypes["MAlpha"] = reflect.TypeOf(MAlpha{})
	universeTypes["MBeta"] = reflect.TypeOf(MBeta{})
	universeTypes["MGamma"] = reflect.TypeOf(MGamma{})
	universeTypes["MDelta"] = reflect.TypeOf(MDelta{})
	universeTypes["RAlphaBeta"] = reflect.TypeOf(RAlphaBeta{})
	universeTypes["RAlpha"] = reflect.TypeOf(RAlpha{})
	universeTypes["RBeta"] = reflect.TypeOf(RBeta{})
	universeTypes["RGamma"] = reflect.TypeOf(RGamma{})
	universeTypes["RDelta"] = reflect.TypeOf(RDelta{})
}

const poisonStr = "POISON:reflection-read-an-object-that-implements-Resolver"

// newUniverseResolver builds a UR node: poison in every reflective slot, Resolve delegating to the fixture.
func (w *World) newUniverseResolver(goType string, id int) reflect.Value {
	pv := reflect.New(universeTypes[goType])
	sv := pv.Elem().FieldByName("Slots")
	sv.FieldByName("Str").SetString(poisonStr)
	sv.FieldByName("Num").SetInt(-999)
	sv.FieldByName("Strs").Set(reflect.ValueOf([]string{poisonStr}))
	rn := &RNode{w: w, id: id}
	w.rnodes[id] = rn
	// rn is unexported: set through the typed pointer
	switch t := pv.Interface().(type) {
	case *RAlpha:
		t.rn = rn
	case *RBeta:
		t.rn = rn
	case *RGamma:
		t.rn = rn
	case *RDelta:
		t.rn = rn
	case *RAlphaBeta:
		t.rn = rn
	}
	return pv
}
