package exec

import (
	"encoding/json"
	"os"
	"path/filepath"
	"testing"

	"verifharness/hx"
)

// smallWorld is the hand-written context used by pinned reproducers.
func smallWorld(strategy string) *Case {
	s := &hx.Schema{Types: []*hx.TypeDef{
		{Kind: hx.KEnum, Name: "E0", Values: []*hx.EnumValue{{Name: "RED"}, {Name: "GREEN"}}},
		{Kind: hx.KObject, Name: "T0", Fields: []*hx.Field{{Name: "a", Type: hx.Named("Int")}, {Name: "e", Type: hx.Named("E0")}, {Name: "o", Type: hx.Named("T0")}}},
		{Kind: hx.KObject, Name: "Query", Fields: []*hx.Field{{Name: "c", Type: hx.ListOf(hx.Named("T0"))}, {Name: "d", Type: hx.Named("T0")}, {Name: "z", Type: hx.ListOf(hx.Named("T0"))}}},
	}}
	g := &hx.Graph{Root: 0, Nodes: []*hx.Node{
		{ID: 0, Type: "", F: map[string]hx.Val{"query": hx.Ref(1)}},
		{ID: 1, Type: "Query", F: map[string]hx.Val{"c": hx.List(hx.Ref(2), hx.Ref(3)), "d": hx.Ref(3), "z": hx.List()}},
		{ID: 2, Type: "T0", F: map[string]hx.Val{"a": hx.I32(1), "e": hx.Str("RED"), "o": hx.Ref(3)}},
		{ID: 3, Type: "T0", F: map[string]hx.Val{"a": hx.Str("abc"), "e": hx.Str("BOGUS"), "o": hx.Ref(2)}},
	}}
	c := &Case{Schema: s, Graph: g, Layout: hx.Layout{Mode: "pretty"}}
	for range g.Nodes {
		switch strategy {
		case "R":
			c.Assign = append(c.Assign, "R")
		case "A":
			c.Assign = append(c.Assign, "A")
			c.AnyInstalled = true
		default:
			c.Assign = append(c.Assign, "X")
		}
	}
	return c
}

func knownCases() map[string]interface{} {
	out := map[string]interface{}{}
	// failure (a non numeric string for an Int) inside a named fragment
	c := smallWorld("R")
	c.Doc = &hx.Doc{
		Ops:   []*hx.Op{{Type: "query", Name: "Q", Sels: []*hx.Sel{{Kind: "field", Name: "c", Sels: []*hx.Sel{{Kind: "spread", Name: "F"}}}}}},
		Frags: []*hx.Frag{{Name: "F", On: "T0", Sels: []*hx.Sel{{Kind: "field", Name: "a"}}}},
	}
	c.Doc.Number()
	c.Op = "Q"
	c.Note = "coercion failure inside a named fragment: path gets a \"fragment at L:C\" element"
	out["KF-C06-fragment-path"] = c
	// undeclared enum name returned by a resolver
	c = smallWorld("R")
	c.Doc = &hx.Doc{Ops: []*hx.Op{{Type: "query", Name: "Q", Sels: []*hx.Sel{{Kind: "field", Name: "d", Sels: []*hx.Sel{{Kind: "field", Name: "e"}}}}}}}
	c.Doc.Number()
	c.Op = "Q"
	c.Note = "resolver returns \"BOGUS\" for a field of enum E0 {RED GREEN}"
	out["KF-C05-enum-undeclared"] = c
	// undefined field beneath an empty list: never resolved, never reported
	base := smallWorld("R")
	base.Doc = &hx.Doc{Ops: []*hx.Op{{Type: "query", Name: "Q", Sels: []*hx.Sel{{Kind: "field", Name: "z", Sels: []*hx.Sel{{Kind: "field", Name: "a"}}}}}}}
	base.Doc.Number()
	base.Op = "Q"
	bad := smallWorld("R")
	bad.Doc = &hx.Doc{Ops: []*hx.Op{{Type: "query", Name: "Q", Sels: []*hx.Sel{{Kind: "field", Name: "z", Sels: []*hx.Sel{{Kind: "field", Name: "a"}, {Kind: "field", Alias: "dfct", Name: "zzz"}}}}}}}
	bad.Doc.Number()
	bad.Op = "Q"
	bad.Note = "unknown-field \"zzz\" beneath the empty list z"
	out["KF-C10-lazy-validation"] = &c10Case{Case: bad, Base: base, Defect: Defect{Kind: "unknown-field", Name: "zzz", Key: "dfct", Con: "T0", ConKind: "object", Depth: 2}}
	// parse error right after a token that ends a line
	c = smallWorld("R")
	c.Doc = &hx.Doc{Ops: []*hx.Op{{Type: "query", Name: "Q", Sels: []*hx.Sel{{Kind: "field", Name: "d", Sels: []*hx.Sel{{Kind: "field", Name: "a"}}}}}}}
	c.Doc.Number()
	c.Op = "Q"
	out["KF-C07-lookahead-position"] = &c07Case{Case: c, Mode: "malformed", Mutated: "query Q {}\n __typename\n}\n"}
	return out
}

// TestWriteKnown regenerates the pinned reproducer files (development helper:
// VERIF_WRITE_KNOWN=<dir> go test -run TestWriteKnown ./exec/).
func TestWriteKnown(t *testing.T) {
	dir := os.Getenv("VERIF_WRITE_KNOWN")
	if dir == "" {
		t.Skip("VERIF_WRITE_KNOWN not set")
	}
	for id, c := range knownCases() {
		b, err := json.MarshalIndent(c, "", " ")
		if err != nil {
			t.Fatal(err)
		}
		if err := os.WriteFile(filepath.Join(dir, id+".json"), b, 0o644); err != nil {
			t.Fatal(err)
		}
	}
}
