package crash

import (
	"fmt"
	"math"
	"os"
	"strings"
	"testing"
	"time"

	"pgregory.net/rapid"

	"verifharness/hx"
	"verifharness/sdl"
)

var exeTokens = []string{"query", "mutation", "subscription", "fragment", "on", "{", "}", "(", ")", "[", "]", ":", "!", "=", "$", "@", "...", ",", "|", "&",
	"Query", "Other", "Named", "Any", "In", "Color", "String", "Int", "Boolean", "str", "num", "obj", "objs", "any", "anys", "named", "echo", "pick", "flip", "add", "sum", "inp",
	"col", "fail", "big", "set", "watch", "s", "b", "i", "j", "l", "in", "c", "x", "y", "t", "id", "a", "F", "G", "$v", "$w", "@skip", "@include", "@mark", "@nope", "if", "true", "false", "null",
	"RED", "BOGUS", "0", "1", "-1", "2147483648", "1.5", "1e400", "-0", "\"str\"", "\"\"", "\"\\u0041\"", "\"\\x\"", "\"unterminated", "\"\"\"block\"\"\"", "\"\"\"open", "#c\n", "\n", "\r\n", "\t",
	"\xef\xbb\xbf", "\x00", "\xff", "__typename", "__schema", "__type", "name", "types", "{a:1}", "[1,2]", "[[", "{{", "__x"}

var sdlTokens = []string{"type", "interface", "union", "enum", "input", "scalar", "directive", "schema", "extend", "implements", "on", "{", "}", "(", ")", "[", "]", ":", "!", "=", "|", "&", "@",
	"Query", "Mutation", "T", "U", "E", "I", "In", "S", "a", "b", "x", "Int", "String", "Boolean", "Nope", "query", "mutation", "subscription", "@d", "@deprecated", "@skip(if: true)", "@go(type: \"X\")",
	"FIELD", "OBJECT", "ENUM_VALUE", "BOGUS_LOCATION", "RED", "true", "null", "0", "1.5", "\"desc\"", "\"\"\"desc\"\"\"", "\"\\\"", "\"open", "\"\"\"open", "#c\n", "\n", ",", "\xef\xbb\xbf", "\x00", "\xff", "__T", "9x",
	"= [1]", "= {a: 1}", "= RED", "[[Int!]!]!", "!!"}

var valueTokens = []string{"{", "}", "[", "]", ":", ",", "a", "b", "\"k\"", "\"s\"", "\"\\n\"", "\"\\u00e9\"", "\"\\ud800\"", "\"open", "\"\"\"b\"\"\"", "1", "-1", "1.5", "1e5", "1e400", "-", "+1", "0x1", ".5", "1.", "--1",
	"true", "false", "null", "RED", "$v", "$", "#c\n", " ", "\n", "\x00", "\xff", "\xef\xbb\xbf", "{a:{b:[1,{c:2}]}}", "[[[[[[[[", "}}}}"}

var validRequests = []string{
	`{str num obj{str objs{num}} strs}`,
	`query Q($v: String!, $b: Boolean = true){echo(s: $v) pick(s: "x", b: $b) flip(b: false) add(i: 1, j: 2) sum(l: [1,2,3])}`,
	`query Q($in: In){inp(in: $in) i2: inp(in: {a: 1, b: ["x"], c: {a: 2}, d: GREEN, e: 1.5})}`,
	`{any{... on Query{str} ... on Other{num} __typename} anys{...F} named{str ... on Other{num}}} fragment F on Other {str num}`,
	`{obj @skip(if: false){str @include(if: true)} ...G} fragment G on Query @mark(x: 2){num}`,
	`mutation M{set(s: "x"){str}}`,
	`subscription S{watch(id: "a"){str}}`,
	`{__schema{types{name fields{name args{name defaultValue}}}} __type(name: "In"){inputFields{name defaultValue}}}`,
	`query A{str} query B{num}`,
	`{ginp(in: {name: "b", tags: ["x", null, "y"], nums: [1, null], big: [1, 9007199254740993], flags: [null], subs: [null, {name: "c", tags: [null]}], sub: null})}`,
	`{ginp(in: {tags: null, nums: [], subs: [{sub: {sub: {tags: [null, null]}}}], when: "2020-01-02T03:04:05Z", col: RED}, ins: [null, {name: null}, {nums: [2147483648]}])}`,
	`query Q($i: GIn, $l: [GIn]){ginp(in: $i, ins: $l)}`, `{ginp(in: {tags: "x", nums: 1, subs: {name: "n"}, flags: [1], when: 5, col: 7})}`, `{ginp(in: {big: [null], zzz: 1})}`,
	// a wrapper with nothing inside it, wherever a type or a name is read
	`query($v: !){str}`, `query($v: [!]){str}`, `query($v: [!]!){str}`, `{... on ! {str}}`, `{...F} fragment F on ! {str}`, `{str @!}`, `{str @[]}`, `{... on [] {str}}`, `query($v: []){str}`,
	`{stray{items sub{items} __typename ...on LA{items}} strays{items(first: 1) __typename sub{__typename}}}`, `{obj{stray{items}} strays{...F}} fragment F on Lister{items sub{items}}`,
	`{col(c: RED) big(x: 1, y: 1.5, t: "2020-01-02T03:04:05Z", id: 7) fail(s: "fail") when}`,
	`{ginp2(in: {name: "a"})}`, `{ginp2(in: {ghost: 1})}`, `{ginp2(in: {lost: [1, 2], name: "n"}, ins: [{ghost: null}, {deep: {ghost: 2}}])}`, `query Q($i: GIn2){ginp2(in: $i)}`,
	`{pairs{str num sub{str num}}}`, `{pairs{__typename num str} obj{pairs{sub{sub{str}} str}}}`, `{pairs{...P}} fragment P on Pair{num sub{num}}`,
}

// sdlAdversarial: small hostile schema documents (SDLNext separates successive loads into one root).
var sdlAdversarial = []string{
	``, `#`, "\ufeff", `schema {}`, `schema { query: Nope }`, `schema { query: Query } schema { query: Query } type Query { a: Int }`,
	`extend schema { mutation: M }`, `type Query { a: Int } type M { b: Int } extend schema { mutation: M }`,
	`extend schema { mutation: M } type M { b: Int } type Query { a: Int }`,
	// nothing but extensions, naming types every root has, as the first thing a root is given
	`extend schema { query: String }`, `extend schema { query: Int mutation: Boolean subscription: Time }`, `extend schema @deprecated { query: ID }`,
	`extend schema { query: String }` + "\n##next-load##\n" + `type Query { a: Int }`, `extend scalar Time @deprecated extend schema { mutation: Float }`,
	`union U = ! type Query { a: Int }`, `type Query implements ! { a: Int }`, `type Query @! { a: Int }`, `type Query { a: ! }`, `type Query { a(x: !): Int }`, `input I { a: ! } type Query { a: Int }`,
	// a directive definition that ends where its locations should begin
	`type Query { a: Int } directive @zz on`, `directive @zz on`, `directive @zz on |`, `directive @zz on "described" type Query { a: Int }`, "directive @zz on # comment\ntype Query { a: Int }",
	`directive @zz(a: Int) on | type Query { a: Int @zz }`, `directive @zz on type Query { a: Int }`,
	`union U = [] type Query { a: Int }`, `type Query implements [!] { a: Int }`, `directive @d(p: !) on FIELD type Query { a: Int }`, `schema { query: ! }`, `extend type ! { a: Int }`,
	`extend schema @deprecated`, `extend schema`, `extend`, `extend type`, `extend type Nope { a: Int }`, `extend Query { a: Int }`,
	`type Query { a: Int } extend type Query`, `type Query { a: Int } extend type Query { a: Int }`, `type Query { a: Int } extend enum Query { A }`,
	`type Query { a: Int } extend interface Query { b: Int }`, `type Query { a: Int } extend union Query = Query`, `type Query { a: Int } extend input Query { b: Int }`,
	`type Query { a: Int } extend scalar Time @deprecated`, `extend scalar Int @deprecated`, `extend type __Type { x: Int }`, `extend enum __TypeKind { X }`,
	`extend directive @skip(x: Int) on FIELD`, `type Query { a: Int } extend type Query @go(type: 3)`,
	`type Query implements Query { a: Int }`, `interface I implements I { a: Int } type Query implements I { a: Int }`, `union U = U type Query { u: U }`,
	`union U = | type Query { a: Int }`, `union U type Query { a: Int }`, `input A { a: A! } type Query { f(a: A): Int }`, `input A { a: A = {} } type Query { f(a: A = {}): Int }`,
	`input A { a: [A!]! = [{}] } type Query { f(a: A): Int }`, `enum E { true false null } type Query { e: E }`, `enum E {} type Query { e: E }`,
	`type Query { a(x: Int = "s"): Int }`, `type Query { a(x: [Int] = [[1]]): Int }`, `type Query { a(x: Int = $v): Int }`, `type Query { a(x: E = A): Int }`,
	`directive @d(p: In = {x: {x: {x: 1}}}) on FIELD_DEFINITION input In { x: In } type Query { a: Int @d }`,
	`directive @d on NOWHERE type Query { a: Int }`, `directive @d on type Query { a: Int }`, `directive @d(p: Int @d) on ARGUMENT_DEFINITION type Query { a: Int }`,
	`directive @a(p: Int @b) on ARGUMENT_DEFINITION directive @b(p: Int @a) on ARGUMENT_DEFINITION type Query { a: Int }`,
	`type Query { a: Int @nope! }`, `type Query { a: Int @[deprecated] }`, `type Query @deprecated(reason: {a: 1}) { a: Int }`, `type Query { a: [[[[[[[[Int!]!]!]!]!]!]!]!]! }`,
	`type Query { a: Int!! }`, `type Query { a: [Int }`, `type Query { a: ]Int[ }`, `type Query { a(: Int): Int }`, `type Query { a(x: Int,,,): Int }`, `type Query { : Int }`,
	`type Query { a: Int } type Query { b: Int }`, `scalar Int type Query { a: Int }`, `scalar Time type Query { a: Time }`, `type Int { a: Int } type Query { a: Int }`,
	`type __Foo { a: Int } type Query { a: Int }`, `type Query { __a: Int }`, `type Query { a(__x: Int): Int }`, `"""unterminated type Query { a: Int }`, `"unterminated
type Query { a: Int }`, `type Query { a: Int } """`, `type Query { "" a: Int }`, `type Query { """""" a: Int }`, `type Query { a: Int } #`,
	"type Query { a: Int }\n}", `type Query { a: Int } )`, `type Query { a: Int } !`, "type Query { a: Int }\xff", `type Query { a: Int } =`, `type Query { a: Int } "`, `type Query { a: Int } @`,
	`directive @a(x: Int @b) on ARGUMENT_DEFINITION | INPUT_FIELD_DEFINITION directive @b(y: Int @c) on ARGUMENT_DEFINITION | INPUT_FIELD_DEFINITION directive @c(z: Int @b) on ARGUMENT_DEFINITION | INPUT_FIELD_DEFINITION type Query { a: Int }`,
	`directive @c(z: Int @b) on INPUT_FIELD_DEFINITION directive @b(y: Int @c) on INPUT_FIELD_DEFINITION directive @a(x: Int @b, y: Int @c, z: Int @b) on INPUT_FIELD_DEFINITION type Query { a: Int }`,
	`directive @a(x: Int @b, y: Int @b) on INPUT_FIELD_DEFINITION directive @b on INPUT_FIELD_DEFINITION | ARGUMENT_DEFINITION type Query { a: Int }`,
	`input A { a: A = {} b: Int } type Query { f(x: A): Int }`, `input A { a: [A] = [{}] } type Query { f(x: A): Int g(x: [A!] = [{}]): Int }`,
	`input A { a: A = {a: null} b: Int } type Query { f(x: A): Int }`, `input A { a: [A] = [{a: null}] } type Query { f(x: A): Int }`, `input A { a: A = {a: {a: null}} } type Query { f(x: A = {}): Int }`,
	`input A { b: B = {a: null} } input B { a: A = {b: null} } type Query { f(x: A!, y: B): Int }`,
	`input A { b: B = {} } input B { a: A = {} } type Query { f(x: A!, y: B): Int }`, `input A { a: A } type Query { f(x: A = {a: {a: {}}}): Int }`,
	`type Mutation { a: Int }`, `type Subscription { a: Int }`, `enum Query { A }`, `input Query { a: Int }`, `scalar Query`, `interface Query { a: Int }`, `union Query = Query`,
	"type Query { a: Int }" + "\n##next-load##\n" + "type Query { b: Int }",
	"type Query { a: Int }" + "\n##next-load##\n" + "extend type Query { a: Int }" + "\n##next-load##\n" + "extend type Query { b: Int }",
	"type Query { a: Int }" + "\n##next-load##\n" + "schema { query: Nope }" + "\n##next-load##\n" + "type M { b: Int } extend schema { mutation: M }",
	"type Query { a: I } interface I { x: Int } type T implements I { x: Int }" + "\n##next-load##\n" + "extend interface I { y: Int }" + "\n##next-load##\n" + "extend type T { y: Int }",
	"extend schema { mutation: M }" + "\n##next-load##\n" + "type M { b: Int }" + "\n##next-load##\n" + "type Query { a: Int }",
	"schema { query: Q } type Q { a: Int }" + "\n##next-load##\n" + "schema { query: R } type R { a: Int }",
	"directive @d(p: Int = 1) on OBJECT type Query @d { a: Int }" + "\n##next-load##\n" + "directive @d(p: String) on OBJECT",
	"enum E { A } type Query { f(e: E = A): E }" + "\n##next-load##\n" + "extend enum E { A }" + "\n##next-load##\n" + "extend enum E { B @deprecated }",
}

var adversarial = []string{
	`{la{...F} lb{...F}} fragment F on Lister {items(first: 3)}`, `{lb{...F} la{...F}} fragment F on Lister {items(first: 3) sub{items}}`,
	`{listers{items(first: 1) sub{items(first: 2)}}}`, `{la{... on Lister{items(first: 1)}} listers{... on Lister{items(first: 1)}}}`, `{la{items(after: "x", first: 1, tags: [])} lb{items(after: "x")}}`,
	`{hidden}`, `{private}`, `{obj{hidden private}}`, `{a: hidden b: private objs{hidden}}`,
	`{ items: strs items: objs { str } }`, `{ x: objs { str } x: anys { __typename } }`, `{ x: strs x: anys { __typename } }`, `{obj{ l: strs l: objs {num} l: anys {__typename}}}`,
	`{inp(in: {zzz: ["x"]})}`, `{inp(in: {zzz: [[1], {a: [2]}]})}`, `{inp(in: {c: {zzz: [1, 2]}})}`, `{inp(in: {b: [["x"]], zzz: {y: [1]}})}`,
	`{...F} fragment F on Query {...F}`,
	`{...F} fragment F on Query {obj{...G}} fragment G on Query {obj{...F}}`,
	`{obj{...F}} fragment F on Query {objs{...F}}`,
	`{...Undefined}`,
	`query($a:){str}`,
	`query($0:[])0`,
	`query($a: []){str}`,
	`query($a: [[]!]){str}`,
	`query($a: Nope){str}`,
	`query($a: [){str}`,
	`{echo}`,
	`{echo(s: null)}`,
	`{echo(s: 3)}`,
	`{echo(s: "a", s: "b")}`,
	`{echo(x: "a")}`,
	`{echo(s: "a", extra: 1)}`,
	`{pick(b: true)}`,
	`{pick(s: 3, b: "x")}`,
	`{flip(b: null)}`,
	`{add(i: "x", j: 2)}`,
	`{add(i: 1.5)}`,
	`{add(i: 99999999999999999999)}`,
	`{sum(l: 3)}`,
	`{sum(l: [1, null, "x"])}`,
	`{inp(in: 3)}`,
	`{inp(in: {zzz: 1})}`,
	`{inp(in: {c: {c: {c: {c: 3}}}})}`,
	`{col(c: "RED")}`,
	`{col(c: 3)}`,
	`query($v: String!){echo(s: $v)}`,
	`query($v: Int){echo(s: $v)}`,
	`query($v: [In!]!){inp(in: $v)}`,
	`{str{str}}`,
	`{obj}`,
	`{__type}`,
	`{__type(name: 3){name}}`,
	`{__schema}`,
	`{__typename{x}}`,
	`{any{str}}`,
	`{named{num}}`,
	`{obj @skip(if: $undefined){str}}`,
	`{obj @skip{str}}`,
	`{obj @skip(if: 3){str}}`,
	`{str @mark(l: [1])}`,
	`{str @mark(x: [1])}`,
	`subscription{watch(id: 3){str}}`,
	`subscription{__typename}`,
	`mutation{set{str}}`,
	`query Q{str} query Q{num}`,
	`{a:}`,
	`{:a}`,
	`{ a: b: c }`,
	`fragment on Query {str}`,
	`fragment F {str}`,
	`fragment F on {str}`,
	`{... on {str}}`,
	`{...}`,
	`{... @skip(if: true)}`,
}

func genSoup(t *rapid.T, toks []string, label string) string {
	n := rapid.IntRange(1, 40).Draw(t, label+"n")
	var b strings.Builder
	for i := 0; i < n; i++ {
		b.WriteString(rapid.SampledFrom(toks).Draw(t, fmt.Sprintf("%s%d", label, i)))
		b.WriteString(rapid.SampledFrom([]string{" ", " ", "", "\n"}).Draw(t, fmt.Sprintf("%ssep%d", label, i)))
	}
	return b.String()
}

func mutateText(t *rapid.T, text string, toks []string, label string) (string, string) {
	bs := []byte(text)
	ops := ""
	for i := 0; i < rapid.IntRange(1, 3).Draw(t, label+"nMut"); i++ {
		if len(bs) == 0 {
			break
		}
		pos := rapid.IntRange(0, len(bs)-1).Draw(t, fmt.Sprintf("%spos%d", label, i))
		switch op := rapid.SampledFrom([]string{"truncate", "delete", "insert-token", "replace-byte", "duplicate-range", "swap-bracket"}).Draw(t, fmt.Sprintf("%sop%d", label, i)); op {
		case "truncate":
			bs = bs[:pos]
			ops += op + " "
		case "delete":
			end := pos + rapid.IntRange(1, 6).Draw(t, fmt.Sprintf("%slen%d", label, i))
			if end > len(bs) {
				end = len(bs)
			}
			bs = append(bs[:pos:pos], bs[end:]...)
			ops += op + " "
		case "insert-token":
			tok := rapid.SampledFrom(toks).Draw(t, fmt.Sprintf("%stok%d", label, i))
			bs = append(bs[:pos:pos], append([]byte(tok), bs[pos:]...)...)
			ops += op + " "
		case "replace-byte":
			bs[pos] = rapid.Byte().Draw(t, fmt.Sprintf("%sbyte%d", label, i))
			ops += op + " "
		case "duplicate-range":
			end := pos + rapid.IntRange(1, 20).Draw(t, fmt.Sprintf("%sdlen%d", label, i))
			if end > len(bs) {
				end = len(bs)
			}
			dup := append([]byte{}, bs[pos:end]...)
			bs = append(bs[:end:end], append(dup, bs[end:]...)...)
			ops += op + " "
		case "swap-bracket":
			for j := pos; j < len(bs); j++ {
				if k := strings.IndexByte("{}()[]", bs[j]); k >= 0 {
					bs[j] = "}{)(]["[k]
					break
				}
			}
			ops += op + " "
		}
	}
	return string(bs), ops
}

func genJSONValue(t *rapid.T, depth int, label string) interface{} {
	k := rapid.IntRange(0, 12).Draw(t, label+"k")
	if depth <= 0 && k > 9 {
		k = 0
	}
	switch k {
	case 0:
		return nil
	case 1:
		return rapid.Bool().Draw(t, label+"b")
	case 2:
		return rapid.SampledFrom([]string{"", "x", "RED", "fail", "2020-01-02T03:04:05Z", "\x00\xff", "3"}).Draw(t, label+"s")
	case 3:
		return rapid.SampledFrom([]float64{0, 1, -1, 1.5, 1e300, math.MaxFloat64, math.NaN(), math.Inf(1), 2147483648, 1e19}).Draw(t, label+"f")
	case 4:
		return rapid.SampledFrom([]int64{0, 1, -1, math.MaxInt32 + 1, math.MinInt64, math.MaxInt64}).Draw(t, label+"i64")
	case 5:
		return int32(rapid.Int32().Draw(t, label+"i32"))
	case 6:
		return rapid.Int().Draw(t, label+"int")
	case 7:
		return rapid.SampledFrom([]interface{}{uint8(1), uint64(math.MaxUint64), float32(1.5), int8(-1), uint(7), struct{ X int }{1}, []string{"a"}, []int{1}, map[string]string{"a": "b"}, time.Unix(0, 0), (*int)(nil)}).Draw(t, label+"odd")
	case 8, 9:
		return rapid.SampledFrom([]string{"a", "b"}).Draw(t, label+"s2")
	case 10, 11:
		n := rapid.IntRange(0, 3).Draw(t, label+"ln")
		l := make([]interface{}, 0, n)
		for i := 0; i < n; i++ {
			l = append(l, genJSONValue(t, depth-1, fmt.Sprintf("%s_%d", label, i)))
		}
		return l
	default:
		n := rapid.IntRange(0, 3).Draw(t, label+"mn")
		m := map[string]interface{}{}
		for i := 0; i < n; i++ {
			key := rapid.SampledFrom([]string{"a", "b", "c", "d", "e", "f", "zzz", ""}).Draw(t, fmt.Sprintf("%skey%d", label, i))
			m[key] = genJSONValue(t, depth-1, fmt.Sprintf("%s_%d", label, i))
		}
		return m
	}
}

func genVars(t *rapid.T, label string) map[string]interface{} {
	if rapid.IntRange(0, 3).Draw(t, label+"none") == 0 {
		return nil
	}
	m := map[string]interface{}{}
	for _, name := range []string{"v", "w", "b", "in", "a", "undefined"} {
		if rapid.Bool().Draw(t, label+name+"has") {
			m[name] = genJSONValue(t, 3, label+name)
		}
	}
	// JSON shaped values for the Go-bound input of the corpus request Q($i: GIn, $l: [GIn])
	if rapid.Bool().Draw(t, label+"gin") {
		m["i"] = rapid.SampledFrom([]interface{}{
			map[string]interface{}{"tags": []interface{}{nil}, "nums": []interface{}{nil, 1.0}},
			map[string]interface{}{"subs": []interface{}{nil, map[string]interface{}{"tags": []interface{}{"a", nil}}}, "sub": nil},
			map[string]interface{}{"big": []interface{}{nil}}, map[string]interface{}{"flags": []interface{}{nil, true}, "when": nil, "col": nil},
			[]interface{}{nil}, nil, "x",
		}).Draw(t, label+"giv")
		m["l"] = rapid.SampledFrom([]interface{}{[]interface{}{nil}, []interface{}{map[string]interface{}{"tags": []interface{}{nil}}, nil}, nil, map[string]interface{}{"name": "n"}}).Draw(t, label+"glv")
	}
	return m
}

func deepNest(t *rapid.T) (string, string) {
	// Depths are bounded so that the printers' indentation (quadratic in the nesting depth) stays
	// well below the watchdog: the property is about crashes and endless loops, not about speed.
	n := rapid.SampledFrom([]int{50, 120, 300, 1000, 4000}).Draw(t, "nestDepth")
	switch rapid.IntRange(0, 5).Draw(t, "nestKind") {
	case 0:
		return strings.Repeat("{obj", n) + "{str}" + strings.Repeat("}", n), "exe"
	case 1:
		return "{sum(l: " + strings.Repeat("[", n) + strings.Repeat("]", n) + ")}", "exe"
	case 2:
		if n > 1000 {
			n = 1000 // (coercing nested input objects is quadratic in the depth: every level coerces its subtree again)
		}
		return "{inp(in: " + strings.Repeat("{c: ", n) + "null" + strings.Repeat("}", n) + ")}", "exe"
	case 3:
		return "type Query { a: " + strings.Repeat("[", n) + "Int" + strings.Repeat("]", n) + " }", "sdl"
	case 4:
		return strings.Repeat("[", n) + strings.Repeat("]", n), "value"
	default:
		return "{" + strings.Repeat("... on Query {", n) + "str" + strings.Repeat("}", n) + "}", "exe"
	}
}

// fragmentGraph writes a request whose named fragments spread each other along a drawn graph:
// chains, diamonds, self loops and cycles of any length, entered from any fragment.
func fragmentGraph(t *rapid.T) string {
	n := rapid.IntRange(1, 6).Draw(t, "nFrags")
	pool := rapid.Permutation([]string{"Aa", "Bb", "Cc", "Dd", "Zz", "M", "a", "F0", "F1"}).Draw(t, "fragNames")
	names := pool[:n]
	var b strings.Builder
	entry := rapid.SampledFrom(names).Draw(t, "entry")
	where := rapid.SampledFrom([]string{"{...%s}", "{obj{...%s}}", "{objs{...%s str}}", "query Q{str ...%s}"}).Draw(t, "entryShape")
	fmt.Fprintf(&b, where, entry)
	for i, name := range names {
		fmt.Fprintf(&b, " fragment %s on Query {str", name)
		for j := 0; j < rapid.IntRange(0, 2).Draw(t, fmt.Sprintf("f%dn", i)); j++ {
			target := rapid.SampledFrom(names).Draw(t, fmt.Sprintf("f%d_%d", i, j))
			if rapid.Bool().Draw(t, fmt.Sprintf("f%d_%dnest", i, j)) {
				fmt.Fprintf(&b, " obj{...%s}", target)
			} else {
				fmt.Fprintf(&b, " ...%s", target)
			}
		}
		b.WriteString("}")
	}
	return b.String()
}

// directiveGraph writes a schema document whose directive definitions use each other on their
// arguments along a drawn graph: chains, diamonds, self loops, cycles and paths leading into a cycle.
func directiveGraph(t *rapid.T) string {
	n := rapid.IntRange(1, 6).Draw(t, "nDirs")
	names := rapid.Permutation([]string{"a", "b", "c", "d", "zz", "M", "d0", "Query"}).Draw(t, "dirNames")[:n]
	var b strings.Builder
	if rapid.Bool().Draw(t, "typeFirst") {
		b.WriteString("type Query { a: Int }\n")
	}
	for i, name := range names {
		fmt.Fprintf(&b, "directive @%s", name)
		k := rapid.IntRange(0, 3).Draw(t, fmt.Sprintf("d%dn", i))
		if k > 0 {
			b.WriteString("(")
			for j := 0; j < k; j++ {
				fmt.Fprintf(&b, "p%d: Int", j)
				for u := 0; u < rapid.IntRange(0, 2).Draw(t, fmt.Sprintf("d%d_%du", i, j)); u++ {
					fmt.Fprintf(&b, " @%s", rapid.SampledFrom(names).Draw(t, fmt.Sprintf("d%d_%d_%d", i, j, u)))
				}
				b.WriteString(" ")
			}
			b.WriteString(")")
		}
		b.WriteString(" on ARGUMENT_DEFINITION | INPUT_FIELD_DEFINITION | FIELD_DEFINITION\n")
	}
	fmt.Fprintf(&b, "type T { f(x: Int @%s): Int @%s }\n", rapid.SampledFrom(names).Draw(t, "useArg"), rapid.SampledFrom(names).Draw(t, "useField"))
	if rapid.IntRange(0, 3).Draw(t, "split") == 0 {
		return strings.Replace(b.String(), "\ndirective", SDLNext+"directive", 1)
	}
	return b.String()
}

// genSchemaRequest writes a request over the crash schema from its field table: aliases collide
// (also across fields of different types), arguments get values of any shape - wrong kinds, nested
// lists and objects, undeclared members - and selections nest through the object valued fields.
func genSchemaRequest(t *rapid.T) string {
	var val func(depth int, label string) string
	val = func(depth int, label string) string {
		k := rapid.IntRange(0, 11).Draw(t, label+"k")
		if depth > 2 && k >= 9 {
			k = 0
		}
		switch k {
		case 0:
			return rapid.SampledFrom([]string{"1", "-1", "2147483648", "1.5", "1e400", "0"}).Draw(t, label+"n")
		case 1:
			return rapid.SampledFrom([]string{`"s"`, `""`, `"fail"`, `"""b"""`, `"\u00e9"`}).Draw(t, label+"s")
		case 2:
			return rapid.SampledFrom([]string{"true", "false", "null"}).Draw(t, label+"b")
		case 3:
			return rapid.SampledFrom([]string{"RED", "GREEN", "BLUE", "x"}).Draw(t, label+"e")
		case 4:
			return "$" + rapid.SampledFrom([]string{"v", "u", "in"}).Draw(t, label+"v")
		case 5, 6, 7, 8:
			return rapid.SampledFrom([]string{"1", `"s"`, "true", "RED", "null"}).Draw(t, label+"c")
		case 9:
			n := rapid.IntRange(0, 3).Draw(t, label+"ln")
			parts := make([]string, n)
			for i := range parts {
				parts[i] = val(depth+1, fmt.Sprintf("%s_%d", label, i))
			}
			return "[" + strings.Join(parts, " ") + "]"
		default:
			n := rapid.IntRange(0, 3).Draw(t, label+"on")
			parts := make([]string, n)
			for i := range parts {
				key := rapid.SampledFrom([]string{"a", "b", "c", "d", "e", "f", "zzz", "in"}).Draw(t, fmt.Sprintf("%s_k%d", label, i))
				parts[i] = key + ": " + val(depth+1, fmt.Sprintf("%s_o%d", label, i))
			}
			return "{" + strings.Join(parts, " ") + "}"
		}
	}
	type fdef struct {
		name string
		args []string
		obj  bool
	}
	fields := []fdef{{"str", nil, false}, {"num", nil, false}, {"when", nil, false}, {"strs", nil, false}, {"hidden", nil, false}, {"__typename", nil, false},
		{"obj", nil, true}, {"objs", nil, true}, {"any", nil, true}, {"anys", nil, true}, {"named", nil, true},
		{"la", nil, true}, {"lb", nil, true}, {"listers", nil, true}, {"sub", nil, true}, {"items", []string{"first", "after", "tags"}, false}, {"...LF", nil, false},
		{"echo", []string{"s"}, false}, {"pick", []string{"s", "b"}, false}, {"flip", []string{"b"}, false}, {"add", []string{"i", "j"}, false},
		{"sum", []string{"l"}, false}, {"inp", []string{"in"}, false}, {"col", []string{"c"}, false}, {"fail", []string{"s"}, false}, {"big", []string{"x", "y", "t", "id"}, false}}
	var sels func(depth int, label string) string
	sels = func(depth int, label string) string {
		n := rapid.IntRange(1, 4).Draw(t, label+"n")
		var b strings.Builder
		b.WriteString("{")
		for i := 0; i < n; i++ {
			l := fmt.Sprintf("%s_%d", label, i)
			f := rapid.SampledFrom(fields).Draw(t, l+"f")
			if depth > 2 && f.obj {
				f = fields[0]
			}
			if rapid.IntRange(0, 2).Draw(t, l+"alias") == 0 {
				b.WriteString(rapid.SampledFrom([]string{"x", "y", "str", "objs"}).Draw(t, l+"a") + ": ")
			}
			b.WriteString(f.name)
			var args []string
			for _, a := range f.args {
				if rapid.IntRange(0, 5).Draw(t, l+a+"omit") != 0 {
					args = append(args, a+": "+val(0, l+a))
				}
			}
			if rapid.IntRange(0, 9).Draw(t, l+"extra") == 0 {
				args = append(args, "zzz: "+val(0, l+"zzz"))
			}
			if len(args) > 0 {
				b.WriteString("(" + strings.Join(args, " ") + ")")
			}
			if f.obj && rapid.IntRange(0, 9).Draw(t, l+"noSel") != 0 {
				b.WriteString(sels(depth+1, l))
			} else if !f.obj && rapid.IntRange(0, 14).Draw(t, l+"leafSel") == 0 {
				b.WriteString("{str}")
			}
			b.WriteString(" ")
		}
		b.WriteString("}")
		return b.String()
	}
	defer func() {}()
	head := rapid.SampledFrom([]string{"", "", "query Q", "query Q($v: Int = 1, $u: [String] = [\"a\"], $in: In = {})", "query Q($v: String, $in: In!)"}).Draw(t, "head")
	body := sels(0, "s")
	if strings.Contains(body, "...LF") {
		body += " fragment LF on Lister { x: items(first: " + val(0, "lff") + ") sub { items } }"
	}
	return head + body
}

// inputDefaultGraph writes input types whose field defaults are objects and lists of each other
// (given, left out or given as null) and a query type taking them: whatever is accepted is then fed
// {} and [{}] by the probe requests, which makes ggql fill in every default there is.
func inputDefaultGraph(t *rapid.T) string {
	names := []string{"A", "B", "C"}[:rapid.IntRange(1, 3).Draw(t, "nInputs")]
	var b strings.Builder
	for _, n := range names {
		fmt.Fprintf(&b, "input %s {", n)
		for j := 0; j < rapid.IntRange(1, 3).Draw(t, n+"nf"); j++ {
			fn := string(rune('a' + j))
			target := rapid.SampledFrom(names).Draw(t, n+fn+"t")
			typ := rapid.SampledFrom([]string{target, "[" + target + "]", "[" + target + "!]", target + "!", "Int", "String"}).Draw(t, n+fn+"ty")
			def := ""
			if typ != "Int" && typ != "String" {
				inner := rapid.SampledFrom([]string{"{}", "{a: null}", "{a: {}}", "{b: null, a: {a: null}}", "{a: [{}]}"}).Draw(t, n+fn+"in")
				if strings.HasPrefix(typ, "[") {
					inner = rapid.SampledFrom([]string{"[" + inner + "]", "[]", "[" + inner + ", " + inner + "]", "[null]"}).Draw(t, n+fn+"li")
				}
				def = rapid.SampledFrom([]string{"", " = " + inner, " = " + inner, " = null"}).Draw(t, n+fn+"d")
			} else if rapid.Bool().Draw(t, n+fn+"sd") {
				def = " = " + map[string]string{"Int": "1", "String": "\"s\""}[typ]
			}
			fmt.Fprintf(&b, " %s: %s%s", fn, typ, def)
		}
		b.WriteString(" }\n")
	}
	b.WriteString("type Query {")
	for i, n := range names {
		fmt.Fprintf(&b, " f%d(x: %s, l: [%s!] = [{}]): Int", i, n, n)
	}
	b.WriteString(" }\n")
	if rapid.IntRange(0, 3).Draw(t, "dirDefault") == 0 {
		fmt.Fprintf(&b, "directive @dd(p: %s = {}) on OBJECT\n", names[0])
	}
	return b.String()
}

func genInput(t *rapid.T) *Input {
	in := &Input{Fault: -1}
	switch kind := rapid.SampledFrom([]string{"exe-soup", "exe-mutated", "exe-mutated", "exe-adversarial", "exe-adversarial", "exe-valid-badvars", "exe-fragment-graph", "exe-fragment-graph", "exe-schema-request", "exe-schema-request", "exe-schema-request", "sdl-soup", "sdl-mutated", "sdl-mutated", "sdl-adversarial", "sdl-adversarial-mutated", "sdl-multi-load", "sdl-directive-graph", "sdl-input-defaults",
		"sdl-valid", "value-soup", "value-bytes", "bytes", "deep-nesting", "writer"}).Draw(t, "kind"); kind {
	case "exe-fragment-graph":
		in.Target, in.Text, in.Note = "exe", fragmentGraph(t), kind
	case "exe-schema-request":
		in.Target, in.Text, in.Note = "exe", genSchemaRequest(t), kind
	case "exe-soup":
		in.Target, in.Text, in.Note = "exe", genSoup(t, exeTokens, "x"), kind
	case "exe-mutated":
		base := rapid.SampledFrom(append(append([]string{}, validRequests...), adversarial...)).Draw(t, "base")
		txt, ops := mutateText(t, base, exeTokens, "xm")
		in.Target, in.Text, in.Note = "exe", txt, kind+": "+ops
	case "exe-adversarial":
		in.Target, in.Text, in.Note = "exe", rapid.SampledFrom(adversarial).Draw(t, "adv"), kind
	case "exe-valid-badvars":
		in.Target, in.Text, in.Note = "exe", rapid.SampledFrom(validRequests).Draw(t, "valid"), kind
	case "sdl-directive-graph":
		in.Target, in.Text, in.Note = "sdl", directiveGraph(t), kind
	case "sdl-input-defaults":
		in.Target, in.Text, in.Note = "sdl", inputDefaultGraph(t), kind
	case "sdl-adversarial":
		in.Target, in.Text, in.Note = "sdl", rapid.SampledFrom(sdlAdversarial).Draw(t, "sadv"), kind
	case "sdl-adversarial-mutated":
		txt, ops := mutateText(t, rapid.SampledFrom(sdlAdversarial).Draw(t, "sadv"), sdlTokens, "sam")
		in.Target, in.Text, in.Note = "sdl", txt, kind+": "+ops
	case "sdl-multi-load":
		// a generated schema cut into successive loads (definitions permuted, members in extend blocks), one of them damaged
		s := sdl.GenFull(t, sdl.Opts{Descs: true, Directives: true, Deprecated: true})
		parts := sdl.Arrange(t, s, hx.SDLOpts{}, "ml", true, 4).Texts()
		i := rapid.IntRange(0, len(parts)-1).Draw(t, "damaged")
		ops := ""
		if rapid.IntRange(0, 3).Draw(t, "damage") != 0 {
			parts[i], ops = mutateText(t, parts[i], sdlTokens, "mlm")
		}
		if rapid.IntRange(0, 3).Draw(t, "repeat") == 0 {
			parts = append(parts, parts[rapid.IntRange(0, len(parts)-1).Draw(t, "again")])
		}
		in.Target, in.Text, in.Note = "sdl", strings.Join(parts, SDLNext), kind+": "+ops
	case "sdl-soup":
		in.Target, in.Text, in.Note = "sdl", genSoup(t, sdlTokens, "s"), kind
	case "sdl-mutated", "sdl-valid":
		s := sdl.GenFull(t, sdl.Opts{Descs: true, HostileTxt: rapid.Bool().Draw(t, "hostile"), Directives: true, Deprecated: true})
		txt := s.SDL(hx.SDLOpts{BlockDesc: rapid.Bool().Draw(t, "block")})
		ops := ""
		if kind == "sdl-mutated" {
			txt, ops = mutateText(t, txt, sdlTokens, "sm")
		}
		in.Target, in.Text, in.Note = "sdl", txt, kind+": "+ops
	case "value-soup":
		in.Target, in.Text, in.Note = "value", genSoup(t, valueTokens, "v"), kind
	case "value-bytes":
		in.Target, in.Text, in.Note = "value", string(rapid.SliceOfN(rapid.Byte(), 0, 40).Draw(t, "vb")), kind
	case "bytes":
		in.Target = rapid.SampledFrom([]string{"sdl", "exe", "value"}).Draw(t, "bytesTarget")
		in.Text, in.Note = string(rapid.SliceOfN(rapid.Byte(), 0, 60).Draw(t, "raw")), kind
	case "deep-nesting":
		in.Text, in.Target = deepNest(t)
		in.Note = kind
	case "writer":
		in.Target, in.Note = "writer", kind
		in.Vars = map[string]interface{}{"v": genJSONValue(t, 4, "wv"), "k\"q": genJSONValue(t, 2, "wk")}
		return in
	}
	if in.Target == "exe" {
		in.Vars = genVars(t, "vars")
		in.Op = rapid.SampledFrom([]string{"", "", "Q", "A", "Nope"}).Draw(t, "op")
	}
	if in.Target != "writer" && rapid.IntRange(0, 4).Draw(t, "fault") == 0 && len(in.Text) > 0 {
		in.Fault = rapid.IntRange(0, len(in.Text)).Draw(t, "faultAt")
		in.Mode = rapid.IntRange(0, 4).Draw(t, "faultMode")
		if rapid.IntRange(0, 2).Draw(t, "faultAtEnd") == 0 {
			in.Fault = len(in.Text) // the reader misbehaves with the last bytes: error or EOF together with data
		}
	}
	return in
}

func showVars(v map[string]interface{}) string { return hx.Trunc(fmt.Sprintf("%#v", v), 600) }

func TestC03(t *testing.T) {
	run := hx.NewRun("C03")
	defer run.Flush()
	crumb := ""
	if out := os.Getenv("VERIF_OUT"); out != "" {
		crumb = out + ".crumb"
	}
	one := func(fatal func(string, ...interface{}), in *Input) {
		Crumb(crumb, in)
		out := Run(in, 20*time.Second)
		cl := []string{"target=" + in.Target, "kind=" + strings.SplitN(in.Note, ":", 2)[0]}
		cl = append(cl, out.Reached...)
		if in.Fault >= 0 {
			cl = append(cl, fmt.Sprintf("reader-fault-mode=%d", in.Mode))
		}
		nt := false
		for _, r := range out.Reached {
			switch r {
			case "past-first-token", "exe-parsed", "value-parsed", "writer-ran", "sdl-accepted":
				nt = true
			}
		}
		if strings.HasPrefix(in.Note, "exe-") && len(in.Text) > 3 {
			nt = true
		}
		run.Case(hx.Hash(in), nt, dedup(cl)...)
		run.Sample(func() interface{} {
			return map[string]interface{}{"target": in.Target, "note": in.Note, "text": hx.Trunc(in.Text, 300), "reached": dedup(out.Reached)}
		})
		var ds []hx.Discrepancy
		if out.Panic != nil {
			ds = append(ds, hx.Discrepancy{Kind: "panic", Detail: fmt.Sprintf("target %s panicked: %v\ninput (%s): %q\nop=%q vars=%s reader fault=%d/%d", in.Target, out.Panic, in.Note, hx.Trunc(in.Text, 1500), in.Op, showVars(in.Vars), in.Fault, in.Mode)})
		}
		if out.Hang {
			// confirm with a longer watchdog before reporting
			if again := Run(in, 60*time.Second); again.Hang {
				ds = append(ds, hx.Discrepancy{Kind: "hang", Detail: fmt.Sprintf("target %s did not return within 60s\ninput (%s): %q\nop=%q vars=%s reader fault=%d/%d", in.Target, in.Note, hx.Trunc(in.Text, 1500), in.Op, showVars(in.Vars), in.Fault, in.Mode)})
			}
		}
		if real := run.Triage(ds); len(real) > 0 {
			fatal("C03 violated: %s", run.ReportFailure(in, real))
		}
	}
	if f := hx.Replaying(); f != "" {
		var in Input
		if err := hx.LoadCase(f, &in); err != nil {
			t.Fatalf("load %s: %v", f, err)
		}
		one(func(f string, a ...interface{}) { t.Fatalf("REPLAY-FAIL "+f, a...) }, &in)
		return
	}
	// the fixed corpus first (in one shard only): every hand-written adversarial and valid request, on its own
	if sh := os.Getenv("VERIF_SHARD"); sh != "" && sh != "0" {
		rapid.Check(t, func(rt *rapid.T) { one(rt.Fatalf, genInput(rt)) })
		return
	}
	for _, txt := range append(append([]string{}, adversarial...), validRequests...) {
		for _, op := range []string{"", "Q"} {
			one(t.Fatalf, &Input{Target: "exe", Text: txt, Op: op, Fault: -1, Note: "exe-corpus"})
		}
	}
	for _, txt := range sdlAdversarial {
		one(t.Fatalf, &Input{Target: "sdl", Text: txt, Fault: -1, Note: "sdl-corpus"})
		if len(txt) > 0 && !strings.Contains(txt, SDLNext) {
			// the same text from readers that hand over the last bytes together with an error / with io.EOF
			one(t.Fatalf, &Input{Target: "sdl", Text: txt, Fault: len(txt), Mode: 2, Note: "sdl-corpus-reader"})
			one(t.Fatalf, &Input{Target: "sdl", Text: txt, Fault: len(txt), Mode: 4, Note: "sdl-corpus-reader"})
		}
	}
	for _, txt := range adversarial {
		if len(txt) > 0 {
			one(t.Fatalf, &Input{Target: "exe", Text: txt, Fault: len(txt), Mode: 4, Note: "exe-corpus-reader"})
		}
	}
	for _, txt := range []string{`{a: [1, 2] b: "x"}`, `[1 2 3]`, `"abc"`, `{a: 1}}`, `[1]]`, "1 ", `"a" "`, "{a: 1}\xff", `tru`, `nul`, `-`, `1e`, `$`, `$v`} {
		for _, mode := range []int{-1, 2, 4} {
			in := &Input{Target: "value", Text: txt, Fault: -1, Note: "value-corpus"}
			if mode >= 0 {
				in.Fault, in.Mode, in.Note = len(txt), mode, "value-corpus-reader"
			}
			one(t.Fatalf, in)
		}
	}
	// every byte that belongs to no token class, wherever a value can stand
	for b := 0; b < 256; b++ {
		ch := string([]byte{byte(b)})
		if strings.ContainsAny(ch, "abcdefghijklmnopqrstuvwxyzABCDEFGHIJKLMNOPQRSTUVWXYZ0123456789_ \t\r\n,") {
			continue
		}
		for _, txt := range []string{"[1 " + ch + " 2]", "[" + ch + "]", "{a: " + ch + "}", "{a: [" + ch + "1]}", ch, "1" + ch, "\"s\"" + ch} {
			one(t.Fatalf, &Input{Target: "value", Text: txt, Fault: -1, Note: "value-stray-byte"})
		}
		for _, txt := range []string{"{sum(l: [1 " + ch + " 2])}", "{inp(in: {a: " + ch + "})}", "{echo(s: " + ch + ")}", "query($v: [Int] = [" + ch + "]){sum(l: $v)}", "{str " + ch + "}", "{str @skip(if: " + ch + ")}"} {
			one(t.Fatalf, &Input{Target: "exe", Text: txt, Fault: -1, Note: "exe-stray-byte"})
		}
		for _, txt := range []string{"type Query { a(x: [Int] = [" + ch + "]): Int }", "type Query { a: Int @deprecated(reason: " + ch + ") }", "type Query { a: Int " + ch + " }", "type Query " + ch + " { a: Int }"} {
			one(t.Fatalf, &Input{Target: "sdl", Text: txt, Fault: -1, Note: "sdl-stray-byte"})
		}
	}
	rapid.Check(t, func(rt *rapid.T) { one(rt.Fatalf, genInput(rt)) })
}

func dedup(in []string) []string {
	seen := map[string]bool{}
	var out []string
	for _, s := range in {
		if !seen[s] {
			seen[s] = true
			out = append(out, s)
		}
	}
	return out
}
