// Package crash hosts the robustness check (C03): every public entry point that
// takes external text or data returns - a result or an error - and never
// panics, overflows the stack or loops.
package crash

import (
	"bytes"
	"errors"
	"fmt"
	"io"
	"os"
	"strings"
	"testing/fstest"
	"time"

	"github.com/uhn/ggql/pkg/ggql"
)

// The schema the request targets run against: arguments of every kind, methods, abstract types.
const crashSDL = `
enum Color { RED GREEN }
input In { a: Int  b: [String!]  c: In  d: Color = RED  e: Float  f: Boolean! = true }
input GIn { name: String  tags: [String]  nums: [Int]  big: [Int64!]  flags: [Boolean]  sub: GIn  subs: [GIn]  when: Time  col: Color }
input GIn2 { name: String  ghost: Int  lost: [Int]  deep: GIn2 }
interface Named { str: String }
union Any = Query | Other
type Other implements Named { str: String num: Int }
type Query implements Named {
  str: String
  num: Int
  when: Time
  obj: Query
  objs: [Query]
  any: Any
  anys: [Any]
  named: Named
  strs: [String]
  echo(s: String!): String
  pick(s: String!, b: Boolean!): String
  flip(b: Boolean!): Boolean
  add(i: Int!, j: Int): Int
  sum(l: [Int!]): Int
  inp(in: In): String
  col(c: Color): Color
  fail(s: String): String
  big(x: Int64, y: Float64, t: Time, id: ID): String
  hidden: String
  private: Int
  la: LA
  lb: LB
  listers: [Lister]
  stray: Lister
  strays: [Lister]
  ginp(in: GIn, ins: [GIn]): String
  pairs: [Pair]
  ginp2(in: GIn2, ins: [GIn2]): String
}
type Pair { str: String num: Int sub: Pair }
interface Lister { items(first: Int): String sub: Lister }
type LA implements Lister { items(after: String, first: Int, tags: [String!] = ["t"]): String sub: LA }
type LB implements Lister { items(first: Int): String sub: LB }
type Mutation { set(s: String!): Query }
type Subscription { watch(id: String): Query }
directive @mark(x: Int = 1, l: [String]) on FIELD | QUERY | FRAGMENT_SPREAD | INLINE_FRAGMENT | FRAGMENT_DEFINITION | VARIABLE_DEFINITION | MUTATION | SUBSCRIPTION
`

// ---- reflection root -----------------------------------------------------------------------

type RQ struct {
	Str     string
	Num     int
	When    time.Time
	Obj     *RQ
	Objs    []*RQ
	Any     interface{}
	Anys    []interface{}
	Strs    []string
	La      *RLA
	Lb      *RLB
	Listers []interface{}
	// values under interface typed fields whose Go type is bound to no implementer
	Stray  interface{}
	Strays []interface{}
	// values of two Go struct types under one object type (a data bug, or two row types that were
	// meant to look alike): the second lacks members the first one bound the fields to
	Pairs []interface{}
	// Go fields a GraphQL field name matches without regard to case but that are not exported
	hidden  string
	Private int
	private int
}

type RPairA struct {
	Str string
	Num int
	Sub *RPairA
}

type RPairB struct {
	Title string
	Sub   *RPairA
}

type ROther struct {
	Str string
	Num int
}

func (q *RQ) Named() interface{}                   { return &ROther{Str: "other"} }
func (q *RQ) Echo(s string) string                 { return "echo:" + s }
func (q *RQ) Pick(s string, b bool) string         { return fmt.Sprint(s, b) }
func (q *RQ) Flip(b bool) bool                     { return !b }
func (q *RQ) Add(i int64, j int64) int64           { return i + j }
func (q *RQ) Sum(l []interface{}) int              { return len(l) }
func (q *RQ) Inp(in map[string]interface{}) string { return fmt.Sprint(len(in)) }
func (q *RQ) Col(c ggql.Symbol) ggql.Symbol        { return c }
func (q *RQ) Fail(s string) (string, error) {
	if s == "fail" {
		return "", errors.New("asked to fail")
	}
	return s, nil
}
func (q *RQ) Big(x int64, y float64, t string, id string) string { return "big" }

// RLA and RLB implement the Lister interface with different argument lists.
type RLA struct{ Sub *RLA }
type RLB struct{ Sub *RLB }

func (l *RLA) Items(after interface{}, first interface{}, tags interface{}) string {
	return fmt.Sprint("la", after, first, tags)
}
func (l *RLB) Items(first interface{}) string { return fmt.Sprint("lb", first) }

// GIn is the Go struct the input type GIn is bound to under reflection (RegisterType): its members
// are filled from the request by reflection, lists member by member.
type GIn struct {
	Name  string
	Tags  []string
	Nums  []int32
	Big   []int64
	Flags []bool
	Sub   *GIn
	Subs  []*GIn
	When  time.Time
	Col   ggql.Symbol
}

// GIn2 is bound to the input type GIn2 although it has no member for some of its fields (the
// application's struct lags behind the schema).
type GIn2 struct {
	Name string
	Deep *GIn2
}

func (q *RQ) Ginp2(in *GIn2, ins []interface{}) string { return fmt.Sprint(in != nil, len(ins)) }

func (q *RQ) Ginp(in *GIn, ins []interface{}) string {
	n := len(ins)
	for g := in; g != nil; g = g.Sub {
		n += len(g.Tags) + len(g.Nums) + len(g.Subs)
	}
	return fmt.Sprint("ginp", n)
}

// RStray is nobody's implementation: no object type is named like it, registered for it or points
// at it with @go.
type RStray struct{ Sub *RStray }

func (l *RStray) Items(first interface{}) string { return "stray" }

type RM struct{}

func (m *RM) Set(s string) *RQ { return newRQ(1) }

type RSchema struct {
	Query    *RQ
	Mutation *RM
}

func newRQ(depth int) *RQ {
	q := &RQ{Str: "s", Num: 1, When: time.Unix(0, 0).UTC(), Strs: []string{"a", "b"}, hidden: "h", private: 2, Private: 3}
	if depth > 0 {
		q.Obj = newRQ(depth - 1)
		q.Objs = []*RQ{newRQ(depth - 1), nil}
		q.Any = &ROther{Str: "o", Num: 2}
		q.Anys = []interface{}{newRQ(0), &ROther{Str: "o2"}}
		q.La = &RLA{Sub: &RLA{}}
		q.Lb = &RLB{Sub: &RLB{}}
		q.Listers = []interface{}{&RLA{}, &RLB{}, &RLA{}}
		q.Stray = &RStray{Sub: &RStray{}}
		q.Strays = []interface{}{&RLA{}, &RStray{}, nil, &RLB{}}
		q.Pairs = []interface{}{&RPairA{Str: "a", Num: 1, Sub: &RPairA{Str: "s"}}, &RPairB{Title: "t", Sub: &RPairA{}}, nil, &RPairA{Str: "c"}, RPairB{Title: "by value"}}
	}
	return q
}

// ---- Resolver root -------------------------------------------------------------------------

type resNode struct{ depth int }

func (n *resNode) Resolve(field *ggql.Field, args map[string]interface{}) (interface{}, error) {
	switch field.Name {
	case "la", "lb", "sub":
		if n.depth > 6 {
			return nil, nil
		}
		return &resNode{depth: n.depth + 1}, nil
	case "listers":
		return []interface{}{&resNode{depth: n.depth + 1}, &resNode{depth: n.depth + 1}}, nil
	case "items":
		return fmt.Sprint(field.Name, len(args)), nil
	case "query", "mutation", "set", "obj", "named", "any":
		if n.depth > 6 {
			return nil, nil
		}
		return &resNode{depth: n.depth + 1}, nil
	case "subscription":
		return &resNode{depth: n.depth + 1}, nil
	case "watch":
		return ggql.NewSubscription(&nullSub{}, field, args), nil
	case "objs", "anys":
		if n.depth > 6 {
			return []interface{}{}, nil
		}
		return []interface{}{&resNode{depth: n.depth + 1}, nil}, nil
	case "str", "echo", "pick", "inp", "big":
		return fmt.Sprint(field.Name, len(args)), nil
	case "num", "add", "sum":
		return 3, nil
	case "flip":
		return true, nil
	case "when":
		return time.Unix(0, 0), nil
	case "strs":
		return []string{"x"}, nil
	case "col":
		return "RED", nil
	case "fail":
		return nil, errors.New("asked to fail")
	}
	return nil, nil
}

type nullSub struct{}

func (*nullSub) Send(interface{}) error { return nil }
func (*nullSub) Match(string) bool      { return true }
func (*nullSub) Unsubscribe()           {}

// ---- root (any) resolver -------------------------------------------------------------------

type anyData map[string]interface{}
type anyRoot struct{}

func (anyRoot) Resolve(obj interface{}, field *ggql.Field, args map[string]interface{}) (interface{}, error) {
	if m, ok := obj.(anyData); ok {
		if v, has := m[field.Name]; has {
			return v, nil
		}
		switch field.Name {
		case "echo", "pick", "inp", "big", "fail", "items":
			return fmt.Sprint(len(args)), nil
		case "add", "sum":
			return 1, nil
		}
		return nil, nil
	}
	return nil, fmt.Errorf("unknown object %T", obj)
}
func (anyRoot) Len(list interface{}) int {
	if l, ok := list.([]anyData); ok {
		return len(l)
	}
	return 0
}
func (anyRoot) Nth(list interface{}, i int) (interface{}, error) {
	if l, ok := list.([]anyData); ok && i >= 0 && i < len(l) {
		return l[i], nil
	}
	return nil, fmt.Errorf("not a list or out of bounds")
}

func newAnyData(depth int) anyData {
	d := anyData{"str": "s", "num": 1, "strs": []interface{}{"a"}, "flip": true, "col": "RED", "when": "2020-01-02T03:04:05Z"}
	if depth > 0 {
		d["obj"] = newAnyData(depth - 1)
		d["objs"] = []anyData{newAnyData(depth - 1)}
		d["query"] = newAnyData(depth - 1)
		d["mutation"] = newAnyData(depth - 1)
		d["set"] = newAnyData(depth - 1)
		d["la"] = newAnyData(depth - 1)
		d["lb"] = newAnyData(depth - 1)
		d["sub"] = newAnyData(depth - 1)
		d["listers"] = []anyData{newAnyData(depth - 1), newAnyData(depth - 1)}
	}
	return d
}

// NewRoots builds the three request roots (fresh for every case: resolving mutates lazily bound state).
func NewRoots() (map[string]*ggql.Root, error) {
	ggql.Sort = true
	ggql.Relaxed = false
	ggql.MaxResolveDepth = 100
	roots := map[string]*ggql.Root{}
	r := ggql.NewRoot(&RSchema{Query: newRQ(3), Mutation: &RM{}})
	if err := r.ParseString(crashSDL); err != nil {
		return nil, err
	}
	_ = r.RegisterType(&RQ{}, "Query")
	_ = r.RegisterType(&ROther{}, "Other")
	_ = r.RegisterType(&RLA{}, "LA")
	_ = r.RegisterType(&RLB{}, "LB")
	_ = r.RegisterType(&GIn{}, "GIn")
	_ = r.RegisterType(&GIn2{}, "GIn2")
	roots["reflection"] = r
	r = ggql.NewRoot(&resNode{})
	if err := r.ParseString(crashSDL); err != nil {
		return nil, err
	}
	roots["resolver"] = r
	r = ggql.NewRoot(newAnyData(3))
	r.AnyResolver = anyRoot{}
	if err := r.ParseString(crashSDL); err != nil {
		return nil, err
	}
	roots["any"] = r
	return roots, nil
}

// ---- fault reader ---------------------------------------------------------------------------

// FaultReader returns the data up to an offset and then misbehaves.
type FaultReader struct {
	Data []byte
	At   int
	Mode int // 0 error at offset; 1 one byte at a time then error; 2 data+error together; 3 zero-length reads then data; 4 EOF with data
	pos  int
	zero int
}

var ErrInjected = errors.New("injected reader failure")

func (r *FaultReader) Read(p []byte) (int, error) {
	if len(p) == 0 {
		return 0, nil
	}
	if r.Mode == 3 && r.zero < 3 {
		r.zero++
		return 0, nil
	}
	limit := r.At
	if r.Mode == 4 || r.Mode == 3 {
		limit = len(r.Data)
	}
	if limit > len(r.Data) {
		limit = len(r.Data)
	}
	if r.pos >= limit {
		if r.Mode == 4 || r.Mode == 3 {
			return 0, io.EOF
		}
		return 0, ErrInjected
	}
	n := len(p)
	if r.Mode == 1 || r.Mode == 4 {
		n = 1
	}
	if r.pos+n > limit {
		n = limit - r.pos
	}
	copy(p, r.Data[r.pos:r.pos+n])
	r.pos += n
	if r.pos >= limit {
		switch r.Mode {
		case 2:
			return n, ErrInjected
		case 4:
			return n, io.EOF
		}
	}
	return n, nil
}

// ---- the four targets ------------------------------------------------------------------------

// Input is one C03 case.
type Input struct {
	Target string                 `json:"target"` // sdl | exe | value | writer
	Text   string                 `json:"text"`
	Op     string                 `json:"op,omitempty"`
	Vars   map[string]interface{} `json:"vars,omitempty"`
	Fault  int                    `json:"fault_at"` // -1 = no reader fault
	Mode   int                    `json:"fault_mode,omitempty"`
	Note   string                 `json:"note,omitempty"`
}

// Outcome of running an input.
type Outcome struct {
	Panic   interface{}
	Hang    bool
	Reached []string // stages reached (for non-triviality and class counters)
}

func reader(in *Input) io.Reader {
	if in.Fault >= 0 {
		return &FaultReader{Data: []byte(in.Text), At: in.Fault, Mode: in.Mode}
	}
	return strings.NewReader(in.Text)
}

const introspect = `{__schema{types{name kind description fields(includeDeprecated:true){name args{name defaultValue type{name kind ofType{name}}} type{name}} inputFields{name defaultValue} enumValues{name} interfaces{name} possibleTypes{name}} directives{name locations args{name defaultValue}}}}`

// runBody executes the target on the input (no isolation; the caller adds watchdog and recover).
// SDLNext separates successive documents in the text of an "sdl" input.
const SDLNext = "\n##next-load##\n"

func runBody(in *Input, out *Outcome) {
	mark := func(s string) { out.Reached = append(out.Reached, s) }
	switch in.Target {
	case "sdl":
		ggql.Sort = true
		root := ggql.NewRoot(&RSchema{Query: newRQ(1)})
		err := root.ParseReader(reader(in))
		if parts := strings.Split(in.Text, SDLNext); len(parts) > 1 {
			// several documents loaded one after the other into the same root, whatever each load says
			// (a refused load must leave a root that can go on)
			root = ggql.NewRoot(&RSchema{Query: newRQ(1)})
			ok := 0
			for _, part := range parts {
				if err = root.ParseString(part); err == nil {
					ok++
				}
			}
			mark(fmt.Sprintf("sdl-loads-accepted=%d-of-%d", ok, len(parts)))
			mark("past-first-token")
			err = nil
		}
		if err != nil {
			mark("sdl-rejected")
			if !strings.Contains(err.Error(), " at 1:1") && !strings.Contains(err.Error(), "from 1:1") {
				mark("past-first-token")
			}
			return
		}
		mark("sdl-accepted")
		mark("past-first-token")
		_ = root.SDL(true, true)
		_ = root.SDL(false)
		for _, t := range root.Types() {
			_ = t.SDL(true)
			_ = t.String()
			walkType(t)
		}
		// the other loaders take the same text: bytes, and a file system holding it cut in two files
		_ = ggql.NewRoot(nil).Parse([]byte(in.Text))
		half := len(in.Text) / 2
		fsys := fstest.MapFS{"a.graphql": {Data: []byte(in.Text[:half])}, "b.graphql": {Data: []byte(in.Text[half:])}, "c.txt": {Data: []byte("type")}}
		_ = ggql.NewRoot(nil).ParseFS(fsys, "*.graphql")
		_ = ggql.NewRoot(nil).ParseFS(fsys, "[")
		_ = ggql.NewRoot(nil).ParseFS(fsys)
		res := root.ResolveString(introspect, "", nil)
		var b bytes.Buffer
		_ = ggql.WriteJSONValue(&b, res, 2)
		mark("sdl-printed-and-introspected")
		// requests derived from the accepted schema: every field of the operation types with a
		// value for each of its arguments (defaults of the schema's own input types get filled in)
		if reqs := probeRequests(root); len(reqs) > 0 {
			proot := ggql.NewRoot(&probeNode{})
			if perr := proot.ParseString(strings.Split(in.Text, SDLNext)[0]); perr == nil {
				for _, rq := range reqs {
					_ = proot.ResolveString(rq, "", nil)
				}
				mark("sdl-probe-requests-resolved")
			}
		}
	case "exe":
		roots, err := NewRoots()
		if err != nil {
			panic("crash schema rejected: " + err.Error())
		}
		for _, name := range []string{"reflection", "resolver", "any"} {
			root := roots[name]
			exe, err := root.ParseExecutableReader(reader(in))
			if err != nil {
				mark("exe-rejected")
				if exe != nil {
					_ = exe.String()
				}
			} else {
				mark("exe-parsed")
				_ = exe.String()
				walkExe(exe)
				_ = exe.Validate(root)
				exe.SetContextRecursive(42)
				_, rerr := root.ResolveExecutable(exe, in.Op, in.Vars)
				if rerr == nil {
					mark("exe-resolved-clean")
				} else {
					mark("exe-resolved-with-errors")
				}
				_ = exe.String()
			}
			res := root.ResolveReader(reader(in), in.Op, in.Vars)
			var b bytes.Buffer
			_ = ggql.WriteJSONValue(&b, res, -1)
			_ = ggql.WriteJSONValue(&b, res, 2)
			if name == "resolver" {
				// the other entry points taking the same text
				_ = root.ResolveBytes([]byte(in.Text), in.Op, in.Vars)
				_ = root.ResolveString(in.Text, in.Op, in.Vars)
				if e2, err := root.ParseExecutable([]byte(in.Text)); err == nil && e2 != nil {
					_ = e2.String()
				}
				if e3, err := root.ParseExecutableString(in.Text); err == nil && e3 != nil {
					// resolving twice: the second time works on an AST that has been resolved before
					_, _ = root.ResolveExecutable(e3, in.Op, in.Vars)
					_, _ = root.ResolveExecutable(e3, in.Op, in.Vars)
					_ = e3.String()
				}
			}
		}
	case "value":
		v, err := ggql.ParseValue(reader(in))
		if err != nil {
			mark("value-rejected")
			return
		}
		mark("value-parsed")
		for _, indent := range []int{-1, 0, 2} {
			var b bytes.Buffer
			_ = ggql.WriteSDLValue(&b, v, indent)
			_ = ggql.WriteJSONValue(&b, v, indent)
		}
	case "writer":
		for _, indent := range []int{-1, 0, 3} {
			var b bytes.Buffer
			_ = ggql.WriteSDLValue(&b, map[string]interface{}(in.Vars), indent)
			_ = ggql.WriteJSONValue(&b, map[string]interface{}(in.Vars), indent)
			_ = ggql.WriteJSONValue(failWriter{}, map[string]interface{}(in.Vars), indent)
		}
		mark("writer-ran")
	}
}

// probeNode resolves every field to another probeNode (objects) - leaves fail to coerce, which is fine.
type probeNode struct{ depth int }

func (n *probeNode) Resolve(field *ggql.Field, args map[string]interface{}) (interface{}, error) {
	if n.depth > 3 {
		return nil, nil
	}
	return &probeNode{depth: n.depth + 1}, nil
}

// probeLiteral writes a literal for an input type: {} for input objects (so that defaults are
// filled in), lists with one member, the first value of an enum.
func probeLiteral(t ggql.Type, depth int) string {
	switch tt := t.(type) {
	case *ggql.NonNull:
		return probeLiteral(tt.Base, depth)
	case *ggql.List:
		if depth > 3 {
			return "[]"
		}
		return "[" + probeLiteral(tt.Base, depth+1) + "]"
	case *ggql.Input:
		return "{}"
	case *ggql.Enum:
		if vs := tt.Values(); len(vs) > 0 {
			return string(vs[0].Value)
		}
		return "X"
	}
	switch t.Name() {
	case "Int", "Int64":
		return "1"
	case "Float", "Float64":
		return "1.5"
	case "Boolean":
		return "true"
	case "Time":
		return "\"2020-01-02T03:04:05Z\""
	}
	return "\"s\""
}

// probeRequests builds one request per field of the operation types of an accepted schema.
func probeRequests(root *ggql.Root) (out []string) {
	for _, op := range []string{"Query", "Mutation"} {
		obj, _ := root.GetType(op).(*ggql.Object)
		if obj == nil {
			continue
		}
		for i, f := range obj.Fields() {
			if i >= 12 {
				break
			}
			var b strings.Builder
			if op == "Mutation" {
				b.WriteString("mutation ")
			}
			b.WriteString("{" + f.Name())
			if as := f.Args(); len(as) > 0 {
				b.WriteString("(")
				for _, a := range as {
					b.WriteString(a.Name() + ": " + probeLiteral(a.Type, 0) + " ")
				}
				b.WriteString(")")
			}
			switch inner := ggql.BaseType(f.Type).(type) {
			case *ggql.Object, *ggql.Interface, *ggql.Union:
				_ = inner
				b.WriteString("{__typename}")
			}
			b.WriteString("}")
			out = append(out, b.String())
		}
	}
	return
}

// walkType calls the printing methods of everything hanging off a type: fields, arguments, the
// type expressions (List / NonNull wrappers are types of their own) and directive uses.
func walkType(t ggql.Type) {
	expr := func(x ggql.Type) {
		for i := 0; x != nil && i < 50; i++ {
			_ = x.String()
			_ = x.SDL(true)
			_ = x.Name()
			_ = x.Description()
			_ = x.Rank()
			_ = x.Core()
			_ = x.Directives()
			switch w := x.(type) {
			case *ggql.List:
				x = w.Base
			case *ggql.NonNull:
				x = w.Base
			default:
				x = nil
			}
		}
	}
	args := func(as []*ggql.Arg) {
		for _, a := range as {
			_ = a.Name()
			_ = a.Description()
			expr(a.Type)
			for _, du := range a.Dirs {
				var b bytes.Buffer
				_ = du.Write(&b)
			}
		}
	}
	switch tt := t.(type) {
	case *ggql.Object:
		for _, f := range tt.Fields() {
			expr(f.Type)
			args(f.Args())
		}
	case *ggql.Interface:
		for _, f := range tt.Fields() {
			expr(f.Type)
			args(f.Args())
		}
	case *ggql.Input:
		for _, f := range tt.Fields() {
			expr(f.Type)
			_ = f.Description()
		}
	case *ggql.Enum:
		for _, v := range tt.Values() {
			_ = v.Value
			for _, du := range v.Directives {
				var b bytes.Buffer
				_ = du.Write(&b)
			}
		}
	case *ggql.Union:
		for _, m := range tt.Members {
			expr(m)
		}
	}
}

// walkExe calls String() on every node of a parsed request.
func walkExe(exe *ggql.Executable) {
	var sels func(ss []ggql.Selection, depth int)
	sels = func(ss []ggql.Selection, depth int) {
		if depth > 60 {
			return
		}
		for _, s := range ss {
			if depth == 0 {
				_ = s.String() // (printing every subtree of a deep document is quadratic)
			}
			_ = s.Directives()
			_ = s.Line()
			_ = s.Column()
			sels(s.SelectionSet(), depth+1)
		}
	}
	for _, op := range exe.Ops {
		_ = op.String()
		sels(op.SelectionSet(), 0)
	}
	for _, f := range exe.Fragments {
		_ = f.String()
		sels(f.SelectionSet(), 0)
	}
}

type failWriter struct{}

func (failWriter) Write(p []byte) (int, error) { return 0, errors.New("write failed") }

// Run executes an input with panic recovery and a watchdog. The hang watchdog is generous
// (inputs are a few KiB and take microseconds); a trip is re-confirmed by the caller.
func Run(in *Input, watchdog time.Duration) Outcome {
	done := make(chan Outcome, 1)
	go func() {
		var out Outcome
		defer func() {
			if r := recover(); r != nil {
				out.Panic = r
			}
			done <- out
		}()
		runBody(in, &out)
	}()
	select {
	case o := <-done:
		return o
	case <-time.After(watchdog):
		return Outcome{Hang: true}
	}
}

// Crumb writes the input that is about to run, so that a fatal (unrecoverable) error of the
// process still leaves its cause behind.
func Crumb(path string, in *Input) {
	if path == "" {
		return
	}
	_ = os.WriteFile(path, []byte(fmt.Sprintf("target=%s op=%q fault=%d/%d vars=%v\n%s", in.Target, in.Op, in.Fault, in.Mode, in.Vars, in.Text)), 0o644)
}
