package crash

import (
	"testing"
	"time"
)

func fuzzTarget(f *testing.F, target string, seeds []string) {
	for _, s := range seeds {
		f.Add([]byte(s), uint8(0))
	}
	f.Fuzz(func(t *testing.T, data []byte, knob uint8) {
		if len(data) > 4096 {
			return
		}
		in := &Input{Target: target, Text: string(data), Fault: -1}
		if knob&1 == 1 && len(data) > 0 {
			in.Fault = int(knob>>1) % (len(data) + 1)
			in.Mode = int(knob>>4) % 5
		}
		if target == "exe" {
			in.Op = []string{"", "Q", "Nope"}[int(knob>>6)%3]
			if knob&2 == 2 {
				in.Vars = map[string]interface{}{"v": "x", "b": true, "in": map[string]interface{}{"a": 1.0}, "w": []interface{}{1.0, nil}}
			}
		}
		out := Run(in, 30*time.Second)
		if out.Panic != nil {
			t.Fatalf("target %s panicked: %v\ninput %q op=%q fault=%d/%d", target, out.Panic, in.Text, in.Op, in.Fault, in.Mode)
		}
		if out.Hang {
			t.Fatalf("target %s did not return within 30s\ninput %q", target, in.Text)
		}
	})
}

func FuzzExe(f *testing.F) {
	fuzzTarget(f, "exe", append(append([]string{}, validRequests...), adversarial...))
}

func FuzzSDL(f *testing.F) {
	fuzzTarget(f, "sdl", []string{crashSDL, "type Query { a: Int }", "extend type Query { b: [Int!]! @deprecated(reason: \"x\") }", "schema { query: Query }",
		"\"\"\"desc\"\"\" enum E { A B } union U = Query input I { a: Int = 1 } scalar S directive @d(x: [Int] = [1]) on FIELD | OBJECT", "}", "type T implements I & J @d { a(x: Int = 3): T }"})
}

func FuzzValue(f *testing.F) {
	fuzzTarget(f, "value", []string{"{a: 1, b: [true, null, \"s\", RED, $v, 1.5e3]}", "[[1][2]]", "\"\\u00e9\\n\"", "\"\"\"block\"\"\"", "-1", "{\"k\": {}}", "[", "{a:", "1e400"})
}
