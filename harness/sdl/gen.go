// Package sdl hosts the schema-side checks: validation (C13), all-or-nothing
// loading (C14), print/re-parse round trip (C15), arrangement independence (C16)
// and introspection (C17).
package sdl

import (
	"fmt"
	"sort"
	"strings"

	"pgregory.net/rapid"

	"verifharness/hx"
)

// Opts selects what a generated schema contains.
type Opts struct {
	Descs      bool
	HostileTxt bool // hostile description / default strings (C15)
	Directives bool
	Deprecated bool
}

var outScalars = []string{"Int", "Float", "String", "Boolean", "ID", "Int64", "Float64", "Time"}

var allLocations = []string{"SCHEMA", "SCALAR", "OBJECT", "FIELD_DEFINITION", "ARGUMENT_DEFINITION", "INTERFACE", "UNION", "ENUM", "ENUM_VALUE",
	"INPUT_OBJECT", "INPUT_FIELD_DEFINITION", "QUERY", "MUTATION", "SUBSCRIPTION", "FIELD", "FRAGMENT_DEFINITION", "FRAGMENT_SPREAD", "INLINE_FRAGMENT", "VARIABLE_DEFINITION"}

var descPool = []string{"plain words", "Two  spaces", "ends with dot.", "x", "UPPER lower 123", "punctuation: , ; ! ? ( ) [ ] { } @ $ # |"}

// HostileText are strings that need care when printed into SDL.
var HostileText = []string{
	"a \"quoted\" word", "back\\slash", "line one\nline two", "triple \"\"\" inside", "ends with quote\"", "\"starts with quote", "ends with backslash\\",
	"unicode é ü 😀 ℵ", "tab\there", "  leading blanks", "trailing blanks  ", "\\n literal backslash-n", "a\n\nb (blank line)", "# not a comment",
	"\\\"", "\"\"", "\"\"\"\"", "five \"\"\"\"\" quotes", "\"\\", "q\"\\x", "\\\\", "quotes \"\"\" and ünï 😀 code", "é\"\"\"\"", "mixed \"q\" and \\ and \n newline", "\\u0041", "€uro", "ctl \x01 char", "\r\ncrlf",
	"esc \x1b[31m red", "unit \x1f sep", "\x10\x11", "bell \x07 and del \x7f",
	"  \"padded\" and quoted  ", " \"x\"", "quote at the end \" ", "\t\\ tab, backslash, blanks  ",
}

// hostileAtoms are glued together into descriptions and string values nobody wrote by hand.
var hostileAtoms = []string{"\"", "\"\"", "\"\"\"", "\"\"\"\"", "\\", "\\\\", "\n", " ", "é", "😀", "a", "word", "#", "\t", "\r\n", "\\n", "\\u0041", "\x01", "\x1b", "\x1f", "\x10", "ß", "\\\"", "{", "}", "@", "$"}

func composeHostile(t *rapid.T, label string) string {
	n := rapid.IntRange(2, 5).Draw(t, label+"n")
	var b strings.Builder
	for i := 0; i < n; i++ {
		b.WriteString(rapid.SampledFrom(hostileAtoms).Draw(t, fmt.Sprintf("%s%d", label, i)))
	}
	return b.String()
}

type gen struct {
	t *rapid.T
	o Opts
	s *hx.Schema

	objs, ifaces, unions, enums, inputs, scalars []string
	dirs                                         []*hx.DirDef
}

func (g *gen) desc(label string) string {
	if !g.o.Descs || rapid.IntRange(0, 2).Draw(g.t, label+"hasDesc") != 0 {
		return ""
	}
	if g.o.HostileTxt && rapid.Bool().Draw(g.t, label+"hostile") {
		if rapid.IntRange(0, 2).Draw(g.t, label+"composed") == 0 {
			if d := strings.TrimSpace(composeHostile(g.t, label+"hc")); d != "" {
				return d
			}
		}
		return rapid.SampledFrom(HostileText).Draw(g.t, label+"hd")
	}
	return rapid.SampledFrom(descPool).Draw(g.t, label+"d")
}

func (g *gen) wrap(base string, label string) *hx.TRef {
	r := hx.Named(base)
	if rapid.IntRange(0, 3).Draw(g.t, label+"nn0") == 0 {
		r = r.NN()
	}
	for i := 0; i < rapid.SampledFrom([]int{0, 0, 0, 0, 1, 1, 2, 3}).Draw(g.t, label+"lists"); i++ {
		r = hx.ListOf(r)
		if rapid.IntRange(0, 3).Draw(g.t, fmt.Sprintf("%snn%d", label, i+1)) == 0 {
			r = r.NN()
		}
	}
	return r
}

func (g *gen) inputBases() []string {
	out := append([]string{}, outScalars...)
	out = append(out, g.enums...)
	out = append(out, g.scalars...)
	out = append(out, g.inputs...)
	return out
}

func (g *gen) outputBases() []string {
	out := append([]string{}, outScalars...)
	out = append(out, g.enums...)
	out = append(out, g.scalars...)
	out = append(out, g.objs...)
	out = append(out, g.ifaces...)
	out = append(out, g.unions...)
	return out
}

// Literal draws a coercible literal for an input type (nil allowed where nullable).
func (g *gen) Literal(tr *hx.TRef, label string, depth int) hx.Val {
	t := g.t
	if !tr.NonNull && rapid.IntRange(0, 9).Draw(t, label+"null") == 0 {
		return hx.Nil()
	}
	if tr.List != nil {
		n := rapid.IntRange(0, 2).Draw(t, label+"n")
		vs := make([]hx.Val, 0, n)
		for i := 0; i < n; i++ {
			vs = append(vs, g.Literal(tr.List, fmt.Sprintf("%s_%d", label, i), depth+1))
		}
		return hx.List(vs...)
	}
	if td := g.s.Type(tr.Name); td != nil {
		switch td.Kind {
		case hx.KEnum:
			return hx.Sym(rapid.SampledFrom(td.Values).Draw(t, label+"ev").Name)
		case hx.KScalar:
			return hx.Str(g.text(label + "cs"))
		case hx.KInput:
			var kvs []hx.KV
			for _, f := range td.Inputs {
				if f.Type.NonNull && f.Default == nil || (depth < 2 && rapid.Bool().Draw(t, label+f.Name+"give")) {
					v := g.Literal(f.Type, label+f.Name, depth+1)
					if v.IsNil() && f.Type.NonNull {
						continue
					}
					kvs = append(kvs, hx.KV{Key: f.Name, V: v})
				}
			}
			return hx.Map(kvs...)
		}
	}
	switch tr.Name {
	case "Int":
		return hx.I64(rapid.SampledFrom([]int64{0, 1, -1, 42, 2147483647, -2147483648}).Draw(t, label+"i"))
	case "Int64":
		return hx.I64(rapid.SampledFrom([]int64{0, 1 << 40, -9, 9007199254740993, 9223372036854775807, -9223372036854775808, -9223372036854775807}).Draw(t, label+"i64"))
	case "Float":
		return hx.F64(rapid.SampledFrom([]float64{0.5, -2.25, 1.5e10, 3, 0, 1e-3, -0.125, 3.141592653589793, 0.30000000000000004, 2e-10}).Draw(t, label+"f"))
	case "Float64":
		return hx.F64(rapid.SampledFrom([]float64{0.1, 1e300, -2.5e-300, 12345.678, 7, 3.141592653589793, 0.30000000000000004, 1.0000000000000002,
			2.220446049250313e-16, 1.7976931348623157e308, 5e-324, 1e-05, 123456789012345680,
			9223372036854775808, -9223372036854775808, 18446744073709551616, 1e19, 4294967296, -2147483649, 1e15, 1e21, 100}).Draw(t, label+"f64"))
	case "Boolean":
		return hx.Bool(rapid.Bool().Draw(t, label+"b"))
	case "ID":
		return hx.Str(rapid.SampledFrom([]string{"id-1", "x", "42"}).Draw(t, label+"id"))
	case "Time":
		return hx.Str(rapid.SampledFrom([]string{"2020-01-02T03:04:05Z", "1999-12-31T23:59:59.123456789Z", "2021-03-04T05:06:07.5+02:00", "2024-02-29T12:00:00-07:30", "2000-01-01T00:30:00+01:00"}).Draw(t, label+"tm"))
	}
	return hx.Str(g.text(label + "s"))
}

func (g *gen) text(label string) string {
	if g.o.HostileTxt && rapid.Bool().Draw(g.t, label+"hostile") {
		if rapid.IntRange(0, 2).Draw(g.t, label+"composed") == 0 {
			return composeHostile(g.t, label+"hc")
		}
		return rapid.SampledFrom(HostileText).Draw(g.t, label+"h")
	}
	return rapid.SampledFrom([]string{"", "a", "some text", "RED", "12"}).Draw(g.t, label)
}

// dirUses draws directive uses for an element at the given location.
func (g *gen) dirUses(loc, label string) []hx.DirUse {
	if !g.o.Directives && !(g.o.Deprecated && (loc == "FIELD_DEFINITION" || loc == "ENUM_VALUE")) {
		return nil
	}
	var out []hx.DirUse
	if (loc == "FIELD_DEFINITION" || loc == "ENUM_VALUE") && (g.o.Deprecated || g.o.Directives) && rapid.IntRange(0, 4).Draw(g.t, label+"dep") == 0 {
		du := hx.DirUse{Name: "deprecated"}
		if rapid.Bool().Draw(g.t, label+"depReason") {
			du.Args = []hx.KV{{Key: "reason", V: hx.Str(g.text(label + "reason"))}}
		}
		out = append(out, du)
	}
	if !g.o.Directives {
		return out
	}
	var cands []*hx.DirDef
	for _, d := range g.dirs {
		for _, on := range d.On {
			if on == loc {
				cands = append(cands, d)
			}
		}
	}
	if len(cands) == 0 || rapid.IntRange(0, 3).Draw(g.t, label+"hasdir") != 0 {
		return out
	}
	d := rapid.SampledFrom(cands).Draw(g.t, label+"dir")
	du := hx.DirUse{Name: d.Name}
	for _, a := range d.Args {
		if a.Type.NonNull && a.Default == nil || rapid.Bool().Draw(g.t, label+a.Name+"give") {
			v := g.Literal(a.Type, label+a.Name, 0)
			if v.IsNil() && (a.Type.NonNull || rapid.Bool().Draw(g.t, label+a.Name+"dropNull")) {
				continue
			}
			// (an explicit null is kept: it overrides a default of the definition)
			du.Args = append(du.Args, hx.KV{Key: a.Name, V: v})
		}
	}
	out = append(out, du)
	return out
}

func (g *gen) args(label string, kindLoc string) []*hx.Arg {
	n := rapid.SampledFrom([]int{0, 0, 1, 1, 2, 3}).Draw(g.t, label+"nargs")
	var out []*hx.Arg
	names := rapid.Permutation([]string{"x", "y", "z", "w"}).Draw(g.t, label+"argnames")
	for i := 0; i < n; i++ {
		a := &hx.Arg{Name: names[i], Desc: g.desc(label + names[i])}
		a.Type = g.wrap(rapid.SampledFrom(g.inputBases()).Draw(g.t, label+names[i]+"base"), label+names[i])
		if rapid.IntRange(0, 2).Draw(g.t, label+names[i]+"hasdef") == 0 {
			v := g.Literal(a.Type, label+names[i]+"def", 0)
			if !v.IsNil() {
				a.Default = &v
			}
		}
		if kindLoc != "" {
			a.Dirs = g.dirUses(kindLoc, label+names[i]+"du")
		}
		out = append(out, a)
	}
	return out
}

var fieldPool = []string{"a", "b", "c", "d", "e", "f", "g", "h", "a1", "b2", "camelCase", "snake_case", "_lead"}

// GenFull draws a well-formed schema with every kind of definition.
func GenFull(t *rapid.T, o Opts) *hx.Schema {
	g := &gen{t: t, o: o, s: &hx.Schema{}}
	s := g.s
	nEnum := rapid.IntRange(0, 2).Draw(t, "nEnum")
	nScalar := rapid.IntRange(0, 2).Draw(t, "nScalar")
	nInput := rapid.IntRange(0, 3).Draw(t, "nInput")
	nIface := rapid.IntRange(0, 2).Draw(t, "nIface")
	nObj := rapid.IntRange(1, 4).Draw(t, "nObj")
	nUnion := rapid.IntRange(0, 2).Draw(t, "nUnion")
	nDir := 0
	if o.Directives {
		nDir = rapid.IntRange(0, 3).Draw(t, "nDir")
	}
	for i := 0; i < nEnum; i++ {
		g.enums = append(g.enums, fmt.Sprintf("E%d", i))
	}
	for i := 0; i < nScalar; i++ {
		g.scalars = append(g.scalars, fmt.Sprintf("S%d", i))
	}
	for i := 0; i < nIface; i++ {
		g.ifaces = append(g.ifaces, fmt.Sprintf("I%d", i))
	}
	for i := 0; i < nObj; i++ {
		g.objs = append(g.objs, fmt.Sprintf("T%d", i))
	}
	for i := 0; i < nUnion; i++ {
		g.unions = append(g.unions, fmt.Sprintf("U%d", i))
	}
	// operation roots
	queryName, mutName, subName := "Query", "", ""
	explicit := rapid.IntRange(0, 2).Draw(t, "explicitSchema") == 0
	if explicit && rapid.Bool().Draw(t, "customRootNames") {
		queryName = "RootQ"
	}
	// an implicit schema (no schema block) whose other roots are supplied by 'extend schema'
	extended := !explicit && rapid.IntRange(0, 3).Draw(t, "extendedImplicitSchema") == 0
	if rapid.IntRange(0, 2).Draw(t, "hasMutation") == 0 || extended {
		mutName = "Mutation"
		if explicit && queryName != "Query" {
			mutName = "RootM"
		}
		if extended {
			// (also names that differ from the conventional one in letter case only)
			mutName = rapid.SampledFrom([]string{"ExtM", "ExtM", "MUTATION", "mutation"}).Draw(t, "extMutName")
		}
	}
	if rapid.IntRange(0, 3).Draw(t, "hasSubscription") == 0 {
		subName = "Subscription"
		if explicit && queryName != "Query" {
			subName = "RootS"
		}
		if extended {
			subName = rapid.SampledFrom([]string{"ExtS", "ExtS", "SUBSCRIPTION", "subscription"}).Draw(t, "extSubName")
		}
	}
	roots := []string{queryName}
	if mutName != "" {
		roots = append(roots, mutName)
	}
	if subName != "" {
		roots = append(roots, subName)
	}
	g.objs = append(g.objs, roots...)
	if explicit {
		// ordinary object types that merely carry the conventional operation names
		if mutName != "Mutation" && rapid.IntRange(0, 3).Draw(t, "plainMutationType") == 0 {
			g.objs = append(g.objs, "Mutation")
		}
		if subName != "Subscription" && rapid.IntRange(0, 3).Draw(t, "plainSubscriptionType") == 0 {
			g.objs = append(g.objs, "Subscription")
		}
		if queryName != "Query" && rapid.IntRange(0, 3).Draw(t, "plainQueryType") == 0 {
			g.objs = append(g.objs, "Query")
		}
	}
	// enums and scalars first (no dependencies); directive definitions may use them
	for _, en := range g.enums {
		td := &hx.TypeDef{Kind: hx.KEnum, Name: en}
		n := rapid.IntRange(1, 4).Draw(t, en+"nv")
		vals := rapid.Permutation([]string{"RED", "GREEN", "BLUE", "north", "Mixed_9", "V"}).Draw(t, en+"vals")
		for j := 0; j < n; j++ {
			td.Values = append(td.Values, &hx.EnumValue{Name: vals[j]})
		}
		s.Types = append(s.Types, td)
	}
	for _, sn := range g.scalars {
		s.Types = append(s.Types, &hx.TypeDef{Kind: hx.KScalar, Name: sn})
	}
	// input objects: fields may reference earlier inputs (no cycles)
	allInputs := []string{}
	for i := 0; i < nInput; i++ {
		name := fmt.Sprintf("In%d", i)
		td := &hx.TypeDef{Kind: hx.KInput, Name: name}
		g.inputs = allInputs
		n := rapid.IntRange(1, 4).Draw(t, name+"nf")
		names := rapid.Permutation(fieldPool).Draw(t, name+"fn")
		for j := 0; j < n; j++ {
			f := &hx.Arg{Name: names[j]}
			f.Type = g.wrap(rapid.SampledFrom(g.inputBases()).Draw(t, name+names[j]+"base"), name+names[j])
			td.Inputs = append(td.Inputs, f)
		}
		s.Types = append(s.Types, td)
		allInputs = append(allInputs, name)
	}
	g.inputs = allInputs
	// directive definitions
	for i := 0; i < nDir; i++ {
		d := &hx.DirDef{Name: fmt.Sprintf("d%d", i)}
		// directives and types live in different name spaces: a directive may be called like a type
		if len(s.Types) > 0 && rapid.IntRange(0, 4).Draw(t, d.Name+"likeType") == 0 {
			cand := s.Types[rapid.IntRange(0, len(s.Types)-1).Draw(t, d.Name+"likeWhich")].Name
			taken := false
			for _, od := range s.Dirs {
				if od.Name == cand {
					taken = true
				}
			}
			if !taken {
				d.Name = cand
			}
		}
		n := rapid.IntRange(1, 5).Draw(t, d.Name+"nloc")
		d.On = append(d.On, rapid.Permutation(allLocations).Draw(t, d.Name+"locs")[:n]...)
		if rapid.IntRange(0, 2).Draw(t, d.Name+"onArgs") == 0 {
			for _, extra := range []string{"ARGUMENT_DEFINITION", "INPUT_FIELD_DEFINITION"} {
				has := false
				for _, on := range d.On {
					if on == extra {
						has = true
					}
				}
				if !has {
					d.On = append(d.On, extra)
				}
			}
		}
		sort.Strings(d.On)
		for j := 0; j < rapid.IntRange(0, 2).Draw(t, d.Name+"nargs"); j++ {
			a := &hx.Arg{Name: []string{"p", "q"}[j]}
			a.Type = g.wrap(rapid.SampledFrom(g.inputBases()).Draw(t, d.Name+a.Name+"base"), d.Name+a.Name)
			if len(g.inputs) > 0 && rapid.IntRange(0, 3).Draw(t, d.Name+a.Name+"inputObj") == 0 {
				// input objects (alone and in lists) are the values with structure: coercion fills
				// their defaults in and checks their members
				a.Type = hx.Named(rapid.SampledFrom(g.inputs).Draw(t, d.Name+a.Name+"inputBase"))
				for k := rapid.IntRange(0, 2).Draw(t, d.Name+a.Name+"inputLists"); k > 0; k-- {
					a.Type = hx.ListOf(a.Type)
				}
			}
			if rapid.Bool().Draw(t, d.Name+a.Name+"hasdef") {
				v := g.Literal(a.Type, d.Name+a.Name+"def", 0)
				if !v.IsNil() {
					a.Default = &v
				}
			}
			// uses of earlier directives on the arguments of this one: an acyclic graph in which one
			// directive may well be used several times
			for _, od := range g.dirs {
				// (ggql takes the argument of a directive definition for an INPUT_FIELD_DEFINITION,
				// GraphQL proper for an ARGUMENT_DEFINITION: only directives allowing both are used)
				nloc := 0
				for _, on := range od.On {
					if on == "ARGUMENT_DEFINITION" || on == "INPUT_FIELD_DEFINITION" {
						nloc++
					}
				}
				usable := nloc == 2
				for _, oa := range od.Args {
					if oa.Type.NonNull && oa.Default == nil {
						usable = false
					}
				}
				if usable && rapid.IntRange(0, 2).Draw(t, d.Name+a.Name+"uses"+od.Name) == 0 {
					a.Dirs = append(a.Dirs, hx.DirUse{Name: od.Name})
				}
			}
			d.Args = append(d.Args, a)
		}
		g.dirs = append(g.dirs, d)
		s.Dirs = append(s.Dirs, d)
	}
	// now descriptions, defaults and directive uses of the simple kinds (directives are known)
	for _, td := range s.Types {
		td.Desc = g.desc(td.Name)
		switch td.Kind {
		case hx.KEnum:
			td.Dirs = g.dirUses("ENUM", td.Name+"du")
			for _, v := range td.Values {
				v.Desc = g.desc(td.Name + v.Name)
				v.Dirs = g.dirUses("ENUM_VALUE", td.Name+v.Name+"du")
			}
		case hx.KScalar:
			td.Dirs = g.dirUses("SCALAR", td.Name+"du")
		case hx.KInput:
			td.Dirs = g.dirUses("INPUT_OBJECT", td.Name+"du")
			for _, f := range td.Inputs {
				f.Desc = g.desc(td.Name + f.Name)
				if rapid.IntRange(0, 2).Draw(t, td.Name+f.Name+"hasdef") == 0 {
					v := g.Literal(f.Type, td.Name+f.Name+"def", 1)
					if !v.IsNil() {
						f.Default = &v
					}
				}
				f.Dirs = g.dirUses("INPUT_FIELD_DEFINITION", td.Name+f.Name+"du")
			}
		}
	}
	for _, d := range s.Dirs {
		d.Desc = g.desc("dir" + d.Name)
	}
	// interfaces
	ifaceDefs := map[string]*hx.TypeDef{}
	mkField := func(owner, name string) *hx.Field {
		f := &hx.Field{Name: name, Desc: g.desc(owner + name)}
		f.Type = g.wrap(rapid.SampledFrom(g.outputBases()).Draw(t, owner+name+"base"), owner+name)
		f.Args = g.args(owner+name, "ARGUMENT_DEFINITION")
		f.Dirs = g.dirUses("FIELD_DEFINITION", owner+name+"du")
		return f
	}
	for _, in := range g.ifaces {
		td := &hx.TypeDef{Kind: hx.KInterface, Name: in, Desc: g.desc(in)}
		td.Dirs = g.dirUses("INTERFACE", in+"du")
		n := rapid.IntRange(1, 3).Draw(t, in+"nf")
		for j := 0; j < n; j++ {
			td.Fields = append(td.Fields, mkField(in, fmt.Sprintf("i%s%d", strings.ToLower(in), j)))
		}
		ifaceDefs[in] = td
		s.Types = append(s.Types, td)
	}
	// objects
	for _, on := range g.objs {
		td := &hx.TypeDef{Kind: hx.KObject, Name: on, Desc: g.desc(on)}
		td.Dirs = g.dirUses("OBJECT", on+"du")
		n := rapid.IntRange(1, 4).Draw(t, on+"nf")
		names := rapid.Permutation(fieldPool).Draw(t, on+"fn")
		for j := 0; j < n; j++ {
			td.Fields = append(td.Fields, mkField(on, names[j]))
		}
		for _, in := range g.ifaces {
			if rapid.IntRange(0, 2).Draw(t, on+"impl"+in) != 0 {
				continue
			}
			td.Interfaces = append(td.Interfaces, in)
			for _, f := range ifaceDefs[in].Fields {
				cp := &hx.Field{Name: f.Name, Desc: g.desc(on + f.Name), Type: f.Type.Clone()}
				for _, a := range f.Args {
					ca := *a
					ca.Dirs = nil
					ca.Desc = ""
					cp.Args = append(cp.Args, &ca)
				}
				// allowed variations
				if !cp.Type.NonNull && rapid.IntRange(0, 3).Draw(t, on+in+f.Name+"cov") == 0 {
					cp.Type.NonNull = true
				}
				if rapid.IntRange(0, 3).Draw(t, on+in+f.Name+"extra") == 0 {
					cp.Args = append(cp.Args, &hx.Arg{Name: "opt", Type: hx.Named("Int")})
				}
				cp.Dirs = g.dirUses("FIELD_DEFINITION", on+f.Name+"du")
				td.Fields = append(td.Fields, cp)
			}
		}
		s.Types = append(s.Types, td)
	}
	// covariant narrowing of abstract return types needs the implementers: done after objects exist
	for _, un := range g.unions {
		n := rapid.IntRange(1, len(g.objs)).Draw(t, un+"nm")
		perm := rapid.Permutation(g.objs).Draw(t, un+"perm")
		td := &hx.TypeDef{Kind: hx.KUnion, Name: un, Desc: g.desc(un), Members: append([]string{}, perm[:n]...)}
		td.Dirs = g.dirUses("UNION", un+"du")
		s.Types = append(s.Types, td)
	}
	// covariant narrowing of abstract-typed interface fields in implementers (possibly combined
	// with the non-null variation applied above)
	for _, td := range s.Types {
		if td.Kind != hx.KObject {
			continue
		}
		for _, in := range td.Interfaces {
			for _, f := range ifaceDefs[in].Fields {
				base := f.Type.BaseName()
				if k := s.KindOf(base); k != hx.KInterface && k != hx.KUnion {
					continue
				}
				poss := s.PossibleTypes(base)
				if len(poss) == 0 || rapid.Bool().Draw(t, td.Name+in+f.Name+"narrow") {
					continue
				}
				if of := td.Field(f.Name); of != nil {
					tr := of.Type
					for tr.List != nil {
						tr = tr.List
					}
					tr.Name = rapid.SampledFrom(poss).Draw(t, td.Name+in+f.Name+"narrowTo")
				}
			}
		}
	}
	if explicit {
		s.Roots = map[string]string{"query": queryName}
		if mutName != "" {
			s.Roots["mutation"] = mutName
		}
		if subName != "" {
			s.Roots["subscription"] = subName
		}
		s.RootDirs = g.dirUses("SCHEMA", "schemadu")
	}
	if extended {
		s.ExtRoots = map[string]string{"mutation": mutName}
		if subName != "" {
			s.ExtRoots["subscription"] = subName
		}
	}
	for _, op := range []string{"query", "mutation", "subscription"} {
		if (s.Roots[op] != "" || s.ExtRoots[op] != "") && rapid.IntRange(0, 3).Draw(t, "rootDescribed"+op) == 0 {
			if d := g.desc("schema" + op); d != "" {
				if s.RootDescs == nil {
					s.RootDescs = map[string]string{}
				}
				s.RootDescs[op] = d
			}
		}
	}
	if !explicit && rapid.IntRange(0, 2).Draw(t, "impliedSchemaGivenDirectives") == 0 {
		// the implied schema is given directive uses by an extension
		s.ExtRootDirs = g.dirUses("SCHEMA", "schemaextdu")
	}
	// shuffle definition order
	s.Types = rapid.Permutation(s.Types).Draw(t, "typeOrder")
	return s
}
