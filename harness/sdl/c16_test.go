package sdl

import (
	"fmt"
	"sort"
	"strings"
	"testing"
	"testing/fstest"

	"github.com/uhn/ggql/pkg/ggql"
	"pgregory.net/rapid"

	"verifharness/hx"
)

const introspectionQuery = `query Intro {
  __schema {
    queryType { name } mutationType { name } subscriptionType { name }
    types { ...FullType }
    directives { name description locations args { ...InputValue } }
  }
}
fragment FullType on __Type {
  kind name description
  fields(includeDeprecated: true) { name description args { ...InputValue } type { ...TypeRef } isDeprecated deprecationReason }
  inputFields { ...InputValue }
  interfaces { ...TypeRef }
  enumValues(includeDeprecated: true) { name description isDeprecated deprecationReason }
  possibleTypes { ...TypeRef }
}
fragment InputValue on __InputValue { name description type { ...TypeRef } defaultValue }
fragment TypeRef on __Type { kind name ofType { kind name ofType { kind name ofType { kind name ofType { kind name ofType { kind name ofType { kind name } } } } } } }
`

// introspectionQueryNoDep asks the same without includeDeprecated: deprecated members are left out.
var introspectionQueryNoDep = strings.ReplaceAll(introspectionQuery, "(includeDeprecated: true)", "")

// sortedCanon renders a response with every list of objects sorted by its rendering (member order is
// legitimately arrangement dependent).
func sortedCanon(x interface{}) string {
	switch t := x.(type) {
	case map[string]interface{}:
		keys := make([]string, 0, len(t))
		for k := range t {
			keys = append(keys, k)
		}
		sort.Strings(keys)
		parts := make([]string, len(keys))
		for i, k := range keys {
			parts[i] = k + ":" + sortedCanon(t[k])
		}
		return "{" + strings.Join(parts, ",") + "}"
	case []interface{}:
		parts := make([]string, len(t))
		for i, e := range t {
			parts[i] = sortedCanon(e)
		}
		sort.Strings(parts)
		return "[" + strings.Join(parts, ",") + "]"
	}
	return hx.Show(hx.Norm(x))
}

// loadArrangement loads the documents one after the other into a fresh root.
func loadArrangement(texts []string) (root *ggql.Root, failedAt int, err error, pan interface{}) {
	return loadArrangementPeek(texts, false)
}

// loadArrangementPeek: with peek the schema is looked at (all the requests of the check) after every
// load but the last - an application that serves requests while its schema is still being put
// together. What those answers are is not compared; the final schema must not depend on them.
func loadArrangementPeek(texts []string, peek bool) (root *ggql.Root, failedAt int, err error, pan interface{}) {
	ggql.Sort = true
	ggql.Relaxed = false
	root = ggql.NewRoot(newRootObj())
	for i, txt := range texts {
		func() {
			defer func() {
				if r := recover(); r != nil {
					pan = r
				}
			}()
			err = root.ParseString(txt)
		}()
		if pan != nil || err != nil {
			return root, i, err, pan
		}
		if peek && i < len(texts)-1 {
			_, _, _ = observe(root)
		}
	}
	return root, -1, nil, nil
}

// c16Ordered: requests whose answer is compared as it is, order included (ggql.Sort is on: the type and
// directive tables are kept sorted by rank and name however the definitions arrived)
var c16Ordered = map[string]bool{"{__schema{types{name} directives{name}}}": true}

var c16Requests = []string{"{__schema{types{name} directives{name}}}", "{__typename}", introspectionQuery, introspectionQueryNoDep, `{__type(name: "T0") {name kind fields {name type {name kind}}}}`, `{__type(name: "E0") {enumValues {name}}}`, "{a b c}"}

func observe(root *ggql.Root) (desc string, answers []string, pan interface{}) {
	defer func() {
		if r := recover(); r != nil {
			pan = r
		}
	}()
	desc = Describe(root, DescribeOpts{FillDefaults: true})
	for _, q := range c16Requests {
		res := root.ResolveString(q, "", nil)
		// error messages may mention positions of definitions: compare data and error paths
		delete(res, "errors")
		if c16Ordered[q] {
			answers = append(answers, hx.Show(hx.Norm(res)))
			continue
		}
		answers = append(answers, sortedCanon(res))
	}
	return
}

type c16Case struct {
	Arrangements []*Arrangement `json:"arrangements"`
	IllFormed    string         `json:"ill_formed,omitempty"`
	Peek         bool           `json:"peek,omitempty"`       // requests are served between the loads
	DupScalar    string         `json:"dup_scalar,omitempty"` // this scalar is declared twice in the set
	CaseTwins    bool           `json:"case_twins,omitempty"` // the set has names that differ only in case
}

func checkC16(c *c16Case) (ds []hx.Discrepancy, info map[string]bool) {
	info = map[string]bool{}
	add := func(kind, sig, format string, args ...interface{}) {
		ds = append(ds, hx.Discrepancy{Kind: kind, Sig: sig, Detail: fmt.Sprintf(format, args...)})
	}
	type obs struct {
		accepted bool
		err      error
		desc     string
		answers  []string
	}
	var all []obs
	show := func(a *Arrangement) string {
		return strings.Join(a.Texts(), "\n-------- next load --------\n")
	}
	for i, a := range c.Arrangements {
		root, at, err, pan := loadArrangementPeek(a.Texts(), c.Peek && i > 0)
		if c.Peek && i > 0 && len(a.Docs) > 1 {
			info["requests-served-between-loads"] = true
		}
		if pan != nil {
			add("panic", "", "loading arrangement %d panicked: %v\n%s", i, pan, show(a))
			return
		}
		o := obs{accepted: err == nil, err: err}
		if err == nil {
			var p interface{}
			o.desc, o.answers, p = observe(root)
			if p != nil {
				add("panic", "", "describing arrangement %d panicked: %v\n%s", i, p, show(a))
				return
			}
		} else {
			_ = at
		}
		all = append(all, o)
	}
	// the files of a directory read with ParseFS are one load, whatever the order they are taken in:
	// the documents of the split arrangement as files (split at will: one load needs no order)
	if len(c.Arrangements) > 2 && len(c.Arrangements[2].Docs) > 1 {
		fsys := fstest.MapFS{"notes.txt": {Data: []byte("type")}}
		for i, txt := range c.Arrangements[2].Texts() {
			fsys[fmt.Sprintf("part%d.graphql", i)] = &fstest.MapFile{Data: []byte(txt)}
		}
		ggql.Sort = true
		ggql.Relaxed = false
		fr := ggql.NewRoot(newRootObj())
		var ferr error
		var fpan interface{}
		func() {
			defer func() {
				if r := recover(); r != nil {
					fpan = r
				}
			}()
			ferr = fr.ParseFS(fsys, "*.graphql")
		}()
		if fpan != nil {
			add("panic", "", "ParseFS panicked: %v\n%s", fpan, show(c.Arrangements[2]))
			return
		}
		info["files-of-one-directory(ParseFS)"] = true
		if (ferr == nil) != all[0].accepted {
			add("accept-reject-differs", "", "arrangement 0 accepted=%v (%v) but the same definitions as %d files read with ParseFS accepted=%v (%v)\n=== arrangement 0\n%s\n=== files\n%s",
				all[0].accepted, all[0].err, len(c.Arrangements[2].Docs), ferr == nil, ferr, show(c.Arrangements[0]), show(c.Arrangements[2]))
		} else if ferr == nil {
			if d, _, p := observe(fr); p == nil && d != all[0].desc {
				add("schema-differs", "", "the files read with ParseFS define a different schema: %s\n=== arrangement 0\n%s\n=== files\n%s", firstDiff(all[0].desc, d), show(c.Arrangements[0]), show(c.Arrangements[2]))
			}
		}
	}
	ref := all[0]
	if c.IllFormed == "" && !ref.accepted {
		add("reference-rejected", "", "the plain single-document arrangement of a well-formed set is rejected: %v\n%s", ref.err, show(c.Arrangements[0]))
		return
	}
	for i := 1; i < len(all); i++ {
		o := all[i]
		a := c.Arrangements[i]
		if o.accepted != ref.accepted {
			add("accept-reject-differs", "", "arrangement 0 accepted=%v (%v) but arrangement %d (docs=%d extends=%d) accepted=%v (%v)\n=== arrangement 0\n%s\n=== arrangement %d\n%s",
				ref.accepted, ref.err, i, len(a.Docs), a.Moved, o.accepted, o.err, show(c.Arrangements[0]), i, show(a))
			continue
		}
		if !o.accepted {
			info["all-rejected"] = true
			continue
		}
		if o.desc != ref.desc {
			add("schema-differs", "", "arrangement %d (docs=%d extends=%d) defines a different schema: %s\n=== arrangement 0\n%s\n=== arrangement %d\n%s",
				i, len(a.Docs), a.Moved, firstDiff(ref.desc, o.desc), show(c.Arrangements[0]), i, show(a))
			continue
		}
		for q := range ref.answers {
			if ref.answers[q] != o.answers[q] {
				add("answers-differ", "", "arrangement %d (docs=%d extends=%d) answers request %q differently:\n  %s\nvs\n  %s\n=== arrangement 0\n%s\n=== arrangement %d\n%s",
					i, len(a.Docs), a.Moved, hx.Trunc(c16Requests[q], 60), hx.Trunc(ref.answers[q], 1500), hx.Trunc(o.answers[q], 1500), show(c.Arrangements[0]), i, show(a))
				break
			}
		}
	}
	return
}

func TestC16(t *testing.T) {
	run := hx.NewRun("C16")
	defer run.Flush()
	classes := func(c *c16Case, info map[string]bool) (bool, []string) {
		var cl []string
		nt := false
		for i, a := range c.Arrangements {
			if i == 0 {
				continue
			}
			if a.Splits > 0 {
				cl = append(cl, "split-into-several-loads")
				nt = true
			}
			if a.Moved > 0 {
				cl = append(cl, "members-in-extend-blocks")
				nt = true
			}
			if a.Splits > 0 && a.Moved > 0 {
				cl = append(cl, "split+extend")
			}
			cl = append(cl, fmt.Sprintf("docs=%d", len(a.Docs)))
			if i == 2 && strings.Contains(strings.Join(a.Texts(), ""), "extend schema") && !strings.Contains("\n"+strings.Join(a.Texts(), ""), "\nschema") {
				cl = append(cl, "implied-schema-extended")
			}
			if a.Late {
				cl = append(cl, "ill-formed-member-extended-in-last-load")
			}
		}
		if info["requests-served-between-loads"] {
			cl = append(cl, "requests-served-between-loads")
		}
		if info["files-of-one-directory(ParseFS)"] {
			cl = append(cl, "files-of-one-directory(ParseFS)")
		}
		if c.DupScalar != "" {
			cl = append(cl, "scalar-declared-twice")
		}
		if c.CaseTwins {
			cl = append(cl, "names-differing-only-in-case")
		}
		if c.IllFormed != "" {
			cl = append(cl, "ill-formed-set", "ill-formed="+c.IllFormed)
			if info["all-rejected"] {
				cl = append(cl, "ill-formed-all-rejected")
			}
		} else {
			cl = append(cl, "well-formed-set")
		}
		return nt, cl
	}
	one := func(fatal func(string, ...interface{}), c *c16Case) {
		ds, info := checkC16(c)
		nt, cl := classes(c, info)
		run.Case(hx.Hash(c), nt, cl...)
		run.Sample(func() interface{} {
			a := c.Arrangements[len(c.Arrangements)-1]
			return map[string]interface{}{"loads": len(a.Docs), "extend_blocks": a.Moved, "ill_formed": c.IllFormed,
				"documents": hx.Trunc(strings.Join(a.Texts(), "\n-------- next load --------\n"), 1200)}
		})
		real := run.Triage(ds)
		if hx.Replaying() != "" {
			for _, d := range ds {
				if d.Sig != "" {
					fmt.Printf("REPLAY-KNOWN sig=%s %s\n", d.Sig, hx.Trunc(d.Detail, 300))
				}
			}
		}
		if len(real) > 0 {
			fatal("C16 violated: %s", run.ReportFailure(c, real))
		}
	}
	if f := hx.Replaying(); f != "" {
		var c c16Case
		if err := hx.LoadCase(f, &c); err != nil {
			t.Fatalf("load %s: %v", f, err)
		}
		one(func(f string, a ...interface{}) { t.Fatalf("REPLAY-FAIL "+f, a...) }, &c)
		return
	}
	rapid.Check(t, func(rt *rapid.T) {
		s := GenFull(rt, Opts{Descs: true, Directives: true, Deprecated: true})
		o := hx.SDLOpts{Commas: rapid.Bool().Draw(rt, "commas")}
		c := &c16Case{Peek: rapid.IntRange(0, 2).Draw(rt, "peek") == 0}
		var mut *Mutation
		if rapid.IntRange(0, 4).Draw(rt, "illFormed") == 0 {
			kinds := []string{"ref-field-type", "ref-arg-type", "ref-union-member", "ref-interface", "dup-type", "dup-field", "reserved-field", "field-returns-input",
				"arg-takes-output", "iface-missing-field", "iface-wrong-type", "iface-extra-required-arg", "union-member-not-object", "dir-wrong-location-type", "ref-directive-on-type", "schema-root-input-type", "schema-unknown-operation", "dir-uncoercible-arg-input-field", "dir-uncoercible-arg-null", "input-default-needs-itself", "input-default-needs-itself-by-extension"}
			for _, k := range rapid.Permutation(kinds).Draw(rt, "illKinds") {
				if ms, m, ok := Mutate(rt, s, k); ok {
					s = ms
					c.IllFormed = k
					mut = &m
					break
				}
			}
		}
		if rapid.IntRange(0, 3).Draw(rt, "caseTwins") == 0 {
			// definitions whose names differ in nothing but case (their place in the sorted tables must
			// not depend on which arrived first)
			kind := rapid.SampledFrom([]string{hx.KEnum, hx.KScalar, hx.KInput}).Draw(rt, "caseTwinKind")
			for _, n := range []string{"ZqTwin", "ZQTWIN", "zqtwin"} {
				td := &hx.TypeDef{Kind: kind, Name: n}
				switch kind {
				case hx.KEnum:
					td.Values = []*hx.EnumValue{{Name: "A"}}
				case hx.KInput:
					td.Inputs = []*hx.Arg{{Name: "a", Type: hx.Named("Int")}}
				}
				s.Types = append(s.Types, td)
			}
			s.Dirs = append(s.Dirs, &hx.DirDef{Name: "zqTwin", On: []string{"ENUM"}}, &hx.DirDef{Name: "ZQtwin", On: []string{"ENUM"}})
			c.CaseTwins = true
		}
		plain := &Arrangement{Docs: [][]Piece{{{Text: s.SDL(o)}}}}
		c.Arrangements = append(c.Arrangements, plain,
			Arrange(rt, s, o, "p", false, 1), // permutation only
			Arrange(rt, s, o, "s", false, 4), // split into successive loads
			Arrange(rt, s, o, "x", true, 1),  // members in extend blocks
			Arrange(rt, s, o, "sx", true, 4)) // both
		// one document, extend blocks in any order and without regard to what belongs together
		c.Arrangements = append(c.Arrangements, ArrangeLoose(rt, s, o, "lx"))
		// every definition in a first load, nothing but the extend blocks in a second one
		if parts := ExtendsLast(c.Arrangements[3]); parts != nil {
			c.Arrangements = append(c.Arrangements, &Arrangement{Docs: [][]Piece{{{Text: parts[0]}}, {{Text: parts[1]}}}, Splits: 1, Moved: c.Arrangements[3].Moved})
		}
		if rapid.IntRange(0, 3).Draw(rt, "scalarDeclaredTwice") == 0 {
			// the set declares one of its scalars twice (files that each declare the scalars they use,
			// joined or loaded one by one): the second declaration changes nothing, wherever it lands
			for _, td := range s.Types {
				if td.Kind != hx.KScalar {
					continue
				}
				dup := hx.TypeSDL(td, "", o)
				for ai, a := range c.Arrangements {
					first := 0
					for di, d := range a.Docs {
						for _, pc := range d {
							if pc.Defines == td.Name {
								first = di
							}
						}
					}
					di := rapid.IntRange(first, len(a.Docs)-1).Draw(rt, fmt.Sprintf("dupScalarDoc%d", ai))
					pos := rapid.IntRange(0, len(a.Docs[di])).Draw(rt, fmt.Sprintf("dupScalarPos%d", ai))
					doc := append([]Piece{}, a.Docs[di][:pos]...)
					doc = append(doc, Piece{Text: dup})
					a.Docs[di] = append(doc, a.Docs[di][pos:]...)
				}
				c.DupScalar = td.Name
				break
			}
		}
		if mut != nil && mut.Tail != "" {
			// a violation written as raw text is part of the set in every arrangement
			for _, a := range c.Arrangements {
				last := len(a.Docs) - 1
				a.Docs[last] = append(a.Docs[last], Piece{Text: mut.Tail + "\n"})
			}
		}
		if mut != nil {
			// the offending member arrives alone, in an extend block loaded after everything else
			for _, docs := range LateForms(s, mut, o) {
				c.Arrangements = append(c.Arrangements, &Arrangement{Docs: [][]Piece{{{Text: docs[0]}}, {{Text: docs[1]}}}, Splits: 1, Moved: 1, Late: true})
			}
		}
		one(rt.Fatalf, c)
	})
}
