package sdl

import (
	"fmt"
	"strings"

	"verifharness/hx"
)

// minimalLiteral writes the smallest literal of a type: required members only, the first enum value,
// one member per list. ok=false if no literal can be written (a required member of a type unknown to
// the model).
func minimalLiteral(s *hx.Schema, tr *hx.TRef, depth int) (string, bool) {
	if depth > 6 {
		if tr.NonNull {
			return "", false
		}
		return "null", true
	}
	if tr.List != nil {
		m, ok := minimalLiteral(s, tr.List, depth+1)
		if !ok {
			return "[]", true
		}
		return "[" + m + "]", true
	}
	if td := s.Type(tr.Name); td != nil {
		switch td.Kind {
		case hx.KEnum:
			return td.Values[0].Name, true
		case hx.KScalar:
			return `"s"`, true
		case hx.KInput:
			var parts []string
			for _, f := range td.Inputs {
				if f.Type.NonNull && f.Default == nil {
					m, ok := minimalLiteral(s, f.Type, depth+1)
					if !ok {
						return "", false
					}
					parts = append(parts, f.Name+": "+m)
				}
			}
			return "{" + strings.Join(parts, ", ") + "}", true
		}
		return "", false
	}
	switch tr.Name {
	case "Int", "Int64":
		return "1", true
	case "Float", "Float64":
		return "0.5", true
	case "Boolean":
		return "true", true
	case "Time":
		return `"2020-01-02T03:04:05Z"`, true
	}
	return `"x"`, true
}

// ExerciseRequests derives requests from the schema that give every argument of every field of the
// query type (and of the object types one step below it) a minimal value: what a client does between
// two looks at the schema. Answers do not matter (the roots of these checks have no data); that the
// arguments are coerced - defaults filled in, input objects walked - does.
func ExerciseRequests(s *hx.Schema) []string {
	qn := s.RootType("query")
	qt := s.Type(qn)
	if qt == nil {
		return nil
	}
	call := func(f *hx.Field) (string, bool) {
		var args []string
		for _, a := range f.Args {
			m, ok := minimalLiteral(s, a.Type, 0)
			if !ok {
				if a.Type.NonNull && a.Default == nil {
					return "", false
				}
				continue
			}
			args = append(args, a.Name+": "+m)
		}
		out := f.Name
		if len(args) > 0 {
			out += "(" + strings.Join(args, ", ") + ")"
		}
		return out, true
	}
	var out []string
	for i, f := range qt.Fields {
		c, ok := call(f)
		if !ok {
			continue
		}
		base := s.Type(f.Type.BaseName())
		switch {
		case base == nil || base.Kind == hx.KEnum || base.Kind == hx.KScalar:
			if len(f.Args) > 0 {
				out = append(out, fmt.Sprintf("{ k%d: %s }", i, c))
			}
		case base.Kind == hx.KObject || base.Kind == hx.KInterface:
			var subs []string
			for j, g := range base.Fields {
				if len(g.Args) == 0 {
					continue
				}
				if gc, ok := call(g); ok {
					sub := ""
					if s.IsComposite(g.Type.BaseName()) {
						sub = " { __typename }"
					}
					subs = append(subs, fmt.Sprintf("s%d: %s%s", j, gc, sub))
				}
			}
			if len(f.Args) > 0 || len(subs) > 0 {
				out = append(out, fmt.Sprintf("{ k%d: %s { __typename %s } }", i, c, strings.Join(subs, " ")))
			}
		default:
			if len(f.Args) > 0 {
				out = append(out, fmt.Sprintf("{ k%d: %s { __typename } }", i, c))
			}
		}
	}
	return out
}
