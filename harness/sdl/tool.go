package sdl

import (
	"fmt"
	"go/ast"
	"go/parser"
	"go/token"
	"os"
	"os/exec"
	"path/filepath"
	"strings"
	"sync"
)

var (
	toolOnce sync.Once
	toolPath string
	toolErr  error
)

func repoDir() string {
	if d := os.Getenv("VERIF_REPO"); d != "" {
		return d
	}
	return "/repo"
}

func scratchBase() string {
	if out := os.Getenv("VERIF_OUT"); out != "" {
		return filepath.Dir(out)
	}
	return os.TempDir()
}

// buildTool builds cmd/ggqlgen from the repository's current working tree (once per process).
func buildTool() (string, error) {
	toolOnce.Do(func() {
		dir, err := os.MkdirTemp(scratchBase(), "ggqlgen-")
		if err != nil {
			toolErr = err
			return
		}
		toolPath = filepath.Join(dir, "ggqlgen")
		cmd := exec.Command("go", "build", "-o", toolPath, "./cmd/ggqlgen")
		cmd.Dir = repoDir()
		cmd.Env = append(os.Environ(), "GOFLAGS=-mod=mod", "GOPROXY=off", "GOSUMDB=off", "GOTOOLCHAIN=local")
		if out, err := cmd.CombinedOutput(); err != nil {
			toolErr = fmt.Errorf("building ggqlgen: %v\n%s", err, out)
		}
	})
	return toolPath, toolErr
}

func cleanupTool() {
	if toolPath != "" {
		_ = os.RemoveAll(filepath.Dir(toolPath))
	}
}

// runTool rewrites (-w) and embeds (-e) the given schema files; returns the rewritten texts
// (in file order) and the embedded constants.
func runTool(files []string) (rewritten []string, embedded []string, err error) {
	tool, err := buildTool()
	if err != nil {
		return nil, nil, err
	}
	dir, err := os.MkdirTemp(scratchBase(), "c15tool-")
	if err != nil {
		return nil, nil, err
	}
	defer os.RemoveAll(dir)
	var wArgs, eArgs []string
	for i, txt := range files {
		for _, sub := range []string{"w", "e"} {
			p := filepath.Join(dir, fmt.Sprintf("%s%d.graphql", sub, i))
			if err := os.WriteFile(p, []byte(txt), 0o644); err != nil {
				return nil, nil, err
			}
		}
		wArgs = append(wArgs, "-w", filepath.Join(dir, fmt.Sprintf("w%d.graphql", i)))
		src := filepath.Join(dir, fmt.Sprintf("e%d.graphql", i))
		eArgs = append(eArgs, "-e", fmt.Sprintf("%s:%s:Schema%d", src, filepath.Join(dir, fmt.Sprintf("e%d.go", i)), i))
	}
	if out, err := exec.Command(tool, wArgs...).CombinedOutput(); err != nil {
		return nil, nil, fmt.Errorf("ggqlgen -w failed: %v\n%s", err, out)
	}
	for i := range files {
		b, err := os.ReadFile(filepath.Join(dir, fmt.Sprintf("w%d.graphql", i)))
		if err != nil {
			return nil, nil, err
		}
		rewritten = append(rewritten, string(b))
	}
	var srcs []string
	for i := range files {
		srcs = append(srcs, filepath.Join(dir, fmt.Sprintf("e%d.graphql", i)))
	}
	if out, err := exec.Command(tool, append(eArgs, srcs...)...).CombinedOutput(); err != nil {
		return nil, nil, fmt.Errorf("ggqlgen -e failed: %v\n%s", err, out)
	}
	for i := range files {
		txt, err := readConst(filepath.Join(dir, fmt.Sprintf("e%d.go", i)))
		if err != nil {
			return nil, nil, err
		}
		embedded = append(embedded, txt)
	}
	return
}

// readConst extracts the single back-quoted string constant of a generated Go file.
func readConst(path string) (string, error) {
	fset := token.NewFileSet()
	f, err := parser.ParseFile(fset, path, nil, parser.AllErrors)
	if err != nil {
		return "", fmt.Errorf("embedded file does not parse as Go: %v", err)
	}
	for _, d := range f.Decls {
		if gd, ok := d.(*ast.GenDecl); ok && gd.Tok == token.CONST {
			for _, sp := range gd.Specs {
				if vs, ok := sp.(*ast.ValueSpec); ok && len(vs.Values) == 1 {
					if bl, ok := vs.Values[0].(*ast.BasicLit); ok && bl.Kind == token.STRING {
						return strings.Trim(bl.Value, "`"), nil
					}
				}
			}
		}
	}
	return "", fmt.Errorf("no string constant in %s", path)
}
