package sdl

import (
	"fmt"
	"math"
	"reflect"
	"sort"
	"strconv"
	"strings"
	"time"
	"unsafe"

	"github.com/uhn/ggql/pkg/ggql"
)

// canonValue renders a default / directive argument value canonically: numbers by
// value (3.0 == 3, float32 through its shortest decimal), times as UTC RFC 3339
// text, symbols distinct from strings, map keys sorted.
func canonValue(v interface{}) string {
	switch t := v.(type) {
	case nil:
		return "null"
	case bool:
		return strconv.FormatBool(t)
	case string:
		// a time given as text and the same time after coercion are the same value
		if tm, err := time.Parse(time.RFC3339Nano, t); err == nil && len(t) >= 20 {
			return "t" + tm.UTC().Format(time.RFC3339Nano)
		}
		return strconv.Quote(t)
	case ggql.Symbol:
		return "sym:" + string(t)
	case ggql.Var:
		return "$" + string(t)
	case time.Time:
		return "t" + t.UTC().Format(time.RFC3339Nano)
	case int:
		return strconv.FormatInt(int64(t), 10)
	case int8:
		return strconv.FormatInt(int64(t), 10)
	case int16:
		return strconv.FormatInt(int64(t), 10)
	case int32:
		return strconv.FormatInt(int64(t), 10)
	case int64:
		return strconv.FormatInt(t, 10)
	case uint64:
		return strconv.FormatUint(t, 10)
	case float32:
		f, _ := strconv.ParseFloat(strconv.FormatFloat(float64(t), 'g', -1, 32), 64)
		return canonFloat(f)
	case float64:
		return canonFloat(t)
	case []interface{}:
		parts := make([]string, len(t))
		for i, e := range t {
			parts[i] = canonValue(e)
		}
		return "[" + strings.Join(parts, ",") + "]"
	case map[string]interface{}:
		keys := make([]string, 0, len(t))
		for k := range t {
			keys = append(keys, k)
		}
		sort.Strings(keys)
		parts := make([]string, len(keys))
		for i, k := range keys {
			parts[i] = k + ":" + canonValue(t[k])
		}
		return "{" + strings.Join(parts, ",") + "}"
	}
	return fmt.Sprintf("?%T:%v", v, v)
}

func canonFloat(f float64) string {
	if f == math.Trunc(f) && math.Abs(f) < 1e18 {
		return strconv.FormatInt(int64(f), 10)
	}
	// compare at float32 granularity when the value is a float32 (Float defaults are coerced to float32)
	return strconv.FormatFloat(f, 'g', -1, 64)
}

// canonTyped is canonValue with numbers of fields declared Float compared at float32 precision
// (ggql's Float is a float32: whether a default has already been coerced to it is not a
// property of the schema).
func canonTyped(t ggql.Type, v interface{}) string {
	return canonValue(roundFloat32(t, v))
}

func roundFloat32(t ggql.Type, v interface{}) interface{} {
	switch tt := t.(type) {
	case *ggql.NonNull:
		return roundFloat32(tt.Base, v)
	case *ggql.List:
		if l, ok := v.([]interface{}); ok {
			out := make([]interface{}, len(l))
			for i, e := range l {
				out[i] = roundFloat32(tt.Base, e)
			}
			return out
		}
	case *ggql.Input:
		if m, ok := v.(map[string]interface{}); ok {
			out := map[string]interface{}{}
			for k, e := range m {
				out[k] = e
				for _, f := range tt.Fields() {
					if f.Name() == k {
						out[k] = roundFloat32(f.Type, e)
					}
				}
			}
			// Whether the defaults of the input type's own fields have been filled into a value
			// yet depends on when ggql last coerced it (a field added by a later 'extend input'
			// reaches a stored value only with the next coercion): a missing member and a member
			// holding the field's default say the same.
			for _, f := range tt.Fields() {
				if _, has := out[f.Name()]; !has && f.Default != nil {
					out[f.Name()] = roundFloat32(f.Type, f.Default)
				}
			}
			return out
		}
	}
	if t != nil && t.Name() == "Float" {
		switch f := v.(type) {
		case float64:
			return float64(float32(f))
		case float32:
			return float64(f)
		case int64:
			return float64(float32(f))
		case int32:
			return float64(float32(f))
		}
	}
	return v
}

// DescribeOpts tunes the canonical description.
type DescribeOpts struct {
	FillDefaults bool // fill a directive use's missing arguments from the definition's defaults
	Float32      bool // compare Float-typed directive arguments at float32 precision
}

func describeUses(root *ggql.Root, dus []*ggql.DirectiveUse, o DescribeOpts) string {
	parts := make([]string, 0, len(dus))
	for _, du := range dus {
		name := "<nil>"
		if du.Directive != nil {
			name = du.Directive.Name()
		}
		args := map[string]string{}
		var decl map[string]*ggql.Arg
		if d, ok := du.Directive.(*ggql.Directive); ok {
			decl = dirArgs(d)
		}
		for k, av := range du.Args {
			if av != nil && av.Value != nil {
				var at ggql.Type
				if a := decl[k]; a != nil {
					at = a.Type
				}
				args[k] = canonTyped(at, av.Value)
			} else if a := decl[k]; av != nil && a != nil && a.Default != nil {
				// a null written out for an argument that has a default overrides the default; for
				// an argument without a default it says the same as leaving the argument out
				args[k] = "null"
			}
		}
		if o.FillDefaults {
			for an, a := range decl {
				if _, has := args[an]; !has && a.Default != nil {
					args[an] = canonTyped(a.Type, a.Default)
				}
			}
		}
		keys := make([]string, 0, len(args))
		for k := range args {
			keys = append(keys, k)
		}
		sort.Strings(keys)
		s := "@" + name + "("
		for i, k := range keys {
			if i > 0 {
				s += ","
			}
			s += k + "=" + args[k]
		}
		parts = append(parts, s+")")
	}
	sort.Strings(parts)
	return strings.Join(parts, " ")
}

func describeArgs(root *ggql.Root, args []*ggql.Arg, o DescribeOpts) []string {
	var out []string
	for _, a := range args {
		s := fmt.Sprintf("      arg %s: %s default=%s desc=%q dirs=[%s]", a.Name(), typeString(a.Type), canonTyped(a.Type, a.Default), a.Description(), describeUses(root, a.Dirs, o))
		out = append(out, s)
	}
	sort.Strings(out)
	return out
}

func describeFields(root *ggql.Root, fields []*ggql.FieldDef, o DescribeOpts) []string {
	var blocks []string
	for _, f := range fields {
		lines := []string{fmt.Sprintf("    field %s: %s desc=%q dirs=[%s]", f.Name(), typeString(f.Type), f.Description(), describeUses(root, f.Dirs, o))}
		lines = append(lines, describeArgs(root, f.Args(), o)...)
		blocks = append(blocks, strings.Join(lines, "\n"))
	}
	sort.Strings(blocks)
	return blocks
}

// Describe reads a root's schema through the public API into a canonical text:
// everything sorted by name, member order normalised.
func Describe(root *ggql.Root, o DescribeOpts) string {
	var blocks []string
	for _, t := range root.Types() {
		if t.Core() {
			continue
		}
		name := t.Name()
		k := kindOf(t)
		if k == "scalar" && name == "Time" {
			continue
		}
		head := fmt.Sprintf("%s %s desc=%q dirs=[%s]", k, name, t.Description(), describeUses(root, t.Directives(), o))
		var lines []string
		switch tt := t.(type) {
		case *ggql.Schema:
			// the operation roots are described below for explicit and implied schema blocks alike; whether
			// the block is written out is not schema content, the directive uses on it are
			if len(t.Directives()) == 0 {
				continue
			}
			head = fmt.Sprintf("schema dirs=[%s]", describeUses(root, t.Directives(), o))
			_ = tt
		case *ggql.Object:
			var ins []string
			for _, i := range tt.Interfaces {
				ins = append(ins, i.Name())
			}
			sort.Strings(ins)
			lines = append(lines, "    implements "+strings.Join(ins, ","))
			lines = append(lines, describeFields(root, tt.Fields(), o)...)
		case *ggql.Interface:
			lines = append(lines, describeFields(root, tt.Fields(), o)...)
		case *ggql.Union:
			var ms []string
			for _, m := range tt.Members {
				ms = append(ms, m.Name())
			}
			sort.Strings(ms)
			lines = append(lines, "    members "+strings.Join(ms, ","))
		case *ggql.Enum:
			for _, ev := range tt.Values() {
				lines = append(lines, fmt.Sprintf("    value %s desc=%q dirs=[%s]", ev.Value, ev.Description, describeUses(root, ev.Directives, o)))
			}
			sort.Strings(lines)
		case *ggql.Input:
			for _, f := range tt.Fields() {
				lines = append(lines, fmt.Sprintf("    input-field %s: %s default=%s desc=%q dirs=[%s]", f.Name(), typeString(f.Type), canonTyped(f.Type, f.Default), f.Description(), describeUses(root, f.Dirs, o)))
			}
			sort.Strings(lines)
		}
		blocks = append(blocks, head+"\n"+strings.Join(lines, "\n"))
	}
	// directives
	for _, d := range rootDirectives(root) {
		if d.Core() {
			continue
		}
		name := d.Name()
		var locs []string
		for _, on := range d.On {
			locs = append(locs, string(on))
		}
		sort.Strings(locs)
		var args []*ggql.Arg
		for _, a := range dirArgs(d) {
			args = append(args, a)
		}
		lines := describeArgs(root, args, o)
		blocks = append(blocks, fmt.Sprintf("directive %s desc=%q on %s\n%s", name, d.Description(), strings.Join(locs, "|"), strings.Join(lines, "\n")))
	}
	if sch := impliedSchema(root); sch != nil && len(sch.Directives()) > 0 {
		blocks = append(blocks, fmt.Sprintf("schema dirs=[%s]", describeUses(root, sch.Directives(), o))+"\n")
	}
	// the operation roots, whether the schema block is explicit or implied (an implied one is not in Types())
	roots := "roots"
	res := root.ResolveString("{__schema{queryType{name}mutationType{name}subscriptionType{name}}}", "", nil)
	data, _ := res["data"].(map[string]interface{})
	sch, _ := data["__schema"].(map[string]interface{})
	for _, op := range []string{"queryType", "mutationType", "subscriptionType"} {
		name := "-"
		if m, _ := sch[op].(map[string]interface{}); m != nil {
			name = fmt.Sprint(m["name"])
		}
		roots += " " + op + "=" + name
	}
	if res["errors"] != nil {
		roots += fmt.Sprintf(" errors=%v", res["errors"])
	}
	// the descriptions of the operation fields of the schema block
	schObj := impliedSchema(root)
	for _, t := range root.Types() {
		if st, ok := t.(*ggql.Schema); ok {
			schObj = st
		}
	}
	if schObj != nil {
		var ds []string
		for _, f := range schObj.Fields() {
			if f.Description() != "" {
				ds = append(ds, fmt.Sprintf("%s.desc=%q", f.Name(), f.Description()))
			}
		}
		sort.Strings(ds)
		if len(ds) > 0 {
			roots += " " + strings.Join(ds, " ")
		}
	}
	blocks = append(blocks, roots)
	sort.Strings(blocks)
	return strings.Join(blocks, "\n")
}

// impliedSchema returns the schema object of a root whose schema block is implied (it is not among
// Types() and no accessor hands it out: it is read from the root's unexported field), nil otherwise.
func impliedSchema(root *ggql.Root) *ggql.Schema {
	for _, t := range root.Types() {
		if _, ok := t.(*ggql.Schema); ok {
			return nil
		}
	}
	f := reflect.ValueOf(root).Elem().FieldByName("schema")
	if !f.IsValid() || f.Kind() != reflect.Ptr || f.IsNil() {
		return nil
	}
	sch, _ := reflect.NewAt(f.Type(), unsafe.Pointer(f.UnsafeAddr())).Elem().Interface().(*ggql.Schema)
	return sch
}

// rootDirectives returns the directive definitions of a root, those that share their name with a type
// included (GetType answers with the type then, and no other accessor lists directives: they are
// read from the root's unexported table).
func rootDirectives(root *ggql.Root) (out []*ggql.Directive) {
	_ = root.Types() // (initialises a fresh root)
	f := reflect.ValueOf(root).Elem().FieldByName("dirs")
	if !f.IsValid() || f.Kind() != reflect.Ptr || f.IsNil() {
		return nil
	}
	l := f.Elem().FieldByName("list")
	if !l.IsValid() || l.Kind() != reflect.Slice {
		return nil
	}
	l = reflect.NewAt(l.Type(), unsafe.Pointer(l.UnsafeAddr())).Elem()
	for i := 0; i < l.Len(); i++ {
		if d, ok := l.Index(i).Interface().(*ggql.Directive); ok {
			out = append(out, d)
		}
	}
	return
}
