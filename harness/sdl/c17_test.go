package sdl

import (
	"fmt"
	"sort"
	"strings"
	"testing"

	"github.com/uhn/ggql/pkg/ggql"
	"pgregory.net/rapid"

	"verifharness/hx"
)

// ---- expected introspection view of a model -------------------------------------------------

func kindName(s *hx.Schema, name string) string {
	switch s.KindOf(name) {
	case hx.KObject:
		return "OBJECT"
	case hx.KInterface:
		return "INTERFACE"
	case hx.KUnion:
		return "UNION"
	case hx.KEnum:
		return "ENUM"
	case hx.KInput:
		return "INPUT_OBJECT"
	}
	return "SCALAR"
}

func chain(s *hx.Schema, t *hx.TRef) string {
	if t.NonNull {
		c := *t
		c.NonNull = false
		return "NON_NULL(" + chain(s, &c) + ")"
	}
	if t.List != nil {
		return "LIST(" + chain(s, t.List) + ")"
	}
	return kindName(s, t.Name) + ":" + t.Name
}

// actualChain unrolls ofType of a response.
func actualChain(x interface{}) string {
	m, ok := x.(map[string]interface{})
	if !ok || m == nil {
		return "<nil>"
	}
	kind, _ := m["kind"].(string)
	switch kind {
	case "NON_NULL", "LIST":
		return kind + "(" + actualChain(m["ofType"]) + ")"
	}
	name, _ := m["name"].(string)
	return kind + ":" + name
}

func depInfo(dirs []hx.DirUse) (dep bool, reason string, explicit bool) {
	for _, d := range dirs {
		if d.Name == "deprecated" {
			dep = true
			for _, kv := range d.Args {
				if kv.Key == "reason" && kv.V.K == "string" {
					reason, explicit = kv.V.S, true
				}
			}
		}
	}
	return
}

func descEq(model string, actual interface{}) bool {
	a, _ := actual.(string)
	// ggql trims lines and drops blank ones when it reads a description
	var lines []string
	for _, l := range strings.Split(model, "\n") {
		if l = strings.TrimSpace(l); l != "" {
			lines = append(lines, l)
		}
	}
	return strings.Join(lines, "\n") == a
}

type c17Case struct {
	Schema   *hx.Schema `json:"schema"`
	RootKind string     `json:"root_kind"` // reflection | resolver | any
	InclDep  string     `json:"include_deprecated"`
	// Then: further includeDeprecated settings asked one after the other on the SAME root
	Then []string `json:"then,omitempty"`
	// Loads: the schema arrives as these successive documents (an arrangement of the same
	// definitions), with an introspection request after every load
	Loads []string `json:"loads,omitempty"`
	// FailedLoad: a refused document (see refusedExtension) is loaded before the requests
	FailedLoad bool `json:"failed_load,omitempty"`
	// API: the schema is given to the root through the Go API (BuildAPI) instead of as SDL text
	API bool `json:"api,omitempty"`
	// Exercise: requests using the fields' arguments (ExerciseRequests) are resolved before the root
	// is asked about itself
	Exercise bool `json:"exercise,omitempty"`
	// APISteps (with API): two AddTypes calls, see lateRoots
	APISteps bool `json:"api_steps,omitempty"`
	// Draft: before the schema arrives, a refused draft of it is loaded: the same definitions with
	// other descriptions and, for objects, one more field - refused in validation (an object lacking a field of its interface, at its end)
	Draft bool `json:"draft,omitempty"`
	// Midway (with FailedLoad): further refused documents, each an extension that fails part way (a
	// new member listed before one the type already has)
	Midway bool `json:"midway,omitempty"`
}

// draftOf: the definitions of the schema as an earlier draft had them, refused in validation.
func draftOf(s *hx.Schema) string {
	cp := *s
	cp.Types = nil
	for _, td := range s.Types {
		c2 := *td
		c2.Desc = "draft of " + td.Name
		if td.Kind == hx.KObject || td.Kind == hx.KInterface {
			c2.Fields = append(append([]*hx.Field{}, td.Fields...), &hx.Field{Name: "zqDraftOnly", Type: hx.Named("Int")})
		}
		if td.Kind == hx.KInput {
			c2.Inputs = append(append([]*hx.Arg{}, td.Inputs...), &hx.Arg{Name: "zqDraftOnly", Type: hx.Named("Int")})
		}
		cp.Types = append(cp.Types, &c2)
	}
	return cp.SDL(hx.SDLOpts{}) + "\ninterface ZqDraftI { b: Int }\ntype ZqDraftT implements ZqDraftI { a: Int }\n"
}

// midwayExtensions: documents that each extend one type with a new member followed by a member the
// type already has (the extension fails when it is half applied).
func midwayExtensions(s *hx.Schema) []string {
	var out []string
	seen := map[string]bool{}
	for _, td := range s.Types {
		if seen[td.Kind] {
			continue
		}
		switch {
		case td.Kind == hx.KObject && len(td.Fields) > 0:
			out = append(out, fmt.Sprintf("extend type %s { zqMid: Int %s: Int }\n", td.Name, td.Fields[0].Name))
		case td.Kind == hx.KInterface && len(td.Fields) > 0:
			out = append(out, fmt.Sprintf("extend interface %s { zqMid: Int %s: Int }\n", td.Name, td.Fields[0].Name))
		case td.Kind == hx.KEnum && len(td.Values) > 0:
			out = append(out, fmt.Sprintf("extend enum %s { ZQMID %s }\n", td.Name, td.Values[0].Name))
		case td.Kind == hx.KInput && len(td.Inputs) > 0:
			out = append(out, fmt.Sprintf("extend input %s { zqMid: Int %s: Int }\n", td.Name, td.Inputs[0].Name))
		case td.Kind == hx.KUnion && len(td.Members) > 0:
			out = append(out, fmt.Sprintf("type ZqMidT { a: Int }\nextend union %s = ZqMidT | %s\n", td.Name, td.Members[0]))
		default:
			continue
		}
		seen[td.Kind] = true
	}
	return out
}

// lateRoots: the implied mutation and subscription types, if nothing else in the schema refers to
// them (they can then be added after everything else).
func lateRoots(s *hx.Schema) map[string]bool {
	if s.Roots != nil {
		return nil
	}
	out := map[string]bool{}
	for _, n := range []string{"Mutation", "Subscription"} {
		if td := s.Type(n); td != nil && td.Kind == hx.KObject {
			out[n] = true
		}
	}
	// a type stays late only while everything that refers to it is late as well (a late type may
	// refer to the other late type: both arrive together)
	for changed := true; changed; {
		changed = false
		for _, td := range s.Types {
			if out[td.Name] {
				continue
			}
			for _, f := range td.Fields {
				if out[f.Type.BaseName()] {
					delete(out, f.Type.BaseName())
					changed = true
				}
			}
			for _, m := range td.Members {
				if out[m] {
					delete(out, m)
					changed = true
				}
			}
		}
	}
	return out
}

type resolverRoot struct{}

func (r *resolverRoot) Resolve(field *ggql.Field, args map[string]interface{}) (interface{}, error) {
	return &resolverRoot{}, nil
}

type anyHandle struct{}
type wellBehavedAny struct{}

func (a *wellBehavedAny) Resolve(obj interface{}, field *ggql.Field, args map[string]interface{}) (interface{}, error) {
	if _, ok := obj.(*anyHandle); ok {
		return &anyHandle{}, nil
	}
	return nil, fmt.Errorf("unknown object %T", obj)
}
func (a *wellBehavedAny) Len(list interface{}) int { return 0 }
func (a *wellBehavedAny) Nth(list interface{}, i int) (interface{}, error) {
	return nil, fmt.Errorf("%T is not a list", list)
}

func newRootOfKind(kind string) *ggql.Root {
	ggql.Sort = true
	ggql.Relaxed = false
	switch kind {
	case "resolver":
		return ggql.NewRoot(&resolverRoot{})
	case "any":
		r := ggql.NewRoot(&anyHandle{})
		r.AnyResolver = &wellBehavedAny{}
		return r
	}
	return ggql.NewRoot(newRootObj())
}

func asList(x interface{}) []interface{} {
	l, _ := x.([]interface{})
	return l
}

func byName(l []interface{}) map[string]map[string]interface{} {
	out := map[string]map[string]interface{}{}
	for _, e := range l {
		if m, ok := e.(map[string]interface{}); ok {
			if n, ok := m["name"].(string); ok {
				out[n] = m
			}
		}
	}
	return out
}

func namesOf(l []interface{}) []string {
	var out []string
	for _, e := range l {
		if m, ok := e.(map[string]interface{}); ok {
			if n, ok := m["name"].(string); ok {
				out = append(out, n)
			}
		}
	}
	sort.Strings(out)
	return out
}

var builtinTypeNames = map[string]bool{"String": true, "Int": true, "Float": true, "Boolean": true, "ID": true, "Int64": true, "Float64": true, "Time": true}

const c17Query = `query Intro($inc: Boolean) {
  __schema {
    queryType { name kind } mutationType { name kind } subscriptionType { name kind }
    types { ...FullType }
    directives { name description locations args { ...InputValue } }
  }
  unknown: __type(name: "NoSuchType") { name }
}
fragment FullType on __Type {
  kind name description
  fields(includeDeprecated: INC) { name description args { ...InputValue } type { ...TypeRef } isDeprecated deprecationReason }
  inputFields { ...InputValue }
  interfaces { ...TypeRef }
  enumValues(includeDeprecated: INC) { name description isDeprecated deprecationReason }
  possibleTypes { ...TypeRef }
}
fragment InputValue on __InputValue { name description type { ...TypeRef } defaultValue }
fragment TypeRef on __Type { kind name ofType { kind name ofType { kind name ofType { kind name ofType { kind name ofType { kind name ofType { kind name ofType { kind name } } } } } } } }
`

func scalarDefaultText(v hx.Val) (string, bool) {
	switch v.K {
	case "int64", "bool":
		return v.S, true
	case "float64":
		return v.S, true
	case "string":
		return v.S, true
	}
	return "", false
}

func numEqText(a, b string) bool {
	if a == b {
		return true
	}
	var fa, fb float64
	if _, err := fmt.Sscanf(a, "%g", &fa); err != nil {
		return false
	}
	if _, err := fmt.Sscanf(b, "%g", &fb); err != nil {
		return false
	}
	return fa == fb || float32(fa) == float32(fb)
}

// refusedExtension writes a document that adds a member to every object, interface, enum and input
// type of the schema and breaks a validation rule at its end.
func refusedExtension(s *hx.Schema) string {
	var b strings.Builder
	for _, td := range s.Types {
		switch td.Kind {
		case hx.KObject:
			fmt.Fprintf(&b, "extend type %s { zq9: Int zq8: Int @deprecated }\n", td.Name)
		case hx.KInterface:
			fmt.Fprintf(&b, "extend interface %s { zq7: Int @deprecated }\n", td.Name)
		case hx.KEnum:
			fmt.Fprintf(&b, "extend enum %s { ZQ9 ZQ8 @deprecated }\n", td.Name)
		case hx.KInput:
			fmt.Fprintf(&b, "extend input %s { zq9: Int }\n", td.Name)
		}
	}
	// operation types the implied schema does not have yet arrive with the refused document and are
	// named by an extension of the schema in it; input defaults change how stored values coerce
	if s.Roots == nil {
		for _, op := range []string{"Mutation", "Subscription"} {
			if s.Type(op) == nil && s.ExtRoots[strings.ToLower(op)] == "" {
				fmt.Fprintf(&b, "type %s { zqGone: Int }\n", op)
				other := map[string]string{"Mutation": "subscription", "Subscription": "mutation"}[op]
				if s.RootType(other) == "" {
					fmt.Fprintf(&b, "type ZqOp%s { a: Int }\nextend schema { %s: ZqOp%s }\n", op, other, op)
				}
				break
			}
		}
	}
	for _, td := range s.Types {
		if td.Kind == hx.KInput {
			fmt.Fprintf(&b, "extend input %s { zq7: Int = 5 }\n", td.Name)
		}
	}
	b.WriteString("interface ZqI { a: Int }\ntype Zq9 implements ZqI { b: Int }\n")
	return b.String()
}

func checkC17(c *c17Case) (ds []hx.Discrepancy, info map[string]bool) {
	info = map[string]bool{}
	sdl := c.Schema.SDL(hx.SDLOpts{})
	root := newRootOfKind(c.RootKind)
	if c.Draft {
		info["refused-draft-of-the-schema-loaded-first"] = true
		if err := root.ParseString(draftOf(c.Schema)); err == nil {
			return []hx.Discrepancy{{Kind: "setup", Detail: "the draft meant to be refused was accepted:\n" + draftOf(c.Schema)}}, info
		}
	}
	if len(c.Loads) > 0 {
		// the same definitions arriving in successive loads, the root being asked about itself
		// after every one of them (the answers to those intermediate requests are not looked at)
		info["introspected-between-loads"] = true
		for i, part := range c.Loads {
			if err := root.ParseString(part); err != nil {
				return []hx.Discrepancy{{Kind: "setup", Detail: fmt.Sprintf("load %d of %d rejected: %v\n%s", i+1, len(c.Loads), err, strings.Join(c.Loads, "\n---next load---\n"))}}, info
			}
			if i < len(c.Loads)-1 {
				q := strings.ReplaceAll(c17Query, "INC", "true")
				if i%2 == 1 {
					q = strings.ReplaceAll(c17Query, "(includeDeprecated: INC)", "")
				}
				_ = root.ResolveString(q, "", nil)
			}
		}
	} else {
		built := false
		if c.API {
			err, usable := error(nil), false
			if late := lateRoots(c.Schema); c.APISteps && len(late) > 0 {
				// the mutation / subscription types arrive in an AddTypes call of their own, after the
				// root has served a request
				info["operation-types-added-in-a-later-AddTypes-call"] = true
				err, usable = hx.BuildAPI(root, c.Schema, hx.BuildOpts{Skip: late})
				if usable && err == nil {
					_ = root.ResolveString("{__typename}", "", nil)
					err, usable = hx.BuildAPI(root, c.Schema, hx.BuildOpts{Only: late})
				}
			} else {
				err, usable = BuildAPI(root, c.Schema)
			}
			if usable && err != nil {
				return []hx.Discrepancy{{Kind: "api-schema-rejected", Detail: fmt.Sprintf("the schema built with the Go API is rejected: %v\n(the same schema as SDL)\n%s", err, sdl)}}, info
			}
			built = usable
			if built {
				info["schema-built-with-the-go-api"] = true
			}
		}
		if !built {
			if err := root.ParseString(sdl); err != nil {
				return []hx.Discrepancy{{Kind: "setup", Detail: fmt.Sprintf("schema rejected: %v\n%s", err, sdl)}}, info
			}
		}
	}
	if c.FailedLoad {
		// a document that extends every type it can and is then refused (in validation, after the
		// extensions were applied): the root has to describe the schema as before
		info["refused-load-before-the-request"] = true
		if err := root.ParseString(refusedExtension(c.Schema)); err == nil {
			return []hx.Discrepancy{{Kind: "setup", Detail: "the document meant to be refused was accepted:\n" + refusedExtension(c.Schema)}}, info
		}
		if c.Midway {
			// a document with a schema block of its own that does not parse to its end
			for _, td := range c.Schema.Types {
				if td.Kind == hx.KObject {
					doc := fmt.Sprintf("schema { query: %s }\ntype ZqCut {", td.Name)
					info["refused-document-with-a-schema-block-that-does-not-parse"] = true
					if err := root.ParseString(doc); err == nil {
						return []hx.Discrepancy{{Kind: "setup", Detail: "the document meant to be refused was accepted:\n" + doc}}, info
					}
					break
				}
			}
			for _, doc := range midwayExtensions(c.Schema) {
				info["refused-extension-that-fails-part-way"] = true
				if err := root.ParseString(doc); err == nil {
					return []hx.Discrepancy{{Kind: "setup", Detail: "the extension meant to be refused was accepted:\n" + doc + "\n" + sdl}}, info
				}
			}
		}
	}
	if c.Exercise {
		// what the root says about itself must not depend on the requests it has served meanwhile
		ask := func() string {
			defer func() { _ = recover() }()
			res := root.ResolveString(strings.ReplaceAll(c17Query, "INC", "true"), "", nil)
			return hx.Show(hx.Norm(res))
		}
		before := ask()
		defer func() {
			if after := ask(); after != before && len(ds) == 0 {
				ds = append(ds, hx.Discrepancy{Kind: "introspection-changed-by-requests", Detail: fmt.Sprintf("the answer to the introspection request changed after these requests were resolved: %s\nrequests:\n  %s\nschema:\n%s",
					firstDiff(strings.ReplaceAll(before, ",", ",\n"), strings.ReplaceAll(after, ",", ",\n")), strings.Join(ExerciseRequests(c.Schema), "\n  "), sdl)})
			}
		}()
		for _, q := range ExerciseRequests(c.Schema) {
			info["requests-with-arguments-resolved-before-the-introspection"] = true
			func() {
				defer func() { _ = recover() }() // (a panic here is C03's business)
				_ = root.ResolveString(q, "", nil)
			}()
		}
	}
	// one parsed request asking for __type by a variable, resolved for one name after the other
	// (names of the schema in model order, an unknown name in between): every answer is about the
	// name of that call
	if exe, perr := root.ParseExecutableString(`query T($n: String!) { __type(name: $n) { name kind } }`); perr == nil {
		var names []string
		for _, td := range c.Schema.Types {
			names = append(names, td.Name)
			if len(names) == 2 {
				names = append(names, "ZqMissing")
			}
		}
		names = append(names, "ZqMissing", c.Schema.Types[0].Name)
		// the names of directives are not the names of types (unless a type has that name as well:
		// then the answer is about the type)
		names = append(names, "skip", "deprecated")
		for _, d := range c.Schema.Dirs {
			names = append(names, d.Name)
		}
		for _, n := range names {
			res, rerr := root.ResolveExecutable(exe, "T", map[string]interface{}{"n": n})
			var got, gotKind interface{}
			if d, _ := res["data"].(map[string]interface{}); d != nil {
				if tm, _ := d["__type"].(map[string]interface{}); tm != nil {
					got, gotKind = tm["name"], tm["kind"]
				}
			}
			want := interface{}(n)
			if c.Schema.Type(n) == nil {
				want = nil
			} else if wk := kindName(c.Schema, n); fmt.Sprint(gotKind) != wk && rerr == nil && got == want {
				return []hx.Discrepancy{{Kind: "type-by-variable", Detail: fmt.Sprintf("__type(name: %q) answers with kind %v, the type of that name is a %s\n%s", n, gotKind, wk, sdl)}}, info
			}
			if got != want || rerr != nil {
				return []hx.Discrepancy{{Kind: "type-by-variable", Detail: fmt.Sprintf("a kept request __type(name: $n) resolved with n=%q answered about %v (error %v); names asked in this order: %v\n%s", n, got, rerr, names, sdl)}}, info
			}
		}
		info["kept-request-asks-for-types-by-variable"] = true
	}
	// a meta field selected twice under one response key is one entry holding both selections, and a
	// selection that reaches __schema through fragments on __Schema is the selection written directly
	{
		ask := func(q string) string {
			defer func() { _ = recover() }()
			return hx.Show(hx.Norm(root.ResolveString(q, "", nil)))
		}
		direct := ask(`{__schema{queryType{name} directives{name} mutationType{name}}}`)
		for _, q := range []string{
			`{__schema{queryType{name}} __schema{directives{name} mutationType{name}}}`,
			`{__schema{...S ... on __Schema{directives{name}} mutationType{name}}} fragment S on __Schema{queryType{name}}`,
			`{...Q} fragment Q on ` + c.Schema.RootType("query") + `{__schema{queryType{name} ...S}} fragment S on __Schema{directives{name} ... on __Schema{mutationType{name}}}`,
		} {
			if got := ask(q); got != direct {
				return []hx.Discrepancy{{Kind: "meta-field-selection-forms", Detail: fmt.Sprintf("the same selection of __schema written differently is answered differently:\n  %s\n  -> %s\n  direct -> %s\n%s", q, hx.Trunc(got, 700), hx.Trunc(direct, 700), sdl)}}, info
			}
		}
		info["meta-field-selected-twice-and-through-fragments"] = true
	}
	for i, inc := range append([]string{c.InclDep}, c.Then...) {
		one := *c
		one.InclDep = inc
		d2 := checkC17On(root, &one, sdl, info)
		if i > 0 {
			info["follow-up-request-on-same-root"] = true
			for j := range d2 {
				d2[j].Detail = fmt.Sprintf("(request %d on the same root, after includeDeprecated=%v) ", i+1, append([]string{c.InclDep}, c.Then...)[:i]) + d2[j].Detail
			}
		}
		ds = append(ds, d2...)
		if len(ds) > 0 {
			break
		}
	}
	if len(ds) == 0 && c.Draft {
		ds = append(ds, leafIdentity(root, sdl)...)
	}
	if len(ds) == 0 && c.Draft {
		info["input-type-bound-to-a-go-struct(probe)"] = true
		ds = append(ds, goBoundInputProbe()...)
	}
	if len(ds) == 0 && len(c.Loads) > 1 {
		// what the root says about the schema does not depend on whether it was asked while the
		// schema was still arriving: a second root is given the same loads and asked only at the end
		quiet := newRootOfKind(c.RootKind)
		ok := true
		for _, part := range c.Loads {
			ok = ok && quiet.ParseString(part) == nil
		}
		ask := func(r *ggql.Root) string {
			defer func() { _ = recover() }()
			return hx.Show(hx.Norm(r.ResolveString(strings.ReplaceAll(c17Query, "INC", "true"), "", nil)))
		}
		if ok {
			info["compared-with-a-root-not-asked-between-loads"] = true
			if a, b := ask(root), ask(quiet); a != b {
				ds = append(ds, hx.Discrepancy{Kind: "introspection-depends-on-earlier-requests", Detail: fmt.Sprintf("a root that was asked about itself after every load and one that was asked only at the end describe the schema differently: %s\nloads:\n%s",
					firstDiff(strings.ReplaceAll(b, ",", ",\n"), strings.ReplaceAll(a, ",", ",\n")), strings.Join(c.Loads, "\n---next load---\n"))})
			}
		}
	}
	return
}

const c17LeafQuery = `{ __schema { types { name description fields(includeDeprecated: true) { name type { ...R } args { name type { ...R } } } inputFields { name type { ...R } } } } }
fragment R on __Type { ...D ofType { ...D ofType { ...D ofType { ...D ofType { ...D ofType { ...D ofType { ...D } } } } } } }
fragment D on __Type { name description fields(includeDeprecated: true) { name } inputFields { name } }`

// leafIdentity: the named type at the end of every ofType chain is the type of that name - it has
// the description and the members __schema.types lists under the name.
func leafIdentity(root *ggql.Root, sdl string) (ds []hx.Discrepancy) {
	var res map[string]interface{}
	func() {
		defer func() { _ = recover() }()
		res = root.ResolveString(c17LeafQuery, "", nil)
	}()
	data, _ := res["data"].(map[string]interface{})
	sch, _ := data["__schema"].(map[string]interface{})
	types, _ := sch["types"].([]interface{})
	if len(types) == 0 {
		return []hx.Discrepancy{{Kind: "leaf-identity", Detail: "the request unrolling every type reference got no types: " + hx.Trunc(hx.Show(hx.Norm(res)), 600)}}
	}
	sig := func(m map[string]interface{}) string {
		names := func(k string) string {
			l, _ := m[k].([]interface{})
			var out []string
			for _, e := range l {
				if em, _ := e.(map[string]interface{}); em != nil {
					out = append(out, fmt.Sprint(em["name"]))
				}
			}
			return strings.Join(out, ",")
		}
		return fmt.Sprintf("description=%q fields=[%s] inputFields=[%s]", fmt.Sprint(m["description"]), names("fields"), names("inputFields"))
	}
	byName := map[string]string{}
	for _, t := range types {
		if tm, _ := t.(map[string]interface{}); tm != nil {
			byName[fmt.Sprint(tm["name"])] = sig(tm)
		}
	}
	var walkRef func(ref interface{}, where string)
	walkRef = func(ref interface{}, where string) {
		rm, _ := ref.(map[string]interface{})
		if rm == nil || len(ds) > 0 {
			return
		}
		if inner, _ := rm["ofType"].(map[string]interface{}); inner != nil {
			walkRef(inner, where) // (a wrapper: ggql gives those a name too)
			return
		}
		if n, _ := rm["name"].(string); n != "" {
			if want, ok := byName[n]; ok && want != sig(rm) {
				ds = append(ds, hx.Discrepancy{Kind: "leaf-identity", Detail: fmt.Sprintf("%s: unrolling the type reference ends at a type named %s with %s, __schema.types lists %s with %s\n%s", where, n, sig(rm), n, want, sdl)})
			}
			return
		}
		walkRef(rm["ofType"], where)
	}
	for _, t := range types {
		tm, _ := t.(map[string]interface{})
		if tm == nil {
			continue
		}
		for _, k := range []string{"fields", "inputFields"} {
			l, _ := tm[k].([]interface{})
			for _, f := range l {
				fm, _ := f.(map[string]interface{})
				if fm == nil {
					continue
				}
				walkRef(fm["type"], fmt.Sprintf("%v.%v", tm["name"], fm["name"]))
				al, _ := fm["args"].([]interface{})
				for _, a := range al {
					if am, _ := a.(map[string]interface{}); am != nil {
						walkRef(am["type"], fmt.Sprintf("%v.%v(%v:)", tm["name"], fm["name"], am["name"]))
					}
				}
			}
		}
	}
	return
}

func checkC17On(root *ggql.Root, c *c17Case, sdl string, info map[string]bool) (ds []hx.Discrepancy) {
	add := func(kind, sig, format string, args ...interface{}) {
		ds = append(ds, hx.Discrepancy{Kind: kind, Sig: sig, Detail: fmt.Sprintf(format, args...)})
	}
	s := c.Schema
	incl := false
	q := c17Query
	var vars map[string]interface{}
	switch c.InclDep {
	case "true":
		q, incl = strings.ReplaceAll(q, "INC", "true"), true
	case "false":
		q = strings.ReplaceAll(q, "INC", "false")
	case "absent":
		q = strings.ReplaceAll(q, "(includeDeprecated: INC)", "")
	case "var-true":
		q, incl = strings.ReplaceAll(q, "INC", "$inc"), true
		vars = map[string]interface{}{"inc": true}
	case "var-false":
		q = strings.ReplaceAll(q, "INC", "$inc")
		vars = map[string]interface{}{"inc": false}
	}
	var res map[string]interface{}
	var pan interface{}
	func() {
		defer func() {
			if r := recover(); r != nil {
				pan = r
			}
		}()
		res = root.ResolveString(q, "", vars)
	}()
	ctx := func() string {
		return fmt.Sprintf("\nroot kind: %s, includeDeprecated: %s\nschema:\n%s\nerrors: %s", c.RootKind, c.InclDep, sdl, hx.Trunc(hx.Show(hx.Norm(res["errors"])), 800))
	}
	if pan != nil {
		add("panic", "", "introspection panicked: %v%s", pan, ctx())
		return
	}
	data, _ := res["data"].(map[string]interface{})
	sch, _ := data["__schema"].(map[string]interface{})
	if sch == nil {
		sig := ""
		if s.RootType("query") != "Query" {
			sig = "KF-C17-query-root-name"
		}
		add("no-schema", sig, "__schema is null / missing%s", ctx())
		return
	}
	if u, has := data["unknown"]; !has || u != nil {
		add("unknown-type-not-null", "", "__type on an unknown name gives %s%s", hx.Show(hx.Norm(u)), ctx())
	}
	// root operation types
	for _, op := range []string{"query", "mutation", "subscription"} {
		want := s.RootType(op)
		got := ""
		if m, ok := sch[op+"Type"].(map[string]interface{}); ok && m != nil {
			got, _ = m["name"].(string)
		}
		if got != want {
			add("root-type", "", "%sType is %q, the schema says %q%s", op, got, want, ctx())
		}
	}
	types := byName(asList(sch["types"]))
	// no extra user types, none missing
	var extra []string
	for n := range types {
		if !builtinTypeNames[n] && !strings.HasPrefix(n, "__") && s.Type(n) == nil {
			extra = append(extra, n)
		}
	}
	sort.Strings(extra)
	if len(extra) > 0 {
		sig := ""
		if len(extra) == 1 && extra[0] == "schema" && s.Roots != nil {
			sig = "KF-C17-phantom-schema-type"
		}
		add("extra-type", sig, "introspection lists types the schema does not define: %v%s", extra, ctx())
	}
	checkInputValues := func(where string, model []*hx.Arg, actual interface{}) {
		got := byName(asList(actual))
		if len(got) != len(model) {
			add("input-values", "", "%s: %d arguments/input fields reported (%v), %d defined%s", where, len(got), namesOf(asList(actual)), len(model), ctx())
			return
		}
		for _, a := range model {
			g := got[a.Name]
			if g == nil {
				add("input-values", "", "%s: %s missing%s", where, a.Name, ctx())
				continue
			}
			if !descEq(a.Desc, g["description"]) {
				add("description", "", "%s.%s: description %q, defined %q%s", where, a.Name, g["description"], a.Desc, ctx())
			}
			if ac, wc := actualChain(g["type"]), chain(s, a.Type); ac != wc {
				add("type-chain", "", "%s.%s: type %s, defined %s%s", where, a.Name, ac, wc, ctx())
			}
			dv := g["defaultValue"]
			switch {
			case a.Default == nil:
				if dv != nil {
					add("default", "", "%s.%s: defaultValue %v but none is defined%s", where, a.Name, dv, ctx())
				}
			default:
				if txt, scalar := scalarDefaultText(*a.Default); scalar {
					info["scalar-default"] = true
					ds, _ := dv.(string)
					if dv == nil || !(ds == txt || ds == hx.EscapeString(txt) || numEqText(ds, txt)) {
						add("default", "", "%s.%s: defaultValue %#v, defined %s%s", where, a.Name, dv, hx.ValueSDL(*a.Default), ctx())
					}
				} else {
					// enum / list / object defaults: the text must read back as the defined value
					info["non-scalar-default"] = true
					ds, _ := dv.(string)
					back, err := ggql.ParseValueString(ds)
					r := func(x interface{}) string { return canonValue(roundModel(s, a.Type, x)) }
					if dv == nil || err != nil || (r(back) != r(a.Default.Go()) && r(back) != r(fillDefaults(s, a.Type, *a.Default).Go())) {
						add("default", "", "%s.%s: defaultValue %#v does not denote the defined default %s%s", where, a.Name, dv, hx.ValueSDL(*a.Default), ctx())
					}
				}
			}
		}
	}
	for _, td := range s.Types {
		g := types[td.Name]
		if g == nil {
			add("missing-type", "", "type %s is not listed%s", td.Name, ctx())
			continue
		}
		if k, _ := g["kind"].(string); k != kindName(s, td.Name) {
			add("kind", "", "type %s has kind %q, defined as %s%s", td.Name, g["kind"], kindName(s, td.Name), ctx())
		}
		if !descEq(td.Desc, g["description"]) {
			add("description", "", "type %s: description %q, defined %q%s", td.Name, g["description"], td.Desc, ctx())
		}
		switch td.Kind {
		case hx.KObject, hx.KInterface:
			var want []*hx.Field
			for _, f := range td.Fields {
				if incl || !f.Deprecated() {
					want = append(want, f)
				}
			}
			got := byName(asList(g["fields"]))
			var wn []string
			for _, f := range want {
				wn = append(wn, f.Name)
			}
			sort.Strings(wn)
			if gn := namesOf(asList(g["fields"])); strings.Join(gn, ",") != strings.Join(wn, ",") {
				add("fields", "", "type %s (%s): fields reported %v, expected %v (includeDeprecated=%v)%s", td.Name, td.Kind, gn, wn, incl, ctx())
				continue
			}
			for _, f := range want {
				gf := got[f.Name]
				w := td.Name + "." + f.Name
				if !descEq(f.Desc, gf["description"]) {
					add("description", "", "%s: description %q, defined %q%s", w, gf["description"], f.Desc, ctx())
				}
				if ac, wc := actualChain(gf["type"]), chain(s, f.Type); ac != wc {
					add("type-chain", "", "%s: type %s, defined %s%s", w, ac, wc, ctx())
				}
				dep, reason, explicit := depInfo(f.Dirs)
				if d, _ := gf["isDeprecated"].(bool); d != dep {
					add("deprecation", "", "%s: isDeprecated %v, defined %v%s", w, gf["isDeprecated"], dep, ctx())
				}
				if dep {
					info["deprecated-member"] = true
				}
				if explicit {
					if r, _ := gf["deprecationReason"].(string); r != reason {
						add("deprecation", "", "%s: deprecationReason %#v, defined %q%s", w, gf["deprecationReason"], reason, ctx())
					}
				} else if !dep && gf["deprecationReason"] != nil {
					add("deprecation", "", "%s: deprecationReason %#v on a field that is not deprecated%s", w, gf["deprecationReason"], ctx())
				}
				checkInputValues(w, f.Args, gf["args"])
			}
			if td.Kind == hx.KObject {
				want := append([]string{}, td.Interfaces...)
				sort.Strings(want)
				if gn := namesOf(asList(g["interfaces"])); strings.Join(gn, ",") != strings.Join(want, ",") {
					sig := ""
					if c.RootKind == "any" && len(gn) == 0 {
						sig = ""
					}
					add("interfaces", sig, "type %s: interfaces %v, defined %v%s", td.Name, gn, want, ctx())
				}
			} else {
				want := s.PossibleTypes(td.Name)
				if gn := namesOf(asList(g["possibleTypes"])); strings.Join(gn, ",") != strings.Join(want, ",") {
					add("possible-types", "", "interface %s: possibleTypes %v, expected %v%s", td.Name, gn, want, ctx())
				}
				if len(want) >= 2 {
					info["interface-with->=2-implementers"] = true
				}
			}
		case hx.KUnion:
			want := append([]string{}, td.Members...)
			sort.Strings(want)
			if gn := namesOf(asList(g["possibleTypes"])); strings.Join(gn, ",") != strings.Join(want, ",") {
				add("possible-types", "", "union %s: possibleTypes %v, defined %v%s", td.Name, gn, want, ctx())
			}
		case hx.KEnum:
			var want []*hx.EnumValue
			for _, v := range td.Values {
				if incl || !hasDirNamed(v.Dirs, "deprecated") {
					want = append(want, v)
				}
			}
			var wn []string
			for _, v := range want {
				wn = append(wn, v.Name)
			}
			sort.Strings(wn)
			if gn := namesOf(asList(g["enumValues"])); strings.Join(gn, ",") != strings.Join(wn, ",") {
				add("enum-values", "", "enum %s: values %v, expected %v (includeDeprecated=%v)%s", td.Name, gn, wn, incl, ctx())
				continue
			}
			got := byName(asList(g["enumValues"]))
			for _, v := range want {
				gv := got[v.Name]
				dep, reason, explicit := depInfo(v.Dirs)
				if d, _ := gv["isDeprecated"].(bool); d != dep {
					add("deprecation", "", "%s.%s: isDeprecated %v, defined %v%s", td.Name, v.Name, gv["isDeprecated"], dep, ctx())
				}
				if explicit {
					if r, _ := gv["deprecationReason"].(string); r != reason {
						add("deprecation", "", "%s.%s: deprecationReason %#v, defined %q%s", td.Name, v.Name, gv["deprecationReason"], reason, ctx())
					}
				}
				if !descEq(v.Desc, gv["description"]) {
					add("description", "", "%s.%s: description %q, defined %q%s", td.Name, v.Name, gv["description"], v.Desc, ctx())
				}
			}
		case hx.KInput:
			checkInputValues(td.Name, td.Inputs, g["inputFields"])
		}
	}
	// directives
	dirs := byName(asList(sch["directives"]))
	for _, d := range s.Dirs {
		g := dirs[d.Name]
		if g == nil {
			add("directive", "", "directive @%s is not listed%s", d.Name, ctx())
			continue
		}
		var locs []string
		for _, l := range asList(g["locations"]) {
			if ls, ok := l.(string); ok {
				locs = append(locs, ls)
			}
		}
		sort.Strings(locs)
		want := append([]string{}, d.On...)
		sort.Strings(want)
		if strings.Join(locs, ",") != strings.Join(want, ",") {
			add("directive", "", "directive @%s: locations %v, defined %v%s", d.Name, locs, want, ctx())
		}
		if !descEq(d.Desc, g["description"]) {
			add("description", "", "directive @%s: description %q, defined %q%s", d.Name, g["description"], d.Desc, ctx())
		}
		checkInputValues("@"+d.Name, d.Args, g["args"])
	}
	for n := range dirs {
		switch n {
		case "skip", "include", "deprecated", "go":
		default:
			if s.Dir(n) == nil {
				add("directive", "", "introspection lists directive @%s which is not defined%s", n, ctx())
			}
		}
	}
	return
}

// roundModel rounds numbers of positions declared Float to float32 precision (model-side twin of
// describe.go's roundFloat32).
func roundModel(s *hx.Schema, t *hx.TRef, v interface{}) interface{} {
	if t == nil {
		return v
	}
	if t.List != nil {
		if l, ok := v.([]interface{}); ok {
			out := make([]interface{}, len(l))
			for i, e := range l {
				out[i] = roundModel(s, t.List, e)
			}
			return out
		}
		return v
	}
	if td := s.Type(t.Name); td != nil && td.Kind == hx.KInput {
		if m, ok := v.(map[string]interface{}); ok {
			out := map[string]interface{}{}
			for k, e := range m {
				out[k] = e
				if f := td.Input(k); f != nil {
					out[k] = roundModel(s, f.Type, e)
				}
			}
			return out
		}
		return v
	}
	if t.Name == "Float" {
		switch f := v.(type) {
		case float64:
			return float64(float32(f))
		case int64:
			return float64(float32(f))
		}
	}
	return v
}

// fillDefaults completes an input object literal with the defaults of the fields it leaves out
// (the value a directive argument default denotes after coercion).
func fillDefaults(s *hx.Schema, t *hx.TRef, v hx.Val) hx.Val {
	if v.IsNil() {
		return v
	}
	if t.List != nil && v.K == "list" {
		out := make([]hx.Val, len(v.L))
		for i, e := range v.L {
			out[i] = fillDefaults(s, t.List, e)
		}
		return hx.List(out...)
	}
	td := s.Type(t.BaseName())
	if td == nil || td.Kind != hx.KInput || v.K != "map" {
		return v
	}
	var kvs []hx.KV
	for _, f := range td.Inputs {
		if cur, has := v.Get(f.Name); has && !cur.IsNil() {
			kvs = append(kvs, hx.KV{Key: f.Name, V: fillDefaults(s, f.Type, cur)})
		} else if f.Default != nil {
			kvs = append(kvs, hx.KV{Key: f.Name, V: fillDefaults(s, f.Type, *f.Default)})
		} else if has {
			kvs = append(kvs, hx.KV{Key: f.Name, V: cur})
		}
	}
	return hx.Map(kvs...)
}

func hasDirNamed(ds []hx.DirUse, name string) bool {
	for _, d := range ds {
		if d.Name == name {
			return true
		}
	}
	return false
}

func TestC17(t *testing.T) {
	run := hx.NewRun("C17")
	defer run.Flush()
	classes := func(c *c17Case, info map[string]bool) (bool, []string) {
		cl := []string{"root=" + c.RootKind, "includeDeprecated=" + c.InclDep}
		for k := range info {
			cl = append(cl, k)
		}
		deep := false
		for _, td := range c.Schema.Types {
			for _, f := range td.Fields {
				if f.Type.Wrappers() >= 3 {
					deep = true
				}
			}
		}
		if deep {
			cl = append(cl, "wrapper-depth>=3")
		}
		if c.Schema.Roots != nil {
			cl = append(cl, "explicit-schema-block")
		}
		return info["interface-with->=2-implementers"] || deep || info["deprecated-member"], cl
	}
	one := func(fatal func(string, ...interface{}), c *c17Case) {
		ds, info := checkC17(c)
		nt, cl := classes(c, info)
		run.Case(hx.Hash(c), nt, cl...)
		run.Sample(func() interface{} {
			return map[string]interface{}{"root": c.RootKind, "includeDeprecated": c.InclDep, "schema": hx.Trunc(c.Schema.SDL(hx.SDLOpts{}), 700)}
		})
		real := run.Triage(ds)
		if hx.Replaying() != "" {
			for _, d := range ds {
				if d.Sig != "" {
					fmt.Printf("REPLAY-KNOWN sig=%s %s\n", d.Sig, hx.Trunc(d.Detail, 300))
				}
			}
		}
		if len(real) > 0 {
			fatal("C17 violated: %s", run.ReportFailure(c, real))
		}
	}
	if f := hx.Replaying(); f != "" {
		var c c17Case
		if err := hx.LoadCase(f, &c); err != nil {
			t.Fatalf("load %s: %v", f, err)
		}
		one(func(f string, a ...interface{}) { t.Fatalf("REPLAY-FAIL "+f, a...) }, &c)
		return
	}
	rapid.Check(t, func(rt *rapid.T) {
		s := GenFull(rt, Opts{Descs: true, Directives: true, Deprecated: true})
		inc := rapid.SampledFrom([]string{"true", "false", "absent", "var-true", "var-false"}).Draw(rt, "includeDeprecated")
		then := rapid.SliceOfN(rapid.SampledFrom([]string{"true", "false", "absent", "var-true", "var-false"}), 0, 2).Draw(rt, "then")
		var loads []string
		if rapid.IntRange(0, 2).Draw(rt, "successiveLoads") == 0 {
			arr := Arrange(rt, s, hx.SDLOpts{}, "c17", true, 3)
			if parts := arr.Texts(); len(parts) > 1 {
				loads = parts
			}
			if rapid.Bool().Draw(rt, "extendsInALoadOfTheirOwn") {
				if parts := ExtendsLast(arr); parts != nil {
					loads = parts
				}
			}
		}
		failed := rapid.IntRange(0, 3).Draw(rt, "refusedLoad") == 0
		api := loads == nil && rapid.IntRange(0, 2).Draw(rt, "goAPI") == 0
		exercise := rapid.Bool().Draw(rt, "exercise")
		steps := api && rapid.Bool().Draw(rt, "apiSteps")
		draft := rapid.IntRange(0, 3).Draw(rt, "refusedDraftFirst") == 0
		midway := failed && rapid.Bool().Draw(rt, "extensionsFailingPartWay")
		for _, rk := range []string{"reflection", "resolver", "any"} {
			one(rt.Fatalf, &c17Case{Schema: s, RootKind: rk, InclDep: inc, Then: then, Loads: loads, FailedLoad: failed, API: api, Exercise: exercise, APISteps: steps, Draft: draft, Midway: midway})
		}
	})
}

type zqProbeIn struct {
	A int
	B int
}

// goBoundInputProbe: an application may bind an input type to a Go struct (RegisterType). What the
// root says about directive arguments of that type - their default values - stays the schema's text,
// whatever form the values are kept in once they have been coerced.
func goBoundInputProbe() (ds []hx.Discrepancy) {
	root := ggql.NewRoot(newRootObj())
	sdl := "input ZqIn { a: Int b: Int = 2 }\ninput ZqOuter { in: ZqIn, ins: [ZqIn] }\ndirective @zqd(p: ZqIn = {a: 1}, l: [ZqIn] = [{a: 3}], o: ZqOuter = {in: {a: 4}, ins: [{a: 6}]}) on FIELD | OBJECT\ntype Query @zqd(p: {a: 5}, o: {in: {a: 7}}) { f: Int }\n"
	if err := root.ParseString(sdl); err != nil {
		return []hx.Discrepancy{{Kind: "setup", Detail: "probe schema refused: " + err.Error()}}
	}
	if err := root.RegisterType(&zqProbeIn{}, "ZqIn"); err != nil {
		return []hx.Discrepancy{{Kind: "setup", Detail: "probe RegisterType refused: " + err.Error()}}
	}
	ask := func() string {
		defer func() { _ = recover() }()
		return hx.Show(hx.Norm(root.ResolveString(`{__schema{directives{name args{name defaultValue}}}}`, "", nil)))
	}
	before := ask()
	if err := root.ParseString("type ZqLater { a: Int }\n"); err != nil {
		return []hx.Discrepancy{{Kind: "setup", Detail: "probe second load refused: " + err.Error()}}
	}
	after := ask()
	if after != before || strings.Contains(after, "&{") {
		ds = append(ds, hx.Discrepancy{Kind: "default-value-of-go-bound-input", Detail: fmt.Sprintf("with the input type ZqIn bound to a Go struct, the default values of @zqd's arguments are described differently after a further (unrelated) load:\n  before: %s\n  after:  %s\nschema:\n%s", before, after, sdl)})
	}
	if p := root.SDL(false); strings.Contains(p, "&{") {
		ds = append(ds, hx.Discrepancy{Kind: "default-value-of-go-bound-input", Detail: "the printed schema shows a Go value:\n" + p})
	}
	return
}
