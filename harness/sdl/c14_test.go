package sdl

import (
	"errors"
	"fmt"
	"io"
	"strings"
	"testing"
	"testing/fstest"

	"github.com/uhn/ggql/pkg/ggql"
	"pgregory.net/rapid"

	"verifharness/hx"
)

// faultReader delivers the text up to an offset and then fails.
type faultReader struct {
	data []byte
	pos  int
	at   int
	mode int // 0: error at offset, 1: short reads then error, 2: data together with the error
}

var errReader = errors.New("injected reader failure")

func (r *faultReader) Read(p []byte) (int, error) {
	if r.pos >= r.at {
		return 0, errReader
	}
	n := len(p)
	if r.mode == 1 && n > 1 {
		n = 1
	}
	if r.pos+n > r.at {
		n = r.at - r.pos
	}
	if r.pos+n > len(r.data) {
		n = len(r.data) - r.pos
	}
	if n <= 0 {
		return 0, io.EOF
	}
	copy(p, r.data[r.pos:r.pos+n])
	r.pos += n
	if r.mode == 2 && r.pos >= r.at {
		return n, errReader
	}
	return n, nil
}

// c14Step is one step of a load history.
type c14Step struct {
	Kind    string `json:"kind"` // load | fail | addtypes-fail
	Text    string `json:"text,omitempty"`
	Class   string `json:"class,omitempty"`
	FaultAt int    `json:"fault_at,omitempty"` // reader fault offset (class reader-fault)
	Mode    int    `json:"mode,omitempty"`
	Dup     string `json:"dup,omitempty"` // addtypes-fail: name of an existing type added again
	// Second (parsefs-fail): Text and Second are two files read by one ParseFS call with a pattern
	// each; Second holds what makes the call fail
	Second string `json:"second,omitempty"`
}

type c14Case struct {
	Steps []c14Step `json:"steps"`
	// Quiet: nothing is asked of the root between the loads (a request or a print may itself repair
	// or refresh what a failed load left behind): the root is looked at once, after the last step,
	// next to a root that only ever saw the successful documents
	Quiet bool `json:"quiet,omitempty"`
}

type snapshot struct {
	sdl     string
	answers []string
}

var c14Requests = []string{introspectionQuery, introspectionQueryNoDep, "{__typename}", "mutation {__typename}", `{__type(name: "T0") {name kind fields(includeDeprecated: true) {name}}}`, "{a b}"}

func snap(root *ggql.Root) (s snapshot, pan interface{}) {
	defer func() {
		if r := recover(); r != nil {
			pan = r
		}
	}()
	s.sdl = root.SDL(true, true)
	for _, q := range c14Requests {
		res := root.ResolveString(q, "", nil)
		s.answers = append(s.answers, hx.Show(hx.Norm(res)))
	}
	// what a request's directive arguments look like once the request is read (they are coerced
	// against the directive's definition then: defaults filled in, the time a time)
	if exe, err := root.ParseExecutableString(c14ObsRequest); err != nil {
		s.answers = append(s.answers, "error: "+err.Error())
	} else {
		s.answers = append(s.answers, exe.String())
	}
	return
}

// c14ObsSDL joins the first document of every history; c14ObsRequest uses what it defines.
const c14ObsSDL = "directive @zqobs(in: ZqObsIn, at: Time, n: Float) on FIELD\ninput ZqObsIn { size: Int offset: Int = 0 tags: [String] = [\"t\"] }\n"
const c14ObsRequest = `{__typename @zqobs(in: {size: 5}, at: "2020-01-02T03:04:05+02:00", n: 2)}`

func (a snapshot) diff(b snapshot) string {
	if a.sdl != b.sdl {
		return "printed schema differs: " + firstDiff(a.sdl, b.sdl)
	}
	for i := range a.answers {
		if a.answers[i] != b.answers[i] {
			q := c14ObsRequest + " (as read by ParseExecutableString)"
			if i < len(c14Requests) {
				q = c14Requests[i]
			}
			return fmt.Sprintf("response to %q differs:\n  before: %s\n  after:  %s", hx.Trunc(q, 90), hx.Trunc(a.answers[i], 1200), hx.Trunc(b.answers[i], 1200))
		}
	}
	return ""
}

func doLoad(root *ggql.Root, st c14Step) (err error, pan interface{}) {
	defer func() {
		if r := recover(); r != nil {
			pan = r
		}
	}()
	switch st.Kind {
	case "parsefs-fail":
		fsys := fstest.MapFS{"a-first.graphql": {Data: []byte(st.Text)}, "b-second.graphql": {Data: []byte(st.Second)}, "c.txt": {Data: []byte("type")}}
		err = root.ParseFS(fsys, "a-*.graphql", "b-*.graphql")
	case "addtypes-fail":
		switch st.Mode {
		case 1:
			// fails in validation only (an object without fields), with a directive, a scalar and an
			// input among the types that came with it
			dir := &ggql.Directive{Base: ggql.Base{N: "zqApiDir"}, On: []ggql.Location{ggql.LocObject, ggql.LocFieldDefinition}}
			_ = dir.AddArg(&ggql.Arg{Base: ggql.Base{N: "p"}, Type: &ggql.Ref{Base: ggql.Base{N: "Int"}}, Default: int32(3)})
			in := &ggql.Input{Base: ggql.Base{N: "ZqApiIn"}}
			_ = in.AddField(&ggql.InputField{Base: ggql.Base{N: "a"}, Type: &ggql.Ref{Base: ggql.Base{N: "Int"}}})
			err = root.AddTypes(dir, in, &ggql.Enum{Base: ggql.Base{N: "ZqFreshEnum"}}, &ggql.Object{Base: ggql.Base{N: "ZqEmptyObject"}})
		case 2:
			// an undefined reference among otherwise fine types and a directive
			dir := &ggql.Directive{Base: ggql.Base{N: "zqApiDir"}, On: []ggql.Location{ggql.LocEnum}}
			o := &ggql.Object{Base: ggql.Base{N: "ZqApiObject"}}
			_ = o.AddField(&ggql.FieldDef{Base: ggql.Base{N: "a"}, Type: &ggql.Ref{Base: ggql.Base{N: "ZqNope"}}})
			err = root.AddTypes(dir, o)
		default:
			err = root.AddTypes(&ggql.Object{Base: ggql.Base{N: st.Dup}}, &ggql.Enum{Base: ggql.Base{N: "ZqFreshEnum"}})
		}
	default:
		if st.Class == "reader-fault" {
			err = root.ParseReader(&faultReader{data: []byte(st.Text), at: st.FaultAt, mode: st.Mode})
		} else {
			err = root.ParseString(st.Text)
		}
	}
	return
}

// checkC14 replays a history against the real root and a model (a fresh root that only sees the
// successful loads).
func checkC14(c *c14Case) (ds []hx.Discrepancy, info map[string]bool) {
	info = map[string]bool{}
	add := func(kind, sig, format string, args ...interface{}) {
		ds = append(ds, hx.Discrepancy{Kind: kind, Sig: sig, Detail: fmt.Sprintf(format, args...)})
	}
	ggql.Sort = true
	ggql.Relaxed = false
	root := ggql.NewRoot(newRootObj())
	var good []string
	history := func(upto int) string {
		var b strings.Builder
		for i := 0; i <= upto && i < len(c.Steps); i++ {
			st := c.Steps[i]
			fmt.Fprintf(&b, "--- step %d: %s %s", i, st.Kind, st.Class)
			if st.Class == "reader-fault" {
				fmt.Fprintf(&b, " (reader fails at byte %d, mode %d)", st.FaultAt, st.Mode)
			}
			if st.Dup != "" {
				fmt.Fprintf(&b, " AddTypes(%s)", st.Dup)
			}
			b.WriteString("\n" + st.Text + "\n")
		}
		return b.String()
	}
	for i, st := range c.Steps {
		var before snapshot
		var pan interface{}
		if !c.Quiet {
			before, pan = snap(root)
		}
		if pan != nil {
			add("panic", "", "observing the root panicked before step %d: %v\n%s", i, pan, history(i))
			return
		}
		err, pan := doLoad(root, st)
		if pan != nil {
			add("panic", "", "step %d panicked: %v\n%s", i, pan, history(i))
			return
		}
		switch st.Kind {
		case "load":
			if err != nil {
				add("valid-load-rejected", "", "step %d: a valid document is rejected (%v) - after %d failed loads in the history\n%s", i, err, countFails(c.Steps[:i]), history(i))
				return
			}
			good = append(good, st.Text)
			info["successful-load"] = true
		default:
			if err == nil {
				// the injected failure did not fail (e.g. a reader fault placed inside trailing white
				// space): the history is not the one intended - stop here, nothing to compare
				// ... unless a root that only ever saw the successful documents refuses it: the verdict
				// on a document must not depend on what earlier, refused, loads left behind
				if st.Kind == "fail" && st.Class != "reader-fault" {
					twin := ggql.NewRoot(newRootObj())
					ok := true
					for _, txt := range good {
						ok = ok && twin.ParseString(txt) == nil
					}
					if terr := twin.ParseString(st.Text); ok && terr != nil && countFails(c.Steps[:i]) > 0 {
						add("verdict-depends-on-refused-loads", "", "step %d: the document is accepted by the root (which has seen %d refused loads) and refused by a fresh root given the same %d successful documents: %v\n%s", i, countFails(c.Steps[:i]), len(good), terr, history(i))
						return
					}
				}
				info["injected-failure-did-not-fail(case abandoned)"] = true
				return
			}
			info["failing-load"] = true
			info["fail-class="+st.Class] = true
			if c.Quiet {
				info["root-not-looked-at-between-loads"] = true
				continue
			}
			after, pan := snap(root)
			if pan != nil {
				add("panic", "", "observing the root panicked after failing step %d: %v\n%s", i, pan, history(i))
				return
			}
			if d := before.diff(after); d != "" {
				add("failed-load-changed-root", "", "step %d (%s %s) returned %v but the root changed: %s\n%s", i, st.Kind, st.Class, err, d, history(i))
				return
			}
		}
	}
	// at the end: same as a fresh root that loaded only the successful documents
	model := ggql.NewRoot(newRootObj())
	for _, txt := range good {
		if err := model.ParseString(txt); err != nil {
			add("setup", "", "model rejects a successful document: %v", err)
			return
		}
	}
	a, p1 := snap(root)
	b, p2 := snap(model)
	if p1 != nil || p2 != nil {
		add("panic", "", "observing panicked at the end: %v %v", p1, p2)
		return
	}
	if d := b.diff(a); d != "" {
		add("history-dependent", "", "after the history the root differs from a fresh root that loaded only the %d successful documents: %s\n%s", len(good), d, history(len(c.Steps)))
	}
	return
}

func countFails(steps []c14Step) int {
	n := 0
	for _, s := range steps {
		if s.Kind != "load" {
			n++
		}
	}
	return n
}

var failClasses = []string{"syntax", "undefined-reference", "duplicate-type", "duplicate-member-by-extend", "extend-missing-target", "extend-kind-mismatch", "validation-rule", "validation-rule", "validation-rule-on-existing", "schema-extension-only-error", "schema-block-then-failure", "reader-fault", "second-extension-fails", "extension-fails-midway", "membership-rolled-back"}

// touchContent writes valid content that modifies existing definitions (extends, schema block).
func touchContent(t *rapid.T, s *hx.Schema, n int, label string) string {
	var b strings.Builder
	// the extensions may bring a directive use along (the directive is defined by the same document)
	usesDir := false
	dir := func(name string) string {
		if rapid.IntRange(0, 2).Draw(t, label+name+"dir") != 0 {
			return ""
		}
		usesDir = true
		return fmt.Sprintf(" @zqtd%d", n)
	}
	if rapid.IntRange(0, 5).Draw(t, label+"builtinScalar") == 0 {
		usesDir = true
		fmt.Fprintf(&b, "extend scalar String @zqtd%d\n", n)
	}
	for _, td := range s.Types {
		if rapid.IntRange(0, 2).Draw(t, label+td.Name) != 0 {
			continue
		}
		switch td.Kind {
		case hx.KObject, hx.KInterface:
			kw := "type"
			if td.Kind == hx.KInterface {
				continue // adding a field to an interface invalidates its implementers
			}
			// (members with defaults: validation coerces values against the extended definition, and
			// coercing an input object fills defaults in)
			arg := []string{"", "(a: Int = 3)", "(a: [Int] = [1, 2], b: String)"}[rapid.IntRange(0, 2).Draw(t, label+td.Name+"arg")]
			fmt.Fprintf(&b, "extend %s %s%s { zq%d%s: Int }\n", kw, td.Name, dir(td.Name), n, arg)
		case hx.KEnum:
			fmt.Fprintf(&b, "extend enum %s%s { ZQ%d }\n", td.Name, dir(td.Name), n)
		case hx.KInput:
			dflt := []string{"", " = 5", " = 5", " = null"}[rapid.IntRange(0, 3).Draw(t, label+td.Name+"dflt")]
			fmt.Fprintf(&b, "extend input %s%s { zq%d: Int%s }\n", td.Name, dir(td.Name), n, dflt)
		case hx.KUnion:
			fmt.Fprintf(&b, "type ZqM%d { a: Int }\nextend union %s%s = ZqM%d\n", n, td.Name, dir(td.Name), n)
		case hx.KScalar:
			// a scalar may be declared again (files tend to declare the scalars they use): the first
			// declaration stays as it is
			if rapid.Bool().Draw(t, label+td.Name+"again") {
				fmt.Fprintf(&b, "\"declared again in load %d\"\nscalar %s\n", n, td.Name)
			} else {
				usesDir = true
				fmt.Fprintf(&b, "extend scalar %s @zqtd%d\n", td.Name, n)
			}
		}
	}
	if usesDir {
		b.WriteString(fmt.Sprintf("directive @zqtd%d(w: Int = 2) on OBJECT | ENUM | INPUT_OBJECT | UNION | SCALAR\n", n))
	}
	return b.String()
}

func genCaseC14(t *rapid.T) *c14Case {
	s := GenFull(t, Opts{Descs: true, Directives: true, Deprecated: true})
	o := hx.SDLOpts{}
	arr := Arrange(t, s, o, "arr", true, 4)
	docs := arr.Texts()
	docs[0] += c14ObsSDL
	c := &c14Case{Quiet: rapid.IntRange(0, 2).Draw(t, "quiet") == 0}
	next := 0
	n := 0
	existing := func() []string { // names of types defined by documents loaded so far
		var out []string
		for i := 0; i < next && i < len(arr.Docs); i++ {
			for _, p := range arr.Docs[i] {
				if p.Defines != "" && !strings.HasPrefix(p.Defines, "@") && p.Defines != "schema" {
					out = append(out, p.Defines)
				}
			}
		}
		return out
	}
	loadedModel := func() *hx.Schema { // definitions (by name) available so far
		have := map[string]bool{}
		for _, nme := range existing() {
			have[nme] = true
		}
		m := &hx.Schema{}
		for _, td := range s.Types {
			if have[td.Name] {
				m.Types = append(m.Types, td)
			}
		}
		return m
	}
	steps := rapid.IntRange(len(docs), len(docs)+6).Draw(t, "nSteps")
	for len(c.Steps) < steps || next < len(docs) {
		wantFail := next > 0 && rapid.IntRange(0, 2).Draw(t, fmt.Sprintf("fail%d", len(c.Steps))) != 0 && len(c.Steps) < steps+8
		if !wantFail {
			if next >= len(docs) {
				break
			}
			c.Steps = append(c.Steps, c14Step{Kind: "load", Text: docs[next]})
			next++
			continue
		}
		n++
		lab := fmt.Sprintf("f%d", n)
		class := rapid.SampledFrom(failClasses).Draw(t, lab+"class")
		if len(existing()) == 0 && (class == "duplicate-type" || class == "extend-kind-mismatch" || class == "schema-block-then-failure") {
			class = "undefined-reference"
		}
		// valid content first: the next valid document (if any) and / or synthetic extensions of existing definitions
		var valid string
		if next < len(docs) && rapid.Bool().Draw(t, lab+"useNext") {
			valid = docs[next]
		}
		valid += touchContent(t, loadedModel(), n, lab+"touch")
		if s.Roots == nil && s.Type("Mutation") == nil && next > 0 && rapid.IntRange(0, 2).Draw(t, lab+"extSchema") == 0 {
			// an extension of the implicit schema (it would give the root a mutation type)
			valid += fmt.Sprintf("type ZqMut%d { a: Int }\nextend schema { mutation: ZqMut%d }\n", n, n)
		}
		ex := existing()
		some := "Query"
		if len(ex) > 0 {
			some = rapid.SampledFrom(ex).Draw(t, lab+"some")
		}
		var bad string
		st := c14Step{Kind: "fail", Class: class}
		switch class {
		case "syntax":
			bad = rapid.SampledFrom([]string{"type Zq {", "type { a: Int }", "\"unterminated", "type Zq { a: }", "union Zu = |", "}", "type Zq { a(: Int): Int }"}).Draw(t, lab+"syn")
		case "undefined-reference":
			bad = fmt.Sprintf("type Zq%d { q: Nope%d }", n, n)
		case "duplicate-type":
			bad = fmt.Sprintf("type %s { again: Int }", some)
		case "duplicate-member-by-extend":
			bad = fmt.Sprintf("type ZqD%d { a: Int }\nextend type ZqD%d { a: String }", n, n)
		case "extend-missing-target":
			bad = fmt.Sprintf("extend type Missing%d { a: Int }", n)
		case "extend-kind-mismatch":
			bad = fmt.Sprintf("extend enum %s { X }\nextend type %s { x: Int }\nextend input %s { x: Int }", some, some, some)
		case "validation-rule":
			bad = rapid.SampledFrom([]string{"type ZqE%d {}", "union ZqU%d = Int", "type __Zq%d { a: Int }", "enum ZqEn%d { true }", "type ZqI%d implements Nope { a: Int }", "input ZqIn%d { a: Query }"}).Draw(t, lab+"val")
			if strings.Contains(bad, "%d") {
				bad = fmt.Sprintf(bad, n)
			}
		case "validation-rule-on-existing":
			// a rule of the final pass (the one that also coerces every directive argument and default
			// of the whole schema against the extended definitions) broken with the help of an
			// existing definition
			bad = rapid.SampledFrom([]string{"type ZqX%d { x: %s }\ninput ZqY%d { y: %s }", "union ZqU%d = %s | Int", "type ZqI%d implements %s { zz: Int }", "directive @zqd%d(a: %s) on OBJECT\ntype ZqE%d {}"}).Draw(t, lab+"val")
			if strings.Count(bad, "%") == 4 {
				bad = fmt.Sprintf(bad, n, some, n, some)
			} else if strings.Count(bad, "%") == 3 {
				bad = fmt.Sprintf(bad, n, some, n)
			} else {
				bad = fmt.Sprintf(bad, n, some)
			}
			// (whatever kind the existing definition has, one of the two positions is illegal for it -
			// or, for a scalar or enum, the object is refused for implementing / the union for its members)
			if k := s.KindOf(some); (k == hx.KScalar || k == hx.KEnum) && strings.Contains(bad, "ZqX") {
				bad = fmt.Sprintf("type ZqE%d {}", n)
			}
		case "schema-extension-only-error":
			// nothing is wrong with the document except what its extension of the (implied or written)
			// schema says: a root that is no object type, an operation nobody knows, a directive that
			// does not belong there
			bad = rapid.SampledFrom([]string{"extend schema { zqop: %s }", "input ZqNo%d { a: Int }\nextend schema { subscription: ZqNo%d }", "extend schema @include(if: true) { query: %s }", "enum ZqNe%d { A }\nextend schema { mutation: ZqNe%d }"}).Draw(t, lab+"val")
			if strings.Contains(bad, "%s") {
				bad = fmt.Sprintf(bad, some)
			} else {
				bad = fmt.Sprintf(bad, n, n)
			}
		case "schema-block-then-failure":
			// a complete schema block, and further down what makes the document fail: an undefined
			// reference, or text that does not even parse (the reader has seen the block by then)
			valid = fmt.Sprintf("schema { query: %s }\n", some) + valid
			bad = rapid.SampledFrom([]string{fmt.Sprintf("type Zq%d { q: Nope%d }", n, n), fmt.Sprintf("type Zq%d {", n), "type Zq { a: }", "\"unterminated"}).Draw(t, lab+"sbf")
		case "second-extension-fails":
			// a first extension applies, a later one in the same document fails
			valid += fmt.Sprintf("type ZqS%d { a: Int }\nextend type ZqS%d { b: Int }\n", n, n)
			bad = fmt.Sprintf("extend type ZqS%d { b: Int }", n)
		case "extension-fails-midway":
			// one extension that lists a new member before a member the type already has: it fails
			// when it is half applied
			bad = fmt.Sprintf("type Zq%d { q: Nope%d }", n, n)
			if td := s.Type(some); td != nil {
				switch {
				case td.Kind == hx.KObject && len(td.Fields) > 0:
					bad = fmt.Sprintf("extend type %s { zqMid%d: Int %s: Int }", some, n, td.Fields[0].Name)
				case td.Kind == hx.KInterface && len(td.Fields) > 0:
					bad = fmt.Sprintf("extend interface %s { zqMid%d: Int %s: Int }", some, n, td.Fields[0].Name)
				case td.Kind == hx.KEnum && len(td.Values) > 0:
					bad = fmt.Sprintf("extend enum %s { ZQMID%d %s }", some, n, td.Values[0].Name)
				case td.Kind == hx.KInput && len(td.Inputs) > 0:
					bad = fmt.Sprintf("extend input %s { zqMid%d: Int %s: Int }", some, n, td.Inputs[0].Name)
				case td.Kind == hx.KUnion && len(td.Members) > 0:
					bad = fmt.Sprintf("type ZqMidT%d { a: Int }\nextend union %s = ZqMidT%d | %s", n, some, n, td.Members[0])
				}
			}
		case "membership-rolled-back":
			// a refused document would have made an existing object a member of a union (or an
			// implementer of an interface); the NEXT document is well-formed only if it had: it has
			// to be refused too
			bad = fmt.Sprintf("type Zq%d { q: Nope%d }", n, n)
			lm := loadedModel()
			var pair [2]string
			relies := ""
			for _, u := range lm.Types {
				for _, o := range lm.Types {
					if o.Kind != hx.KObject || pair[0] != "" {
						continue
					}
					switch {
					case u.Kind == hx.KUnion && !u.HasMember(o.Name):
						pair = [2]string{u.Name, o.Name}
						bad = fmt.Sprintf("extend union %s = %s\ninterface ZqRbI%d { b: Int }\ntype ZqRbT%d implements ZqRbI%d { a: Int }", u.Name, o.Name, n, n, n)
						relies = fmt.Sprintf("interface ZqOwn%d { pet: %s }\ntype ZqKen%d implements ZqOwn%d { pet: %s }\n", n, u.Name, n, n, o.Name)
					case u.Kind == hx.KInterface && len(u.Fields) > 0 && len(u.Fields[0].Args) == 0:
						implements := false
						for _, in := range o.Interfaces {
							implements = implements || in == u.Name
						}
						complete := true
						for _, f := range u.Fields {
							complete = complete && o.Field(f.Name) != nil
						}
						if !implements && !complete {
							var missing []string
							for _, f := range u.Fields {
								if o.Field(f.Name) == nil && len(f.Args) == 0 {
									missing = append(missing, f.Name+": "+f.Type.String())
								}
							}
							pair = [2]string{u.Name, o.Name}
							bad = fmt.Sprintf("extend type %s implements %s { %s }\ninterface ZqRbI%d { b: Int }\ntype ZqRbT%d implements ZqRbI%d { a: Int }", o.Name, u.Name, strings.Join(missing, " "), n, n, n)
							relies = fmt.Sprintf("interface ZqOwn%d { pet: %s }\ntype ZqKen%d implements ZqOwn%d { pet: %s }\n", n, u.Name, n, n, o.Name)
						}
					}
				}
			}
			if relies != "" {
				st.Text = bad + "\n"
				c.Steps = append(c.Steps, st, c14Step{Kind: "fail", Class: "relies-on-rolled-back-membership", Text: relies})
				continue
			}
		case "reader-fault":
			bad = ""
		}
		pos := rapid.IntRange(0, 2).Draw(t, lab+"pos")
		switch {
		case class == "reader-fault":
			st.Text = valid + fmt.Sprintf("type ZqR%d { a: Int }\n", n)
			st.FaultAt = rapid.IntRange(0, len(st.Text)-1).Draw(t, lab+"at")
			st.Mode = rapid.IntRange(0, 2).Draw(t, lab+"mode")
		case pos == 0 && class != "schema-block-then-failure":
			st.Text = bad + "\n" + valid
		default:
			st.Text = valid + bad + "\n"
		}
		if class == "syntax" && pos == 0 {
			st.Text = valid + bad + "\n" // a syntax error first would stop the scan before anything is touched
		}
		if (class == "syntax" || class == "undefined-reference" || class == "validation-rule" || class == "duplicate-type") && valid != "" && rapid.IntRange(0, 2).Draw(t, lab+"asFiles") == 0 {
			// the valid part and the failing part as two files, read by one ParseFS call with a pattern each
			st.Kind, st.Text, st.Second = "parsefs-fail", valid, bad+"\n"
		}
		c.Steps = append(c.Steps, st)
		if len(ex) > 0 && rapid.IntRange(0, 5).Draw(t, lab+"addtypes") == 0 {
			am := rapid.IntRange(0, 2).Draw(t, lab+"addtypesMode")
			c.Steps = append(c.Steps, c14Step{Kind: "addtypes-fail", Class: []string{"addtypes-duplicate", "addtypes-validation-with-directive", "addtypes-undefined-reference-with-directive"}[am], Mode: am, Dup: rapid.SampledFrom(ex).Draw(t, lab+"dup")})
		}
	}
	return c
}

func TestC14(t *testing.T) {
	run := hx.NewRun("C14")
	defer run.Flush()
	classes := func(c *c14Case, info map[string]bool) (bool, []string) {
		var cl []string
		for k := range info {
			cl = append(cl, k)
		}
		touched := false
		for _, st := range c.Steps {
			if st.Kind == "fail" && (strings.Contains(st.Text, "extend ") || strings.Contains(st.Text, "schema {")) {
				touched = true
			}
		}
		if touched {
			cl = append(cl, "failing-load-touches-existing-definitions")
		}
		cl = append(cl, fmt.Sprintf("steps=%d", minInt(len(c.Steps), 12)))
		return info["failing-load"] && touched, cl
	}
	one := func(fatal func(string, ...interface{}), c *c14Case) {
		ds, info := checkC14(c)
		nt, cl := classes(c, info)
		run.Case(hx.Hash(c), nt, cl...)
		run.Sample(func() interface{} {
			var kinds []string
			for _, st := range c.Steps {
				kinds = append(kinds, st.Kind+":"+st.Class)
			}
			last := c.Steps[len(c.Steps)-1]
			return map[string]interface{}{"history": kinds, "a_step": hx.Trunc(last.Text, 600)}
		})
		real := run.Triage(ds)
		if hx.Replaying() != "" {
			for _, d := range ds {
				if d.Sig != "" {
					fmt.Printf("REPLAY-KNOWN sig=%s %s\n", d.Sig, hx.Trunc(d.Detail, 300))
				}
			}
		}
		if len(real) > 0 {
			fatal("C14 violated: %s", run.ReportFailure(c, real))
		}
	}
	if f := hx.Replaying(); f != "" {
		var c c14Case
		if err := hx.LoadCase(f, &c); err != nil {
			t.Fatalf("load %s: %v", f, err)
		}
		one(func(f string, a ...interface{}) { t.Fatalf("REPLAY-FAIL "+f, a...) }, &c)
		return
	}
	rapid.Check(t, func(rt *rapid.T) {
		one(rt.Fatalf, genCaseC14(rt))
	})
}

func minInt(a, b int) int {
	if a < b {
		return a
	}
	return b
}
