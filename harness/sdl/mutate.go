package sdl

import (
	"encoding/json"
	"fmt"

	"pgregory.net/rapid"

	"verifharness/hx"
)

// Mutation is one single-rule violation derived from a well-formed schema.
type Mutation struct {
	Kind     string   `json:"kind"`     // catalogue entry
	Rule     string   `json:"rule"`     // R1..R8
	Position string   `json:"position"` // where the violation sits (for class counters)
	Names    []string `json:"names"`    // any of these names identifies the offender
	Tail     string   `json:"tail"`     // raw SDL appended after the rendered model (some violations are easier to write than to model)
	Nested   bool     `json:"nested"`
	// Whole, when set, is the complete document (the generated model is not used): violations that
	// need a schema of a particular overall shape, e.g. one without any operation type
	Whole string `json:"whole,omitempty"`
}

func clone(s *hx.Schema) *hx.Schema {
	b, err := json.Marshal(s)
	if err != nil {
		panic(err)
	}
	var out hx.Schema
	if err := json.Unmarshal(b, &out); err != nil {
		panic(err)
	}
	return &out
}

// MutationKinds is the rule catalogue (one entry per way of breaking a rule).
var MutationKinds = []string{
	// R1 references defined
	"ref-field-type", "ref-arg-type", "ref-inputfield-type", "ref-dirarg-type", "ref-union-member", "ref-interface", "ref-directive-on-type", "ref-directive-on-field", "ref-directive-on-enumvalue", "ref-directive-with-modifier",
	// R2 names unique, well-formed, not reserved
	"dup-type", "dup-field", "dup-arg", "dup-enum-value", "dup-input-field", "dup-directive",
	"reserved-type", "reserved-field", "reserved-arg", "reserved-enum-value", "reserved-input-field", "dup-type-of-scalar", "reserved-directive", "reserved-field-on-extended-builtin", "reserved-arg-on-extended-builtin", "digit-type-name", "digit-field-name", "enum-value-keyword", "schema-unknown-operation",
	// R3 output / input positions
	"field-returns-input", "arg-takes-output", "inputfield-takes-output", "dirarg-takes-output", "schema-root-input-type",
	// R4 interface conformance
	"iface-missing-field", "iface-wrong-type", "iface-missing-arg", "iface-extra-required-arg", "iface-arg-type-mismatch", "iface-arg-nonnull-narrowed", "implements-non-interface",
	// R5 unions
	"union-member-not-object", "union-empty",
	// R6 non-empty composites
	"empty-object", "empty-interface", "empty-enum", "empty-input",
	// R7 directive uses
	"dir-wrong-location-type", "dir-wrong-location-enumvalue", "dir-wrong-location-field", "dir-wrong-location-arg", "dir-wrong-location-inputfield",
	"dir-unknown-arg-type", "dir-unknown-arg-field", "dir-uncoercible-arg-type", "dir-uncoercible-arg-field", "dir-uncoercible-arg-enumvalue", "dir-uncoercible-arg-null", "dir-uncoercible-arg-input-field", "dir-unknown-arg-noargs", "dir-wrong-location-dirarg-nodefault", "dir-unknown-arg-dirarg-nodefault",
	// R8 directive definition cycles
	"dir-cycle-self", "dir-cycle-two", "dir-cycle-lasso", "dir-cycle-self-inputfield-only", "dir-cycle-two-inputfield-only", "input-default-needs-itself", "input-default-needs-itself-by-extension", "ref-directive-named-like-type", "schema-ext-dir-no-roots", "iface-shared-field-second-unsatisfied",
}

func ruleOf(kind string) string {
	switch {
	case len(kind) > 4 && kind[:4] == "ref-":
		return "R1"
	case kind == "schema-unknown-operation":
		return "R2"
	case kind == "schema-root-input-type":
		return "R3"
	case kind[:3] == "dup" || kind[:3] == "res" || kind[:3] == "dig" || kind == "enum-value-keyword":
		return "R2"
	case kind == "field-returns-input" || kind == "arg-takes-output" || kind == "inputfield-takes-output" || kind == "dirarg-takes-output":
		return "R3"
	case kind[:5] == "iface" || kind == "implements-non-interface":
		return "R4"
	case kind[:5] == "union":
		return "R5"
	case kind[:5] == "empty":
		return "R6"
	case kind[:9] == "dir-cycle":
		return "R8"
	}
	return "R7"
}

// retarget replaces the innermost named type of a type expression.
func retarget(tr *hx.TRef, name string) {
	for tr.List != nil {
		tr = tr.List
	}
	tr.Name = name
}

func kindsOf(s *hx.Schema, kind string) []*hx.TypeDef {
	var out []*hx.TypeDef
	for _, td := range s.Types {
		if td.Kind == kind {
			out = append(out, td)
		}
	}
	return out
}

type fieldSite struct {
	owner *hx.TypeDef
	f     *hx.Field
}

func fieldSites(s *hx.Schema, kinds ...string) []fieldSite {
	var out []fieldSite
	for _, td := range s.Types {
		for _, k := range kinds {
			if td.Kind == k {
				for _, f := range td.Fields {
					out = append(out, fieldSite{td, f})
				}
			}
		}
	}
	return out
}

type argSite struct {
	owner *hx.TypeDef
	f     *hx.Field
	a     *hx.Arg
}

func argSites(s *hx.Schema) []argSite {
	var out []argSite
	for _, fs := range fieldSites(s, hx.KObject, hx.KInterface) {
		for _, a := range fs.f.Args {
			out = append(out, argSite{fs.owner, fs.f, a})
		}
	}
	return out
}

// notImplementing filters sites whose change could not be masked or confused by interface rules.
func plainObjectFields(s *hx.Schema) []fieldSite {
	var out []fieldSite
	for _, fs := range fieldSites(s, hx.KObject) {
		ifaceField := false
		for _, in := range fs.owner.Interfaces {
			if it := s.Type(in); it != nil && it.Field(fs.f.Name) != nil {
				ifaceField = true
			}
		}
		if !ifaceField {
			out = append(out, fs)
		}
	}
	return out
}

// a directive that is not allowed at loc (built-in @skip is FIELD/FRAGMENT_SPREAD/INLINE_FRAGMENT only)
func misplacedDir() hx.DirUse {
	return hx.DirUse{Name: "skip", Args: []hx.KV{{Key: "if", V: hx.Bool(true)}}}
}

// Mutate applies one catalogue entry to a copy of the schema. ok=false if the entry does not apply.
func Mutate(t *rapid.T, base *hx.Schema, kind string) (s *hx.Schema, m Mutation, ok bool) {
	s = clone(base)
	m = Mutation{Kind: kind, Rule: ruleOf(kind)}
	pick := func(n int, label string) int { return rapid.IntRange(0, n-1).Draw(t, label) }
	deepen := func(tr *hx.TRef) {
		// push the offending name under extra wrappers: [[X!]]
		if rapid.Bool().Draw(t, "deepen") {
			inner := *tr
			*tr = *hx.ListOf(hx.ListOf(&inner))
			m.Nested = true
		}
		if tr.Wrappers() > 0 {
			m.Nested = true
		}
	}
	objs := kindsOf(s, hx.KObject)
	switch kind {
	case "ref-field-type":
		fs := plainObjectFields(s)
		fs = append(fs, fieldSites(s, hx.KInterface)...)
		if len(fs) == 0 {
			return nil, m, false
		}
		f := fs[pick(len(fs), "site")]
		// an interface field's type change would also break implementers: still a violation naming Nope
		retarget(f.f.Type, "Nope")
		deepen(f.f.Type)
		m.Names, m.Position = []string{"Nope"}, "field"
	case "ref-arg-type":
		as := argSites(s)
		if len(as) == 0 {
			return nil, m, false
		}
		a := as[pick(len(as), "site")]
		retarget(a.a.Type, "Nope")
		deepen(a.a.Type)
		m.Names, m.Position = []string{"Nope"}, "argument"
	case "ref-inputfield-type":
		ins := kindsOf(s, hx.KInput)
		if len(ins) == 0 {
			return nil, m, false
		}
		td := ins[pick(len(ins), "site")]
		f := td.Inputs[pick(len(td.Inputs), "field")]
		retarget(f.Type, "Nope")
		f.Default = nil
		deepen(f.Type)
		m.Names, m.Position = []string{"Nope"}, "input-field"
	case "ref-dirarg-type":
		s.Dirs = append(s.Dirs, &hx.DirDef{Name: "mut", On: []string{"FIELD"}, Args: []*hx.Arg{{Name: "p", Type: hx.Named("Nope")}}})
		deepen(s.Dirs[len(s.Dirs)-1].Args[0].Type)
		m.Names, m.Position = []string{"Nope"}, "directive-argument"
	case "ref-union-member":
		us := kindsOf(s, hx.KUnion)
		if len(us) == 0 {
			return nil, m, false
		}
		u := us[pick(len(us), "site")]
		u.Members = append(u.Members, "Nope")
		m.Names, m.Position = []string{"Nope"}, "union"
	case "ref-interface":
		o := objs[pick(len(objs), "site")]
		o.Interfaces = append(o.Interfaces, "Nope")
		m.Names, m.Position = []string{"Nope"}, "implements"
	case "ref-directive-on-type":
		td := s.Types[pick(len(s.Types), "site")]
		td.Dirs = append(td.Dirs, hx.DirUse{Name: "nope"})
		m.Names, m.Position = []string{"nope"}, "type:"+td.Kind
	case "ref-directive-on-field":
		fs := fieldSites(s, hx.KObject, hx.KInterface)
		f := fs[pick(len(fs), "site")]
		f.f.Dirs = append(f.f.Dirs, hx.DirUse{Name: "nope"})
		m.Names, m.Position = []string{"nope"}, "field"
	case "ref-directive-with-modifier":
		// '@nope!' / '@[nope]': type modifiers on a directive name must not hide that it is undefined
		fs := fieldSites(s, hx.KObject, hx.KInterface)
		f := fs[pick(len(fs), "site")]
		name := []string{"nope!", "[nope]", "[nope!]!"}[pick(3, "modifier")]
		if len(f.f.Args) > 0 && pick(2, "onArg") == 0 {
			a := f.f.Args[pick(len(f.f.Args), "arg")]
			a.Dirs = append(a.Dirs, hx.DirUse{Name: name})
			m.Position = "argument"
		} else {
			f.f.Dirs = append(f.f.Dirs, hx.DirUse{Name: name})
			m.Position = "field"
		}
		m.Names = []string{"nope"}
	case "ref-directive-on-enumvalue":
		es := kindsOf(s, hx.KEnum)
		if len(es) == 0 {
			return nil, m, false
		}
		e := es[pick(len(es), "site")]
		v := e.Values[pick(len(e.Values), "val")]
		v.Dirs = append(v.Dirs, hx.DirUse{Name: "nope"})
		m.Names, m.Position = []string{"nope"}, "enum-value"
	case "dup-type":
		td := s.Types[pick(len(s.Types), "site")]
		if td.Kind == hx.KScalar {
			return nil, m, false // ggql documents that re-declaring a scalar is tolerated
		}
		cp := *td
		cp.Desc = ""
		s.Types = append(s.Types, &cp)
		m.Names, m.Position = []string{td.Name}, "type:"+td.Kind
	case "dup-field":
		fs := fieldSites(s, hx.KObject, hx.KInterface)
		f := fs[pick(len(fs), "site")]
		cp := *f.f
		f.owner.Fields = append(f.owner.Fields, &cp)
		m.Names, m.Position = []string{f.f.Name}, "field"
	case "dup-arg":
		as := argSites(s)
		if len(as) == 0 {
			return nil, m, false
		}
		a := as[pick(len(as), "site")]
		cp := *a.a
		a.f.Args = append(a.f.Args, &cp)
		m.Names, m.Position = []string{a.a.Name}, "argument"
	case "dup-enum-value":
		es := kindsOf(s, hx.KEnum)
		if len(es) == 0 {
			return nil, m, false
		}
		e := es[pick(len(es), "site")]
		cp := *e.Values[pick(len(e.Values), "val")]
		e.Values = append(e.Values, &cp)
		m.Names, m.Position = []string{cp.Name}, "enum-value"
	case "dup-input-field":
		ins := kindsOf(s, hx.KInput)
		if len(ins) == 0 {
			return nil, m, false
		}
		td := ins[pick(len(ins), "site")]
		cp := *td.Inputs[pick(len(td.Inputs), "field")]
		td.Inputs = append(td.Inputs, &cp)
		m.Names, m.Position = []string{cp.Name}, "input-field"
	case "dup-directive":
		if len(s.Dirs) == 0 {
			s.Dirs = append(s.Dirs, &hx.DirDef{Name: "twice", On: []string{"FIELD"}})
		}
		d := s.Dirs[pick(len(s.Dirs), "site")]
		cp := *d
		s.Dirs = append(s.Dirs, &cp)
		m.Names, m.Position = []string{d.Name}, "directive"
	case "reserved-type":
		k := rapid.SampledFrom([]string{hx.KObject, hx.KEnum, hx.KInput, hx.KInterface, hx.KScalar, hx.KUnion}).Draw(t, "kind")
		td := &hx.TypeDef{Kind: k, Name: "__Bad"}
		switch k {
		case hx.KObject, hx.KInterface:
			td.Fields = []*hx.Field{{Name: "a", Type: hx.Named("Int")}}
		case hx.KEnum:
			td.Values = []*hx.EnumValue{{Name: "A"}}
		case hx.KInput:
			td.Inputs = []*hx.Arg{{Name: "a", Type: hx.Named("Int")}}
		case hx.KUnion:
			td.Members = []string{objs[0].Name}
		}
		s.Types = append(s.Types, td)
		m.Names, m.Position = []string{"__Bad"}, "type:"+k
	case "reserved-field":
		fs := fieldSites(s, hx.KObject, hx.KInterface)
		f := fs[pick(len(fs), "site")]
		if f.owner.Kind == hx.KInterface {
			return nil, m, false
		}
		f.owner.Fields = append(f.owner.Fields, &hx.Field{Name: "__bad", Type: hx.Named("Int")})
		m.Names, m.Position = []string{"__bad"}, "field"
	case "reserved-arg":
		fs := plainObjectFields(s)
		if len(fs) == 0 {
			return nil, m, false
		}
		f := fs[pick(len(fs), "site")]
		f.f.Args = append(f.f.Args, &hx.Arg{Name: "__bad", Type: hx.Named("Int")})
		m.Names, m.Position = []string{"__bad"}, "argument"
	case "reserved-enum-value":
		es := kindsOf(s, hx.KEnum)
		if len(es) == 0 {
			return nil, m, false
		}
		e := es[pick(len(es), "site")]
		e.Values = append(e.Values, &hx.EnumValue{Name: "__BAD"})
		m.Names, m.Position = []string{"__BAD"}, "enum-value"
	case "reserved-input-field":
		ins := kindsOf(s, hx.KInput)
		if len(ins) == 0 {
			return nil, m, false
		}
		td := ins[pick(len(ins), "site")]
		td.Inputs = append(td.Inputs, &hx.Arg{Name: "__bad", Type: hx.Named("Int")})
		m.Names, m.Position = []string{"__bad"}, "input-field"
	case "reserved-directive":
		s.Dirs = append(s.Dirs, &hx.DirDef{Name: "__bad", On: []string{"FIELD"}})
		m.Names, m.Position = []string{"__bad"}, "directive"
	case "digit-type-name":
		s.Types = append(s.Types, &hx.TypeDef{Kind: hx.KObject, Name: "9bad", Fields: []*hx.Field{{Name: "a", Type: hx.Named("Int")}}})
		m.Names, m.Position = []string{"9bad"}, "type:object"
	case "digit-field-name":
		o := objs[pick(len(objs), "site")]
		o.Fields = append(o.Fields, &hx.Field{Name: "9bad", Type: hx.Named("Int")})
		m.Names, m.Position = []string{"9bad"}, "field"
	case "enum-value-keyword":
		es := kindsOf(s, hx.KEnum)
		if len(es) == 0 {
			return nil, m, false
		}
		e := es[pick(len(es), "site")]
		kw := rapid.SampledFrom([]string{"true", "false", "null"}).Draw(t, "kw")
		e.Values = append(e.Values, &hx.EnumValue{Name: kw})
		m.Names, m.Position = []string{kw, e.Name}, "enum-value"
	case "field-returns-input":
		ins := kindsOf(s, hx.KInput)
		fs := plainObjectFields(s)
		if len(ins) == 0 || len(fs) == 0 {
			return nil, m, false
		}
		f := fs[pick(len(fs), "site")]
		retarget(f.f.Type, ins[pick(len(ins), "in")].Name)
		deepen(f.f.Type)
		m.Names, m.Position = []string{f.f.Name, f.owner.Name}, "field"
	case "arg-takes-output":
		as := argSites(s)
		if len(as) == 0 {
			return nil, m, false
		}
		a := as[pick(len(as), "site")]
		outs := append(append(kindsOf(s, hx.KObject), kindsOf(s, hx.KInterface)...), kindsOf(s, hx.KUnion)...)
		retarget(a.a.Type, outs[pick(len(outs), "out")].Name)
		a.a.Default = nil
		deepen(a.a.Type)
		m.Names, m.Position = []string{a.a.Name, a.f.Name}, "argument"
	case "inputfield-takes-output":
		ins := kindsOf(s, hx.KInput)
		if len(ins) == 0 {
			return nil, m, false
		}
		td := ins[pick(len(ins), "site")]
		f := td.Inputs[pick(len(td.Inputs), "field")]
		outs := append(append(kindsOf(s, hx.KObject), kindsOf(s, hx.KInterface)...), kindsOf(s, hx.KUnion)...)
		retarget(f.Type, outs[pick(len(outs), "out")].Name)
		f.Default = nil
		deepen(f.Type)
		m.Names, m.Position = []string{f.Name, td.Name}, "input-field"
	case "dirarg-takes-output":
		outs := append(append(kindsOf(s, hx.KObject), kindsOf(s, hx.KInterface)...), kindsOf(s, hx.KUnion)...)
		d := &hx.DirDef{Name: "mut", On: []string{"FIELD"}, Args: []*hx.Arg{{Name: "p", Type: hx.Named(outs[pick(len(outs), "out")].Name)}}}
		deepen(d.Args[0].Type)
		s.Dirs = append(s.Dirs, d)
		m.Names, m.Position = []string{"mut", "p"}, "directive-argument"
	case "iface-missing-field", "iface-wrong-type", "iface-missing-arg", "iface-extra-required-arg", "iface-arg-type-mismatch", "iface-arg-nonnull-narrowed":
		type impl struct {
			o  *hx.TypeDef
			it *hx.TypeDef
			f  *hx.Field
		}
		var cands []impl
		for _, o := range objs {
			for _, in := range o.Interfaces {
				it := s.Type(in)
				for _, f := range it.Fields {
					// a field name shared by two implemented interfaces is skipped (keeps the expected offender unambiguous)
					shared := 0
					for _, in2 := range o.Interfaces {
						if s.Type(in2).Field(f.Name) != nil {
							shared++
						}
					}
					if shared == 1 {
						cands = append(cands, impl{o, it, f})
					}
				}
			}
		}
		if len(cands) == 0 {
			return nil, m, false
		}
		c := cands[pick(len(cands), "site")]
		of := c.o.Field(c.f.Name)
		switch kind {
		case "iface-missing-field":
			var keep []*hx.Field
			for _, f := range c.o.Fields {
				if f != of {
					keep = append(keep, f)
				}
			}
			if len(keep) == 0 {
				return nil, m, false
			}
			c.o.Fields = keep
		case "iface-wrong-type":
			other := "Boolean"
			if c.f.Type.BaseName() == "Boolean" {
				other = "Int"
			}
			retarget(of.Type, other)
			if !s.IsComposite(c.f.Type.BaseName()) && c.f.Type.BaseName() == other {
				return nil, m, false
			}
		case "iface-missing-arg":
			if len(c.f.Args) == 0 {
				return nil, m, false
			}
			drop := c.f.Args[pick(len(c.f.Args), "arg")].Name
			var keep []*hx.Arg
			for _, a := range of.Args {
				if a.Name != drop {
					keep = append(keep, a)
				}
			}
			of.Args = keep
		case "iface-extra-required-arg":
			of.Args = append(of.Args, &hx.Arg{Name: "req", Type: hx.Named("Int").NN()})
		case "iface-arg-type-mismatch":
			if len(c.f.Args) == 0 {
				return nil, m, false
			}
			an := c.f.Args[pick(len(c.f.Args), "arg")].Name
			oa := of.Arg(an)
			other := "Boolean"
			if oa.Type.BaseName() == "Boolean" {
				other = "Int"
			}
			retarget(oa.Type, other)
			oa.Default = nil
		case "iface-arg-nonnull-narrowed":
			// the implementer demands more of a shared argument than the interface does: a non-null
			// wrapper added at some level (arguments have to be declared with the same type)
			if len(c.f.Args) == 0 {
				return nil, m, false
			}
			an := c.f.Args[pick(len(c.f.Args), "arg")].Name
			oa := of.Arg(an)
			var levels []*hx.TRef
			for tr := oa.Type; tr != nil; tr = tr.List {
				if !tr.NonNull {
					levels = append(levels, tr)
				}
			}
			if len(levels) == 0 {
				return nil, m, false
			}
			levels[pick(len(levels), "level")].NonNull = true
		}
		m.Names, m.Position = []string{c.f.Name, c.o.Name, c.it.Name}, "interface-field"
	case "implements-non-interface":
		o := objs[pick(len(objs), "site")]
		others := append(kindsOf(s, hx.KEnum), kindsOf(s, hx.KInput)...)
		others = append(others, kindsOf(s, hx.KUnion)...)
		for _, o2 := range objs {
			if o2 != o {
				others = append(others, o2)
			}
		}
		if len(others) == 0 {
			return nil, m, false
		}
		x := others[pick(len(others), "other")]
		o.Interfaces = append(o.Interfaces, x.Name)
		m.Names, m.Position = []string{x.Name, o.Name}, "implements"
	case "union-member-not-object":
		us := kindsOf(s, hx.KUnion)
		if len(us) == 0 {
			return nil, m, false
		}
		u := us[pick(len(us), "site")]
		var others []string
		for _, td := range s.Types {
			if td.Kind != hx.KObject && td != u {
				others = append(others, td.Name)
			}
		}
		others = append(others, "Int", "String")
		x := others[pick(len(others), "other")]
		u.Members = append(u.Members, x)
		m.Names, m.Position = []string{x, u.Name}, "union"
	case "schema-root-input-type":
		// an operation root that is an input object, added to the (written or implied) schema by an extension
		ins := kindsOf(s, hx.KInput)
		op := ""
		for _, o := range []string{"subscription", "mutation"} {
			if s.RootType(o) == "" {
				op = o
			}
		}
		if len(ins) == 0 || op == "" {
			return nil, m, false
		}
		in := ins[pick(len(ins), "in")].Name
		m.Tail = "extend schema {\n  " + op + ": " + in + "\n}"
		m.Names, m.Position = []string{op, in}, "schema"
	case "schema-unknown-operation":
		m.Tail = "extend schema {\n  foo: " + s.RootType("query") + "\n}"
		m.Names, m.Position = []string{"foo"}, "schema"
	case "reserved-field-on-extended-builtin":
		// the rule holds for the members a document adds to one of ggql's own types, too
		m.Tail = "extend type " + []string{"__Type", "__Field", "__InputValue", "__EnumValue"}[pick(4, "builtin")] + " { __hidden: Int }"
		m.Names, m.Position = []string{"__hidden"}, "field"
	case "reserved-arg-on-extended-builtin":
		m.Tail = "extend type " + []string{"__Type", "__Field", "__InputValue"}[pick(3, "builtin")] + " { origin(__raw: Boolean): String }"
		m.Names, m.Position = []string{"__raw"}, "argument"
	case "dup-type-of-scalar":
		// a definition of another kind under the name of a scalar the schema has already
		name := []string{"Time", "ID", "Int64", "String"}[pick(4, "scalar")]
		for _, td := range s.Types {
			if td.Kind == hx.KScalar && pick(2, "custom"+td.Name) == 0 {
				name = td.Name
				break
			}
		}
		m.Tail = []string{"type %s { a: Int }", "input %s { a: Int }", "enum %s { A }", "interface %s { a: Int }"}[pick(4, "kind")]
		m.Tail = fmt.Sprintf(m.Tail, name)
		m.Names, m.Position = []string{name}, "type"
	case "dir-wrong-location-dirarg-nodefault":
		// a use on an argument of a directive definition that has no default value
		m.Tail = "directive @zqOnObj on OBJECT\ndirective @zqHost(a: Int @zqOnObj, b: Int = 1) on SCALAR"
		m.Names, m.Position = []string{"zqOnObj"}, "directive-argument"
	case "dir-unknown-arg-dirarg-nodefault":
		m.Tail = "directive @zqArgd(x: Int) on ARGUMENT_DEFINITION\ndirective @zqHost(a: [Int] @zqArgd(nope: 1)) on SCALAR"
		m.Names, m.Position = []string{"nope", "zqArgd"}, "directive-argument"
	case "union-empty":
		m.Tail = "union Uempty ="
		m.Names, m.Position = []string{"Uempty"}, "union"
	case "empty-object":
		m.Tail = "type Tempty {}"
		m.Names, m.Position = []string{"Tempty"}, "type:object"
	case "empty-interface":
		m.Tail = "interface Iempty {}"
		m.Names, m.Position = []string{"Iempty"}, "type:interface"
	case "empty-enum":
		m.Tail = "enum Eempty {}"
		m.Names, m.Position = []string{"Eempty"}, "type:enum"
	case "empty-input":
		m.Tail = "input InEmpty {}"
		m.Names, m.Position = []string{"InEmpty"}, "type:input"
	case "dir-wrong-location-type":
		td := s.Types[pick(len(s.Types), "site")]
		td.Dirs = append(td.Dirs, misplacedDir())
		m.Names, m.Position = []string{"skip", td.Name}, "type:"+td.Kind
	case "dir-wrong-location-enumvalue":
		es := kindsOf(s, hx.KEnum)
		if len(es) == 0 {
			return nil, m, false
		}
		e := es[pick(len(es), "site")]
		v := e.Values[pick(len(e.Values), "val")]
		v.Dirs = append(v.Dirs, misplacedDir())
		m.Names, m.Position = []string{"skip", v.Name, e.Name}, "enum-value"
	case "dir-wrong-location-field":
		fs := fieldSites(s, hx.KObject, hx.KInterface)
		f := fs[pick(len(fs), "site")]
		f.f.Dirs = append(f.f.Dirs, misplacedDir())
		m.Names, m.Position = []string{"skip", f.f.Name}, "field"
	case "dir-wrong-location-arg":
		as := argSites(s)
		if len(as) == 0 {
			return nil, m, false
		}
		a := as[pick(len(as), "site")]
		a.a.Dirs = append(a.a.Dirs, misplacedDir())
		m.Names, m.Position = []string{"skip", a.a.Name}, "argument"
	case "dir-wrong-location-inputfield":
		ins := kindsOf(s, hx.KInput)
		if len(ins) == 0 {
			return nil, m, false
		}
		td := ins[pick(len(ins), "site")]
		f := td.Inputs[pick(len(td.Inputs), "field")]
		f.Dirs = append(f.Dirs, misplacedDir())
		m.Names, m.Position = []string{"skip", f.Name}, "input-field"
	case "dir-unknown-arg-type", "dir-uncoercible-arg-type":
		s.Dirs = append(s.Dirs, &hx.DirDef{Name: "mut", On: []string{"OBJECT", "INTERFACE", "UNION", "ENUM", "INPUT_OBJECT", "SCALAR"}, Args: []*hx.Arg{{Name: "p", Type: hx.Named("Int")}}})
		td := s.Types[pick(len(s.Types), "site")]
		du := hx.DirUse{Name: "mut", Args: []hx.KV{{Key: "zzz", V: hx.I64(1)}}}
		if kind == "dir-uncoercible-arg-type" {
			du.Args = []hx.KV{{Key: "p", V: hx.Str("not a number")}}
		}
		td.Dirs = append(td.Dirs, du)
		m.Names, m.Position = []string{"mut", td.Name}, "type:"+td.Kind
	case "dir-uncoercible-arg-input-field":
		// the value of a directive argument is an input object that lacks a required member (the
		// member may well be declared in an extend block, in a load of its own)
		s.Types = append(s.Types, &hx.TypeDef{Kind: hx.KInput, Name: "MutIn", Inputs: []*hx.Arg{{Name: "a", Type: hx.Named("Int")}, {Name: "need", Type: hx.Named("Int").NN()}}})
		s.Dirs = append(s.Dirs, &hx.DirDef{Name: "mut", On: []string{"OBJECT", "INTERFACE", "UNION", "ENUM", "INPUT_OBJECT", "SCALAR"}, Args: []*hx.Arg{{Name: "o", Type: hx.Named("MutIn")}}})
		var sites []*hx.TypeDef
		for _, td := range s.Types {
			if td.Name != "MutIn" {
				sites = append(sites, td)
			}
		}
		td := sites[pick(len(sites), "site")]
		td.Dirs = append(td.Dirs, hx.DirUse{Name: "mut", Args: []hx.KV{{Key: "o", V: []hx.Val{hx.Map(), hx.Map(hx.KV{Key: "a", V: hx.I64(1)})}[pick(2, "value")]}}})
		m.Names, m.Position = []string{"mut", td.Name, "need", "MutIn"}, "type:"+td.Kind
	case "dir-unknown-arg-noargs":
		// a directive that declares no argument at all, applied with one
		s.Dirs = append(s.Dirs, &hx.DirDef{Name: "mut", On: []string{"OBJECT", "INTERFACE", "UNION", "ENUM", "INPUT_OBJECT", "SCALAR"}})
		td := s.Types[pick(len(s.Types), "site")]
		td.Dirs = append(td.Dirs, hx.DirUse{Name: "mut", Args: []hx.KV{{Key: "zzz", V: []hx.Val{hx.I64(1), hx.Nil(), hx.Str("x")}[pick(3, "value")]}}})
		m.Names, m.Position = []string{"mut", td.Name}, "type:"+td.Kind
	case "dir-uncoercible-arg-null":
		// null written for an argument declared non-null (alone, after or before a valid argument)
		ty := []string{"Int", "ID", "String", "Boolean", "Float"}[pick(5, "argType")]
		s.Dirs = append(s.Dirs, &hx.DirDef{Name: "mut", On: []string{"OBJECT", "INTERFACE", "UNION", "ENUM", "INPUT_OBJECT", "SCALAR"},
			Args: []*hx.Arg{{Name: "p", Type: hx.Named("Int")}, {Name: "q", Type: hx.Named(ty).NN()}}})
		td := s.Types[pick(len(s.Types), "site")]
		du := hx.DirUse{Name: "mut"}
		switch pick(3, "shape") {
		case 0:
			du.Args = []hx.KV{{Key: "q", V: hx.Nil()}}
		case 1:
			du.Args = []hx.KV{{Key: "p", V: hx.I64(1)}, {Key: "q", V: hx.Nil()}}
		case 2:
			du.Args = []hx.KV{{Key: "q", V: hx.Nil()}, {Key: "p", V: hx.Nil()}}
		}
		td.Dirs = append(td.Dirs, du)
		m.Names, m.Position = []string{"mut", td.Name}, "type:"+td.Kind
	case "dir-unknown-arg-field", "dir-uncoercible-arg-field":
		fs := fieldSites(s, hx.KObject, hx.KInterface)
		f := fs[pick(len(fs), "site")]
		du := hx.DirUse{Name: "deprecated", Args: []hx.KV{{Key: "zzz", V: hx.I64(1)}}}
		if kind == "dir-uncoercible-arg-field" {
			du.Args = []hx.KV{{Key: "reason", V: hx.I64(3)}}
		}
		// replace an existing @deprecated rather than adding a second one
		var keep []hx.DirUse
		for _, d := range f.f.Dirs {
			if d.Name != "deprecated" {
				keep = append(keep, d)
			}
		}
		f.f.Dirs = append(keep, du)
		m.Names, m.Position = []string{"deprecated", f.f.Name}, "field"
	case "dir-uncoercible-arg-enumvalue":
		es := kindsOf(s, hx.KEnum)
		if len(es) == 0 {
			return nil, m, false
		}
		e := es[pick(len(es), "site")]
		v := e.Values[pick(len(e.Values), "val")]
		var keep []hx.DirUse
		for _, d := range v.Dirs {
			if d.Name != "deprecated" {
				keep = append(keep, d)
			}
		}
		v.Dirs = append(keep, hx.DirUse{Name: "deprecated", Args: []hx.KV{{Key: "reason", V: hx.I64(3)}}})
		m.Names, m.Position = []string{"deprecated", v.Name, e.Name}, "enum-value"
	case "dir-cycle-self":
		m.Tail = "directive @loop(a: Int @loop) on INPUT_FIELD_DEFINITION | ARGUMENT_DEFINITION"
		m.Names, m.Position = []string{"loop"}, "directive"
	case "input-default-needs-itself":
		// a default that can only be filled in by filling itself in (directly, or through a second type)
		m.Tail = []string{"input ZqLoopA { x: Int a: ZqLoopA = {} }", "input ZqLoopA { b: ZqLoopB = {} }\ninput ZqLoopB { a: ZqLoopA = {} }"}[pick(2, "shape")]
		m.Names, m.Position = []string{"ZqLoopA", "ZqLoopB"}, "input"
	case "input-default-needs-itself-by-extension":
		// the member that closes the loop arrives in an extend block
		m.Tail = []string{"input ZqLoopA { x: Int }\nextend input ZqLoopA { a: ZqLoopA = {} }", "input ZqLoopA { x: Int }\ninput ZqLoopB { a: ZqLoopA = {} }\nextend input ZqLoopA { b: ZqLoopB = {} }"}[pick(2, "shape")]
		m.Names, m.Position = []string{"ZqLoopA", "ZqLoopB"}, "input"
	case "dir-cycle-self-inputfield-only":
		// (ggql takes the arguments of a directive definition for input field definitions: a cycle
		// needs no ARGUMENT_DEFINITION among its locations)
		m.Tail = "directive @loop(a: Int @loop) on INPUT_FIELD_DEFINITION"
		m.Names, m.Position = []string{"loop"}, "directive"
	case "dir-cycle-two-inputfield-only":
		m.Tail = "directive @ping(a: Int @pong) on INPUT_FIELD_DEFINITION | OBJECT\ndirective @pong(a: Int @ping) on INPUT_FIELD_DEFINITION"
		m.Names, m.Position = []string{"ping", "pong"}, "directive"
	case "dir-cycle-lasso":
		// a directive that is not on a cycle itself but leads into one
		m.Tail = "directive @lead(a: Int @ping) on INPUT_FIELD_DEFINITION | ARGUMENT_DEFINITION\ndirective @ping(a: Int @pong) on INPUT_FIELD_DEFINITION | ARGUMENT_DEFINITION\ndirective @pong(a: Int @ping, b: Int) on INPUT_FIELD_DEFINITION | ARGUMENT_DEFINITION"
		if pick(2, "lassoOrder") == 0 {
			m.Tail = "directive @pong(a: Int @ping, b: Int) on INPUT_FIELD_DEFINITION | ARGUMENT_DEFINITION\ndirective @ping(a: Int @pong) on INPUT_FIELD_DEFINITION | ARGUMENT_DEFINITION\ndirective @lead(a: Int @ping) on INPUT_FIELD_DEFINITION | ARGUMENT_DEFINITION"
		}
		m.Names, m.Position = []string{"ping", "pong", "lead"}, "directive"
	case "ref-directive-named-like-type":
		// the use names something that is defined - as a type, not as a directive
		var tn string
		for _, td := range s.Types {
			isDir := false
			for _, d := range s.Dirs {
				if d.Name == td.Name {
					isDir = true
				}
			}
			if !isDir {
				tn = td.Name
				break
			}
		}
		if tn == "" {
			return nil, m, false
		}
		fs := fieldSites(s, hx.KObject, hx.KInterface)
		switch pick(4, "where") {
		case 0:
			td := s.Types[pick(len(s.Types), "site")]
			td.Dirs = append(td.Dirs, hx.DirUse{Name: tn})
			m.Position = "type:" + td.Kind
		case 1:
			f := fs[pick(len(fs), "site")]
			f.f.Dirs = append(f.f.Dirs, hx.DirUse{Name: tn})
			m.Position = "field"
		case 2:
			as := argSites(s)
			if len(as) == 0 {
				return nil, m, false
			}
			a := as[pick(len(as), "site")]
			a.a.Dirs = append(a.a.Dirs, hx.DirUse{Name: tn})
			m.Position = "argument"
		default:
			ins := kindsOf(s, hx.KInput)
			if len(ins) == 0 {
				return nil, m, false
			}
			in := ins[pick(len(ins), "site")]
			f := in.Inputs[pick(len(in.Inputs), "field")]
			f.Dirs = append(f.Dirs, hx.DirUse{Name: tn})
			m.Position = "input-field"
		}
		m.Names = []string{tn}
	case "schema-ext-dir-no-roots":
		// no schema block and no operation type at all: the implied schema is empty, its extension
		// still has to follow the rules for directive uses
		switch pick(2, "variant") {
		case 0:
			m.Whole = "directive @zd(p: Int) on OBJECT\ntype ZT { a: Int }\nextend schema @zd {}\n"
		default:
			m.Whole = "type ZT { a: Int }\ndirective @zd(p: Int) on SCHEMA\nextend schema @zd(q: 1) {}\n"
		}
		m.Names, m.Position = []string{"zd", "q"}, "schema"
	case "iface-shared-field-second-unsatisfied":
		// two interfaces declare a field of the same name differently: satisfying the first listed is not enough
		second := []string{"interface ZB { zf: String }", "interface ZB { zf(x: Int): Int }", "interface ZB { zf: Int! }", "interface ZB { zf(x: Int!): Int }"}[pick(4, "variant")]
		obj := "type ZT implements ZA & ZB { zf: Int }"
		if pick(3, "viaExtend") == 0 {
			obj = "type ZT implements ZA { zf: Int }\nextend type ZT implements ZB { zz: Int }"
		}
		m.Tail = "interface ZA { zf: Int }\n" + second + "\n" + obj
		m.Names, m.Position = []string{"ZT", "zf", "ZB"}, "implements"
	case "dir-cycle-two":
		m.Tail = "directive @ping(a: Int @pong) on INPUT_FIELD_DEFINITION | ARGUMENT_DEFINITION\ndirective @pong(a: Int @ping) on INPUT_FIELD_DEFINITION | ARGUMENT_DEFINITION"
		m.Names, m.Position = []string{"ping", "pong"}, "directive"
	default:
		panic("unknown mutation kind " + kind)
	}
	return s, m, true
}

// Render prints a (possibly mutated) schema plus the mutation's raw tail.
func Render(s *hx.Schema, m *Mutation, o hx.SDLOpts) string {
	if m != nil && m.Whole != "" {
		return m.Whole
	}
	out := s.SDL(o)
	if m != nil && m.Tail != "" {
		out += m.Tail + "\n"
	}
	return out
}

func fmtMutation(m Mutation) string {
	return fmt.Sprintf("%s (%s at %s, offender one of %v)", m.Kind, m.Rule, m.Position, m.Names)
}

// LateForms writes a mutated definition set as two successive loads with the offending part arriving
// last: the raw tail as a document of its own, or the offending member moved into an extend block
// that is loaded after everything else. The full set is the same ill-formed set, so some load has to
// be refused.
func LateForms(ms *hx.Schema, m *Mutation, o hx.SDLOpts) (forms [][]string) {
	if m.Whole != "" {
		return nil
	}
	if m.Tail != "" {
		return [][]string{{ms.SDL(o), m.Tail + "\n"}}
	}
	for _, n1 := range m.Names {
		if ms.Type(n1) == nil || ms.Type(n1).Kind == hx.KScalar {
			continue
		}
		for _, n2 := range m.Names {
			if n2 == n1 {
				continue
			}
			s2 := clone(ms)
			td := s2.Type(n1)
			ext := &hx.TypeDef{Kind: td.Kind, Name: td.Name}
			switch td.Kind {
			case hx.KObject, hx.KInterface:
				at := -1
				for i, f := range td.Fields {
					if f.Name == n2 {
						at = i
					}
				}
				if at < 0 || len(td.Fields) < 2 {
					continue
				}
				ext.Fields = []*hx.Field{td.Fields[at]}
				td.Fields = append(td.Fields[:at:at], td.Fields[at+1:]...)
			case hx.KEnum:
				at := -1
				for i, v := range td.Values {
					if v.Name == n2 {
						at = i
					}
				}
				if at < 0 || len(td.Values) < 2 {
					continue
				}
				ext.Values = append(ext.Values, td.Values[at])
				td.Values = append(td.Values[:at:at], td.Values[at+1:]...)
			case hx.KInput:
				at := -1
				for i, f := range td.Inputs {
					if f.Name == n2 {
						at = i
					}
				}
				if at < 0 || len(td.Inputs) < 2 {
					continue
				}
				ext.Inputs = []*hx.Arg{td.Inputs[at]}
				td.Inputs = append(td.Inputs[:at:at], td.Inputs[at+1:]...)
			case hx.KUnion:
				at := -1
				for i, mem := range td.Members {
					if mem == n2 {
						at = i
					}
				}
				if at < 0 || len(td.Members) < 2 {
					continue
				}
				ext.Members = []string{td.Members[at]}
				td.Members = append(td.Members[:at:at], td.Members[at+1:]...)
			default:
				continue
			}
			forms = append(forms, []string{s2.SDL(o), hx.TypeSDL(ext, "extend ", o)})
		}
	}
	return
}
