package sdl

import (
	"github.com/uhn/ggql/pkg/ggql"

	"verifharness/hx"
)

// BuildAPI gives the root the schema of the model through ggql's Go API (see hx.BuildAPI).
func BuildAPI(root *ggql.Root, s *hx.Schema) (err error, usable bool) {
	return hx.BuildAPI(root, s, hx.BuildOpts{})
}

// ReaderNormalDesc: see hx.ReaderNormalDesc.
func ReaderNormalDesc(d string) string { return hx.ReaderNormalDesc(d) }
