package sdl

import (
	"fmt"
	"strings"
	"testing"

	"github.com/uhn/ggql/pkg/ggql"

	"pgregory.net/rapid"

	"verifharness/hx"
)

type c15Case struct {
	SDL   string   `json:"sdl,omitempty"`
	Files []string `json:"files,omitempty"` // tool-level case: schema files handed to ggqlgen
	// Model: the schema is given to the root through the Go API (BuildAPI) instead of as text; SDL
	// then holds its rendering for the report only
	Model *hx.Schema `json:"model,omitempty"`
}

// omitsDefaultedDirArg: some directive use of the model leaves out an argument for which the
// directive declares a default (@deprecated without a reason included).
func omitsDefaultedDirArg(s *hx.Schema) bool {
	omits := func(ds []hx.DirUse) bool {
		for _, du := range ds {
			var args []*hx.Arg
			if du.Name == "deprecated" {
				dflt := hx.Str("No longer supported")
				args = []*hx.Arg{{Name: "reason", Default: &dflt}}
			} else if d := s.Dir(du.Name); d != nil {
				args = d.Args
			}
			for _, a := range args {
				given := false
				for _, kv := range du.Args {
					if kv.Key == a.Name {
						given = true
					}
				}
				if !given && a.Default != nil {
					return true
				}
			}
		}
		return false
	}
	for _, d := range s.Dirs {
		for _, a := range d.Args {
			if omits(a.Dirs) {
				return true
			}
		}
	}
	for _, td := range s.Types {
		if omits(td.Dirs) {
			return true
		}
		for _, f := range td.Fields {
			if omits(f.Dirs) {
				return true
			}
			for _, a := range f.Args {
				if omits(a.Dirs) {
					return true
				}
			}
		}
		for _, f := range td.Inputs {
			if omits(f.Dirs) {
				return true
			}
		}
		for _, v := range td.Values {
			if omits(v.Dirs) {
				return true
			}
		}
	}
	return false
}

// loadModel builds a fresh root from the model through the Go API.
func loadModel(s *hx.Schema) (root *ggql.Root, err error, pan interface{}, usable bool) {
	ggql.Sort = true
	ggql.Relaxed = false
	root = ggql.NewRoot(newRootObj())
	defer func() {
		if r := recover(); r != nil {
			pan = r
		}
	}()
	err, usable = BuildAPI(root, s)
	return
}

func firstDiff(a, b string) string {
	la, lb := strings.Split(a, "\n"), strings.Split(b, "\n")
	for i := 0; i < len(la) || i < len(lb); i++ {
		var x, y string
		if i < len(la) {
			x = la[i]
		}
		if i < len(lb) {
			y = lb[i]
		}
		if x != y {
			return fmt.Sprintf("line %d:\n  - %s\n  + %s", i+1, x, y)
		}
	}
	return ""
}

func needsEscapeText(s string) bool {
	return strings.ContainsAny(s, "\"\\\n\r\t") || strings.Contains(s, `"""`)
}

func checkC15(c *c15Case) (ds []hx.Discrepancy, info map[string]bool) {
	info = map[string]bool{}
	add := func(kind, sig, format string, args ...interface{}) {
		ds = append(ds, hx.Discrepancy{Kind: kind, Sig: sig, Detail: fmt.Sprintf(format, args...)})
	}
	root, err, pan := (*ggql.Root)(nil), error(nil), interface{}(nil)
	if c.Model != nil {
		var usable bool
		root, err, pan, usable = loadModel(c.Model)
		if !usable {
			info["not-accepted"] = true
			return
		}
		info["schema-built-with-the-go-api"] = true
	} else {
		root, err, pan = loadFresh(c.SDL)
	}
	if pan != nil {
		add("panic", "", "loading the schema panicked: %v\n%s", pan, c.SDL)
		return
	}
	if err != nil {
		info["not-accepted"] = true // the property is about accepted schemas only
		return
	}
	o := DescribeOpts{FillDefaults: true}
	d0 := Describe(root, o)
	p1 := root.SDL(false, true)
	fresh, err, pan := loadFresh(p1)
	if pan != nil {
		add("panic", "", "loading the printed schema panicked: %v\n%s", pan, p1)
		return
	}
	if err != nil {
		add("printed-sdl-rejected", "", "the printed SDL is not accepted by a fresh root: %v\n--- original\n%s\n--- printed\n%s", err, c.SDL, p1)
		return
	}
	d1 := Describe(fresh, o)
	if d0 != d1 {
		add("printed-sdl-differs", "", "the printed SDL defines a different schema: %s\n--- original\n%s\n--- printed\n%s", firstDiff(d0, d1), c.SDL, p1)
	}
	p2 := fresh.SDL(false, true)
	if p2 != p1 {
		sig := ""
		if c.Model != nil && d0 == d1 && omitsDefaultedDirArg(c.Model) {
			// recorded finding: a use built without an argument that has a default prints without it,
			// the parser fills the default into the use it reads back. From the second print on the
			// text has to be stable.
			sig = "KF-C15-api-directive-use-defaults"
			third, err3, pan3 := loadFresh(p2)
			if pan3 != nil || err3 != nil {
				add("printed-sdl-rejected", "", "the second print is not accepted: %v %v\n%s", err3, pan3, p2)
			} else if p3 := third.SDL(false, true); p3 != p2 {
				add("print-not-stable", "", "printing is not stable from the second print on either: %s\n--- second print\n%s\n--- third print\n%s", firstDiff(p2, p3), p2, p3)
			}
		}
		add("print-not-stable", sig, "printing the re-parsed schema gives different text: %s\n--- first print\n%s\n--- second print\n%s", firstDiff(p1, p2), p1, p2)
	}
	// per type: what every type and directive prints for itself, put together, is the same schema
	// (an implied schema that was extended has no type object to print: left to the whole-root print)
	if sch := impliedSchema(root); sch == nil || (len(sch.Directives()) == 0 && !strings.Contains(p1, "\nschema")) {
		var parts []string
		for _, t := range root.Types() {
			if !t.Core() {
				parts = append(parts, t.SDL(true))
			}
		}
		for _, d := range rootDirectives(root) {
			if !d.Core() {
				parts = append(parts, d.SDL(true))
			}
		}
		pt := strings.Join(parts, "\n")
		info["printed-type-by-type"] = true
		if ft, errt, pant := loadFresh(pt); pant != nil || errt != nil {
			add("printed-sdl-rejected", "", "the SDL printed type by type is not accepted by a fresh root: %v %v\n--- original\n%s\n--- printed type by type\n%s", errt, pant, c.SDL, pt)
		} else if dt := Describe(ft, o); dt != d0 {
			add("printed-sdl-differs", "", "the SDL printed type by type defines a different schema: %s\n--- original\n%s\n--- printed type by type\n%s", firstDiff(d0, dt), c.SDL, pt)
		}
	}
	// without descriptions the same must hold for the structure
	q1 := root.SDL(false)
	fresh2, err, pan := loadFresh(q1)
	if pan != nil || err != nil {
		add("printed-sdl-rejected", "", "the SDL printed without descriptions is not accepted: %v %v\n%s", err, pan, q1)
	} else if q2 := fresh2.SDL(false); q2 != q1 {
		sig := ""
		if c.Model != nil && d0 == d1 && omitsDefaultedDirArg(c.Model) {
			sig = "KF-C15-api-directive-use-defaults"
			if third, err3, pan3 := loadFresh(q2); pan3 != nil || err3 != nil {
				add("printed-sdl-rejected", "", "the second print (no descriptions) is not accepted: %v %v\n%s", err3, pan3, q2)
			} else if q3 := third.SDL(false); q3 != q2 {
				add("print-not-stable", "", "printing (no descriptions) is not stable from the second print on either: %s", firstDiff(q2, q3))
			}
		}
		add("print-not-stable", sig, "printing (no descriptions) is not stable: %s", firstDiff(q1, q2))
	}
	// print, extend, print again: what is printed after a further (valid) load is the schema as it is
	// then - nothing printed earlier may show through
	if c.Model == nil {
		var ext strings.Builder
		for _, t := range root.Types() {
			switch tt := t.(type) {
			case *ggql.Input:
				if !tt.Core() {
					fmt.Fprintf(&ext, "extend input %s { zqLater: Int = 5 }\n", tt.Name())
				}
			case *ggql.Enum:
				if !tt.Core() {
					fmt.Fprintf(&ext, "extend enum %s { ZQ_LATER }\n", tt.Name())
				}
			}
		}
		printAfter := func(extText, trait string) {
			info[trait] = true
			dx := Describe(root, o)
			px := root.SDL(false, true)
			if fx, errx, panx := loadFresh(px); panx != nil || errx != nil {
				add("printed-sdl-rejected", "", "the SDL printed after a later load (%s) is not accepted: %v %v\n%s", strings.TrimSpace(extText), errx, panx, px)
			} else {
				if d := Describe(fx, o); d != dx {
					add("printed-sdl-differs", "", "the SDL printed after a later load defines a different schema: %s\n--- later load\n%s\n--- printed\n%s", firstDiff(dx, d), extText, px)
				}
				if px2 := fx.SDL(false, true); px2 != px {
					add("print-not-stable", "", "after a later load, printing the re-parsed schema gives different text: %s\n--- later load\n%s\n--- print of the root\n%s\n--- print of the re-parsed schema\n%s", firstDiff(px, px2), extText, px, px2)
				}
			}
		}
		if ext.Len() > 0 && root.ParseString(ext.String()) == nil {
			printAfter(ext.String(), "printed-again-after-a-later-load")
		}
		// a later load that gives an interface a field only some of its implementers get too: accepted or
		// (as it should be) refused, what the root prints afterwards is a schema a fresh root accepts
		for _, t := range root.Types() {
			it, ok := t.(*ggql.Interface)
			if !ok || it.Core() {
				continue
			}
			var impl []string
			for _, t2 := range root.Types() {
				if ot, ok := t2.(*ggql.Object); ok {
					for _, i := range ot.Interfaces {
						if i.Name() == it.Name() {
							impl = append(impl, ot.Name())
						}
					}
				}
			}
			if len(impl) < 2 {
				continue
			}
			var half strings.Builder
			fmt.Fprintf(&half, "extend interface %s { zqHalf: Int }\n", it.Name())
			for _, on := range impl[:len(impl)-1] {
				fmt.Fprintf(&half, "extend type %s { zqHalf: Int }\n", on)
			}
			_ = root.ParseString(half.String())
			printAfter(half.String(), "printed-again-after-a-load-extending-an-interface-for-some-implementers")
			break
		}
	}
	if strings.Contains(d0, "\\\"") || strings.Contains(d0, "\\\\") || strings.Contains(d0, "\\n") {
		info["text-needing-escape"] = true
	}
	if strings.Contains(d0, `desc="`) && !strings.Contains(d0, `desc=""`+"\n") {
		info["descriptions"] = true
	}
	return
}

// checkTool: ggqlgen -w / -e outputs of schema files never lose or alter schema content.
func checkTool(files []string) (ds []hx.Discrepancy) {
	add := func(kind, sig, format string, args ...interface{}) {
		ds = append(ds, hx.Discrepancy{Kind: kind, Sig: sig, Detail: fmt.Sprintf(format, args...)})
	}
	load := func(texts []string) (string, error) {
		ggql.Sort = true
		root := ggql.NewRoot(newRootObj())
		for i, txt := range texts {
			if err := root.ParseString(txt); err != nil {
				return "", fmt.Errorf("file %d: %w", i, err)
			}
		}
		return Describe(root, DescribeOpts{FillDefaults: true}), nil
	}
	want, err := load(files)
	if err != nil {
		return nil // the files are not an accepted schema: outside the property
	}
	rew, emb, err := runTool(files)
	if err != nil {
		if strings.Contains(err.Error(), "building ggqlgen") {
			add("setup", "", "%v", err)
		} else {
			add("tool-failed", "", "%v\n--- input\n%s", err, strings.Join(files, "\n--- next file\n"))
		}
		return
	}
	all := strings.Join(files, "\n")
	hasDirDefs := strings.Contains(all, "directive @")
	// an implied schema (no schema block) that is extended
	extImplied := strings.Contains(all, "extend schema") && !strings.HasPrefix(all, "schema") && !strings.Contains(all, "\nschema")
	for which, out := range map[string][]string{"-w (rewrite)": rew, "-e (embed)": emb} {
		got, err := load(out)
		in, outText := strings.Join(files, "\n--- next file\n"), strings.Join(out, "\n--- next file\n")
		if err != nil {
			sig := ""
			if hasDirDefs {
				sig = "KF-C15-ggqlgen-directive-definitions"
			}
			add("tool-output-rejected", sig, "ggqlgen %s output is not accepted: %v\n--- input\n%s\n--- output\n%s", which, err, in, outText)
			continue
		}
		if got == want {
			continue
		}
		// the two recorded findings are told apart by what differs: only directive definition blocks, only the roots line
		dirsOnly := hasDirDefs && stripBlocks(want, "directive ") == stripBlocks(got, "directive ")
		// (what the extension of an implied schema brings: roots and directive uses on the schema)
		stripImplied := func(x string) string { return stripBlocks(stripBlocks(x, "roots "), "schema dirs=") }
		rootsOnly := extImplied && stripImplied(want) == stripImplied(got)
		both := hasDirDefs && extImplied && stripImplied(stripBlocks(want, "directive ")) == stripImplied(stripBlocks(got, "directive "))
		switch {
		case dirsOnly:
			add("tool-output-differs", "KF-C15-ggqlgen-directive-definitions", "ggqlgen %s output drops directive definitions: %s\n--- input\n%s\n--- output\n%s", which, firstDiff(want, got), in, outText)
		case rootsOnly:
			add("tool-output-differs", "KF-C15-ggqlgen-implied-schema-extension", "ggqlgen %s output drops the extension of the implied schema: %s\n--- input\n%s\n--- output\n%s", which, firstDiff(want, got), in, outText)
		case both:
			add("tool-output-differs", "KF-C15-ggqlgen-directive-definitions", "ggqlgen %s output drops directive definitions: %s\n--- input\n%s\n--- output\n%s", which, firstDiff(want, got), in, outText)
			add("tool-output-differs", "KF-C15-ggqlgen-implied-schema-extension", "ggqlgen %s output drops the extension of the implied schema\n--- input\n%s\n--- output\n%s", which, in, outText)
		default:
			add("tool-output-differs", "", "ggqlgen %s output defines a different schema: %s\n--- input\n%s\n--- output\n%s", which, firstDiff(want, got), in, outText)
		}
	}
	return
}

// stripBlocks removes from a canonical description the blocks whose head line starts with prefix
// (a block is a head line at column 0 and the indented lines that follow it).
func stripBlocks(desc, prefix string) string {
	var out []string
	drop := false
	for _, line := range strings.Split(desc, "\n") {
		if line != "" && !strings.HasPrefix(line, " ") {
			drop = strings.HasPrefix(line, prefix)
		}
		if !drop {
			out = append(out, line)
		}
	}
	return strings.Join(out, "\n")
}

// splitFiles cuts a rendered schema into two files: self-contained simple definitions first.
func splitFiles(s *hx.Schema, o hx.SDLOpts) []string {
	var first, second hx.Schema
	second = *s
	second.Types = nil
	for _, td := range s.Types {
		simple := (td.Kind == hx.KEnum || td.Kind == hx.KScalar) && len(td.Dirs) == 0
		if simple {
			for _, v := range td.Values {
				if len(v.Dirs) > 0 {
					simple = false
				}
			}
		}
		if simple {
			first.Types = append(first.Types, td)
		} else {
			second.Types = append(second.Types, td)
		}
	}
	if len(first.Types) == 0 {
		return []string{s.SDL(o)}
	}
	return []string{first.SDL(o), second.SDL(o)}
}

func TestC15(t *testing.T) {
	run := hx.NewRun("C15")
	defer run.Flush()
	defer cleanupTool()
	classes := func(c *c15Case, info map[string]bool) (bool, []string) {
		var cl []string
		for k := range info {
			cl = append(cl, k)
		}
		for _, kw := range []string{"directive @", "schema ", "union ", "interface ", "input ", "enum ", "scalar ", "@deprecated", " = "} {
			if strings.Contains(c.SDL, kw) {
				cl = append(cl, "has:"+strings.TrimSpace(kw))
			}
		}
		if strings.Contains(c.SDL, `\"""`) {
			cl = append(cl, "triple-quote-in-description")
		}
		if strings.Contains(c.SDL, `\\`) {
			cl = append(cl, "backslash")
		}
		return info["text-needing-escape"], cl
	}
	one := func(fatal func(string, ...interface{}), c *c15Case) {
		if len(c.Files) > 0 { // replay of a tool-level case
			ds := checkTool(c.Files)
			run.Case(hx.Hash(c), true, "ggqlgen-tool-case")
			real := run.Triage(ds)
			for _, d := range ds {
				if d.Sig != "" {
					fmt.Printf("REPLAY-KNOWN sig=%s %s\n", d.Sig, hx.Trunc(d.Detail, 300))
				}
			}
			if len(real) > 0 {
				fatal("C15 violated (ggqlgen): %s", run.ReportFailure(c, real))
			}
			return
		}
		ds, info := checkC15(c)
		nt, cl := classes(c, info)
		run.Case(hx.Hash(c), nt, cl...)
		run.Sample(func() interface{} { return map[string]interface{}{"sdl": hx.Trunc(c.SDL, 900)} })
		real := run.Triage(ds)
		if hx.Replaying() != "" {
			for _, d := range ds {
				if d.Sig != "" {
					fmt.Printf("REPLAY-KNOWN sig=%s %s\n", d.Sig, hx.Trunc(d.Detail, 300))
				}
			}
		}
		if len(real) > 0 {
			fatal("C15 violated: %s", run.ReportFailure(c, real))
		}
	}
	if f := hx.Replaying(); f != "" {
		var c c15Case
		if err := hx.LoadCase(f, &c); err != nil {
			t.Fatalf("load %s: %v", f, err)
		}
		one(func(f string, a ...interface{}) { t.Fatalf("REPLAY-FAIL "+f, a...) }, &c)
		return
	}
	rapid.Check(t, func(rt *rapid.T) {
		s := GenFull(rt, Opts{Descs: true, HostileTxt: true, Directives: true, Deprecated: true})
		o := hx.SDLOpts{Commas: rapid.Bool().Draw(rt, "commas"), BlockDesc: rapid.Bool().Draw(rt, "blockDesc")}
		one(rt.Fatalf, &c15Case{SDL: Render(s, nil, o)})
		if rapid.IntRange(0, 3).Draw(rt, "numbersWrittenAsStrings") == 0 {
			// ggql's Int64, Float64 and Time take their values as strings too: input members whose
			// defaults are written that way, filled into directive argument values that leave them out
			big := rapid.SampledFrom([]string{`"9000000000"`, `"-9223372036854775808"`, `"7"`}).Draw(rt, "nsBig")
			frac := rapid.SampledFrom([]string{`"0.25"`, `"1e300"`, `"-2.5"`}).Draw(rt, "nsFrac")
			at := rapid.SampledFrom([]string{`"2021-03-04T05:06:07Z"`, `"2021-03-04T05:06:07.5+02:00"`}).Draw(rt, "nsAt")
			use := rapid.SampledFrom([]string{"{}", "{big: 1}", `{frac: "3.5", at: "2020-01-02T03:04:05Z"}`, "{at: null}"}).Draw(rt, "nsUse")
			dflt := rapid.SampledFrom([]string{"{}", `{big: "12"}`, "{frac: 2}"}).Draw(rt, "nsDflt")
			extra := fmt.Sprintf("input ZqNum { big: Int64 = %s frac: Float64 = %s at: Time = %s }\ndirective @zqlimits(o: ZqNum = %s, l: [ZqNum] = [%s]) on OBJECT | ENUM\ntype ZqHolder @zqlimits(o: %s) { a: Int }\nenum ZqHeld @zqlimits { A }\n",
				big, frac, at, dflt, use, use)
			one(rt.Fatalf, &c15Case{SDL: Render(s, nil, o) + extra})
		}
		if rapid.IntRange(0, 2).Draw(rt, "goAPI") == 0 {
			// the same schema assembled in code: what is printed was never text before
			one(rt.Fatalf, &c15Case{SDL: Render(s, nil, o), Model: s})
		}
		// tool level (a sample of the cases: each run executes the ggqlgen binary twice)
		if rapid.IntRange(0, 19).Draw(rt, "toolSample") == 0 {
			files := []string{Render(s, nil, o)}
			if rapid.Bool().Draw(rt, "split") {
				files = splitFiles(s, o)
			}
			tc := &c15Case{Files: files}
			ds := checkTool(files)
			cl := []string{"ggqlgen-tool-case", fmt.Sprintf("ggqlgen-files=%d", len(files))}
			if strings.Contains(strings.Join(files, ""), "directive @") {
				cl = append(cl, "ggqlgen-input-has-directive-definitions")
			} else {
				cl = append(cl, "ggqlgen-input-without-directive-definitions")
			}
			run.Case(hx.Hash(tc), true, cl...)
			if real := run.Triage(ds); len(real) > 0 {
				rt.Fatalf("C15 violated (ggqlgen): %s", run.ReportFailure(tc, real))
			}
		}
	})
}
