package sdl

import (
	"fmt"
	"regexp"
	"sort"
	"strings"
	"time"

	"github.com/uhn/ggql/pkg/ggql"
)

// Problem is a rule violation found by the independent re-checker in a schema ggql accepted.
type Problem struct {
	Rule   string
	Where  string
	Detail string
	Member bool // the offending directive use sits on a field definition, argument or input field
}

func (p Problem) String() string { return fmt.Sprintf("%s at %s: %s", p.Rule, p.Where, p.Detail) }

var nameRE = regexp.MustCompile(`^[_A-Za-z][_0-9A-Za-z]*$`)

func kindOf(t ggql.Type) string {
	switch t.(type) {
	case *ggql.Object:
		return "object"
	case *ggql.Interface:
		return "interface"
	case *ggql.Union:
		return "union"
	case *ggql.Enum:
		return "enum"
	case *ggql.Input:
		return "input"
	case *ggql.List:
		return "list"
	case *ggql.NonNull:
		return "nonnull"
	case *ggql.Ref:
		return "ref"
	case *ggql.Schema:
		return "schema"
	case *ggql.Directive:
		return "directive"
	case nil:
		return "nil"
	}
	return "scalar"
}

func baseOf(t ggql.Type) ggql.Type {
	for {
		switch tt := t.(type) {
		case *ggql.List:
			t = tt.Base
		case *ggql.NonNull:
			t = tt.Base
		default:
			return t
		}
	}
}

func typeString(t ggql.Type) string {
	if t == nil {
		return "<nil>"
	}
	return t.Name()
}

// sameType compares type expressions structurally.
func sameType(a, b ggql.Type) bool {
	switch ta := a.(type) {
	case *ggql.List:
		tb, ok := b.(*ggql.List)
		return ok && sameType(ta.Base, tb.Base)
	case *ggql.NonNull:
		tb, ok := b.(*ggql.NonNull)
		return ok && sameType(ta.Base, tb.Base)
	}
	if a == nil || b == nil {
		return a == b
	}
	switch b.(type) {
	case *ggql.List, *ggql.NonNull:
		return false
	}
	return a.Name() == b.Name()
}

// subType: sub may stand where target is declared (interface field covariance).
func subType(target, sub ggql.Type) bool {
	if sameType(target, sub) {
		return true
	}
	if nn, ok := sub.(*ggql.NonNull); ok {
		if _, tnn := target.(*ggql.NonNull); !tnn {
			return subType(target, nn.Base)
		}
	}
	switch tt := target.(type) {
	case *ggql.NonNull:
		if sn, ok := sub.(*ggql.NonNull); ok {
			return subType(tt.Base, sn.Base)
		}
	case *ggql.List:
		if sl, ok := sub.(*ggql.List); ok {
			return subType(tt.Base, sl.Base)
		}
	case *ggql.Interface:
		if so, ok := sub.(*ggql.Object); ok {
			for _, i := range so.Interfaces {
				if i.Name() == tt.Name() {
					return true
				}
			}
		}
	case *ggql.Union:
		for _, m := range tt.Members {
			if m.Name() == sub.Name() && kindOf(sub) == "object" {
				return true
			}
		}
	}
	return false
}

type rechecker struct {
	root  *ggql.Root
	dirs  map[string]*ggql.Directive
	probs []Problem
	// counts
	Uses, Types int
}

func (r *rechecker) add(rule, where, format string, args ...interface{}) {
	r.probs = append(r.probs, Problem{Rule: rule, Where: where, Detail: fmt.Sprintf(format, args...)})
}

func (r *rechecker) checkName(what, where, name string, core bool) {
	if !nameRE.MatchString(name) {
		r.add("R2", where, "%s name %q is not well-formed", what, name)
	}
	if !core && len(name) >= 2 && name[:2] == "__" {
		r.add("R2", where, "%s name %q is reserved", what, name)
	}
}

func (r *rechecker) checkTypeExpr(where string, t ggql.Type, wantInput bool) {
	if t == nil {
		r.add("R1", where, "missing type")
		return
	}
	if _, ok := t.(*ggql.NonNull); ok {
		if _, inner := t.(*ggql.NonNull).Base.(*ggql.NonNull); inner {
			r.add("R1", where, "non-null inside non-null")
		}
	}
	b := baseOf(t)
	switch k := kindOf(b); k {
	case "ref", "nil":
		r.add("R1", where, "unresolved reference %s", typeString(b))
	case "scalar", "enum":
	case "input":
		if !wantInput {
			r.add("R3", where, "input type %s in an output position", b.Name())
		}
	case "object", "interface", "union":
		if wantInput {
			r.add("R3", where, "output type %s (%s) in an input position", b.Name(), k)
		}
	default:
		r.add("R3", where, "%s type %s can not be used here", k, typeString(b))
	}
}

// literalOK: is the (possibly already coerced) value acceptable for the type?
func (r *rechecker) literalOK(t ggql.Type, v interface{}) bool {
	if v == nil {
		_, nn := t.(*ggql.NonNull)
		return !nn
	}
	if _, isVar := v.(ggql.Var); isVar {
		return true
	}
	switch tt := t.(type) {
	case *ggql.NonNull:
		return r.literalOK(tt.Base, v)
	case *ggql.List:
		l, ok := v.([]interface{})
		if !ok {
			return false
		}
		for _, e := range l {
			if !r.literalOK(tt.Base, e) {
				return false
			}
		}
		return true
	case *ggql.Enum:
		s, ok := v.(ggql.Symbol)
		if !ok {
			return false
		}
		for _, ev := range tt.Values() {
			if ev.Value == s {
				return true
			}
		}
		return false
	case *ggql.Input:
		m, ok := v.(map[string]interface{})
		if !ok {
			return false
		}
		for k, e := range m {
			var f *ggql.InputField
			for _, cand := range tt.Fields() {
				if cand.Name() == k {
					f = cand
				}
			}
			if f == nil || !r.literalOK(f.Type, e) {
				return false
			}
		}
		return true
	}
	isInt := false
	isFloat := false
	switch v.(type) {
	case int, int8, int16, int32, int64, uint, uint8, uint16, uint32, uint64:
		isInt = true
	case float32, float64:
		isFloat = true
	}
	_, isStr := v.(string)
	_, isBool := v.(bool)
	_, isTime := v.(time.Time)
	switch t.Name() {
	case "Int", "Int64":
		return isInt || isFloat || (t.Name() == "Int64" && isStr)
	case "Float", "Float64":
		return isInt || isFloat || (t.Name() == "Float64" && isStr)
	case "Boolean":
		return isBool
	case "ID":
		return isStr || isInt
	case "Time":
		return isStr || isTime || isInt || isFloat
	}
	return isStr // String and custom scalars
}

func (r *rechecker) checkUse(where, loc string, du *ggql.DirectiveUse, member bool) {
	r.Uses++
	mark := func(rule, format string, args ...interface{}) {
		r.probs = append(r.probs, Problem{Rule: rule, Where: where, Detail: fmt.Sprintf(format, args...), Member: member})
	}
	d, ok := du.Directive.(*ggql.Directive)
	if !ok || d == nil {
		mark("R1", "directive use refers to %s which is not a directive definition", typeString(du.Directive))
		return
	}
	if loc != "" {
		found := false
		for _, on := range d.On {
			if string(on) == loc {
				found = true
			}
		}
		if !found {
			mark("R7", "directive @%s is not declared for %s (declared on %v)", d.Name(), loc, d.On)
		}
	}
	args := dirArgs(d)
	keys := make([]string, 0, len(du.Args))
	for k := range du.Args {
		keys = append(keys, k)
	}
	sort.Strings(keys)
	for _, k := range keys {
		av := du.Args[k]
		a := args[k]
		if a == nil {
			mark("R7", "directive @%s has no argument %q", d.Name(), k)
			continue
		}
		if !r.literalOK(a.Type, av.Value) {
			mark("R7", "value %#v can not be coerced to %s for @%s(%s:)", av.Value, a.Type.Name(), d.Name(), k)
		}
	}
}

// dirArgs reads a directive's arguments through its own introspection resolver.
func dirArgs(d *ggql.Directive) map[string]*ggql.Arg {
	out := map[string]*ggql.Arg{}
	res, _ := d.Resolve(&ggql.Field{Name: "args"}, nil)
	if lr, ok := res.(ggql.ListResolver); ok {
		for i := 0; i < lr.Len(); i++ {
			if a, ok := lr.Nth(i).(*ggql.Arg); ok {
				out[a.Name()] = a
			}
		}
	}
	return out
}

func (r *rechecker) checkFields(owner string, fields []*ggql.FieldDef, core bool) {
	if len(fields) == 0 {
		r.add("R6", owner, "no fields")
	}
	seen := map[string]bool{}
	for _, f := range fields {
		where := owner + "." + f.Name()
		if seen[f.Name()] {
			r.add("R2", where, "duplicate field")
		}
		seen[f.Name()] = true
		r.checkName("field", where, f.Name(), core)
		r.checkTypeExpr(where, f.Type, false)
		aseen := map[string]bool{}
		for _, a := range f.Args() {
			aw := where + "(" + a.Name() + ")"
			if aseen[a.Name()] {
				r.add("R2", aw, "duplicate argument")
			}
			aseen[a.Name()] = true
			r.checkName("argument", aw, a.Name(), core)
			r.checkTypeExpr(aw, a.Type, true)
			for _, du := range a.Dirs {
				r.checkUse(aw, "ARGUMENT_DEFINITION", du, true)
			}
		}
		for _, du := range f.Dirs {
			r.checkUse(where, "FIELD_DEFINITION", du, true)
		}
	}
}

// Recheck re-evaluates the rule catalogue on whatever the root holds, through the public API only.
func Recheck(root *ggql.Root) (probs []Problem, uses, types int) {
	r := &rechecker{root: root, dirs: map[string]*ggql.Directive{}}
	// directive definitions: names from the printed schema, definitions through GetType
	for _, line := range strings.Split(root.SDL(true), "\n") {
		if strings.HasPrefix(line, "directive @") {
			name := line[len("directive @"):]
			if i := strings.IndexAny(name, "( "); i >= 0 {
				name = name[:i]
			}
			if d, ok := root.GetType(name).(*ggql.Directive); ok {
				r.dirs[name] = d
			}
		}
	}
	seenTypes := map[string]bool{}
	for _, t := range root.Types() {
		if t.Core() {
			continue
		}
		r.Types++
		name := t.Name()
		k := kindOf(t)
		if k == "scalar" && (name == "Time") {
			continue // built-in extension scalar (not flagged core by ggql)
		}
		if k != "schema" {
			if seenTypes[name] {
				r.add("R2", name, "duplicate type")
			}
			seenTypes[name] = true
			r.checkName("type", name, name, false)
		}
		loc := map[string]string{"object": "OBJECT", "interface": "INTERFACE", "union": "UNION", "enum": "ENUM", "input": "INPUT_OBJECT", "scalar": "SCALAR", "schema": "SCHEMA"}[k]
		for _, du := range t.Directives() {
			r.checkUse(name, loc, du, false)
		}
		switch tt := t.(type) {
		case *ggql.Schema:
			for _, f := range tt.Fields() {
				switch f.Name() {
				case "query", "mutation", "subscription":
				default:
					r.add("R2", "schema."+f.Name(), "unknown operation root")
				}
				// the rule ggql enforces for an operation root is that of any field: an output type
				// (that it be a plain object is not among the rules of the property)
				r.checkTypeExpr("schema."+f.Name(), f.Type, false)
			}
		case *ggql.Object:
			r.checkFields(name, tt.Fields(), false)
			iseen := map[string]bool{}
			for _, it := range tt.Interfaces {
				if iseen[it.Name()] {
					r.add("R2", name, "implements %s twice", it.Name())
				}
				iseen[it.Name()] = true
				inf, ok := it.(*ggql.Interface)
				if !ok {
					if kindOf(it) == "ref" {
						r.add("R1", name, "implements undefined %s", it.Name())
					} else {
						r.add("R4", name, "implements %s which is a %s", it.Name(), kindOf(it))
					}
					continue
				}
				for _, fi := range inf.Fields() {
					var fo *ggql.FieldDef
					for _, cand := range tt.Fields() {
						if cand.Name() == fi.Name() {
							fo = cand
						}
					}
					w := name + "." + fi.Name()
					if fo == nil {
						r.add("R4", w, "field of interface %s missing", inf.Name())
						continue
					}
					if fo.Type != nil && fi.Type != nil && !subType(fi.Type, fo.Type) {
						r.add("R4", w, "type %s is not compatible with %s of interface %s", typeString(fo.Type), typeString(fi.Type), inf.Name())
					}
					for _, ai := range fi.Args() {
						var ao *ggql.Arg
						for _, cand := range fo.Args() {
							if cand.Name() == ai.Name() {
								ao = cand
							}
						}
						if ao == nil {
							r.add("R4", w, "argument %s of interface %s missing", ai.Name(), inf.Name())
						} else if ao.Type != nil && ai.Type != nil && !sameType(ai.Type, ao.Type) {
							r.add("R4", w, "argument %s has type %s, interface %s says %s", ai.Name(), typeString(ao.Type), inf.Name(), typeString(ai.Type))
						}
					}
					for _, ao := range fo.Args() {
						has := false
						for _, ai := range fi.Args() {
							if ai.Name() == ao.Name() {
								has = true
							}
						}
						if _, nn := ao.Type.(*ggql.NonNull); !has && nn {
							r.add("R4", w, "additional argument %s must be optional", ao.Name())
						}
					}
				}
			}
		case *ggql.Interface:
			r.checkFields(name, tt.Fields(), false)
		case *ggql.Union:
			if len(tt.Members) == 0 {
				r.add("R5", name, "union without members")
			}
			for _, m := range tt.Members {
				switch kindOf(m) {
				case "object":
				case "ref":
					r.add("R1", name, "member %s undefined", m.Name())
				default:
					r.add("R5", name, "member %s is a %s", m.Name(), kindOf(m))
				}
			}
		case *ggql.Enum:
			if len(tt.Values()) == 0 {
				r.add("R6", name, "enum without values")
			}
			vseen := map[string]bool{}
			for _, ev := range tt.Values() {
				vn := string(ev.Value)
				w := name + "." + vn
				if vseen[vn] {
					r.add("R2", w, "duplicate enum value")
				}
				vseen[vn] = true
				if vn == "true" || vn == "false" || vn == "null" {
					r.add("R2", w, "enum value is a keyword")
				}
				r.checkName("enum value", w, vn, false)
				for _, du := range ev.Directives {
					r.checkUse(w, "ENUM_VALUE", du, false)
				}
			}
		case *ggql.Input:
			if len(tt.Fields()) == 0 {
				r.add("R6", name, "input object without fields")
			}
			fseen := map[string]bool{}
			for _, f := range tt.Fields() {
				w := name + "." + f.Name()
				if fseen[f.Name()] {
					r.add("R2", w, "duplicate input field")
				}
				fseen[f.Name()] = true
				r.checkName("input field", w, f.Name(), false)
				r.checkTypeExpr(w, f.Type, true)
				for _, du := range f.Dirs {
					r.checkUse(w, "INPUT_FIELD_DEFINITION", du, true)
				}
			}
		}
	}
	// directive definitions
	var dnames []string
	for n := range r.dirs {
		dnames = append(dnames, n)
	}
	sort.Strings(dnames)
	graph := map[string][]string{}
	for _, n := range dnames {
		d := r.dirs[n]
		if d.Core() {
			continue
		}
		r.checkName("directive", "@"+n, n, false)
		for _, on := range d.On {
			if !ggql.IsLocation(on) {
				r.add("R7", "@"+n, "unknown location %s", on)
			}
		}
		for an, a := range dirArgs(d) {
			w := "@" + n + "(" + an + ")"
			r.checkName("argument", w, an, false)
			r.checkTypeExpr(w, a.Type, true)
			for _, du := range a.Dirs {
				// location of a use on a directive definition's argument is not re-checked (see DESIGN: ggql
				// validates it against INPUT_FIELD_DEFINITION; pinned) - only reference, arguments and cycles
				r.checkUse(w, "", du, true)
				if dd, ok := du.Directive.(*ggql.Directive); ok {
					graph[n] = append(graph[n], dd.Name())
				}
			}
		}
	}
	// R8 cycles
	var visit func(n string, stack map[string]bool) bool
	visit = func(n string, stack map[string]bool) bool {
		if stack[n] {
			return true
		}
		stack[n] = true
		for _, m := range graph[n] {
			if visit(m, stack) {
				return true
			}
		}
		delete(stack, n)
		return false
	}
	for _, n := range dnames {
		if visit(n, map[string]bool{}) {
			r.add("R8", "@"+n, "directive definition cycle")
		}
	}
	return r.probs, r.Uses, r.Types
}
