package sdl

import (
	"fmt"
	"sort"
	"strings"

	"pgregory.net/rapid"

	"verifharness/hx"
)

// Piece is one definition or extension as it is written into a document.
type Piece struct {
	Text    string   `json:"text"`
	Defines string   `json:"defines,omitempty"` // name defined ("@d" for directives, "schema" for the schema block)
	Extends string   `json:"extends,omitempty"` // name extended
	Needs   []string `json:"needs,omitempty"`   // names that must be defined in the same or an earlier load
}

// Arrangement is a sequence of documents loaded one after the other.
type Arrangement struct {
	Docs   [][]Piece `json:"docs"`
	Splits int       `json:"splits"`         // number of documents - 1
	Moved  int       `json:"extends"`        // number of extend blocks
	Late   bool      `json:"late,omitempty"` // an ill-formed set whose offending member arrives in the last load
}

func (a *Arrangement) Texts() []string {
	var out []string
	for _, d := range a.Docs {
		var b strings.Builder
		for _, p := range d {
			b.WriteString(p.Text)
		}
		out = append(out, b.String())
	}
	return out
}

func valNeeds(v hx.Val, syms, keys map[string]bool) {
	switch v.K {
	case "symbol":
		syms[v.S] = true
	case "list":
		for _, e := range v.L {
			valNeeds(e, syms, keys)
		}
	case "map":
		for _, kv := range v.M {
			keys[kv.Key] = true
			valNeeds(kv.V, syms, keys)
		}
	}
}

type needSet map[string]bool

func (n needSet) typ(tr *hx.TRef) {
	if tr != nil && !hx.IsBuiltinScalar(tr.BaseName()) {
		n[tr.BaseName()] = true
	}
}

func (n needSet) uses(ds []hx.DirUse) {
	for _, d := range ds {
		switch d.Name {
		case "deprecated", "skip", "include", "go":
		default:
			n["@"+d.Name] = true
		}
	}
}

func (n needSet) args(as []*hx.Arg) {
	for _, a := range as {
		n.typ(a.Type)
		n.uses(a.Dirs)
	}
}

func (n needSet) list() []string {
	out := make([]string, 0, len(n))
	for k := range n {
		out = append(out, k)
	}
	sort.Strings(out)
	return out
}

// literalPins collects enum symbols and input field names that occur in any literal of the schema:
// those members stay in the base definition so that every interim schema can coerce the literals.
func literalPins(s *hx.Schema) (syms, keys map[string]bool) {
	syms, keys = map[string]bool{}, map[string]bool{}
	uses := func(ds []hx.DirUse) {
		for _, d := range ds {
			for _, kv := range d.Args {
				valNeeds(kv.V, syms, keys)
			}
		}
	}
	args := func(as []*hx.Arg) {
		for _, a := range as {
			if a.Default != nil {
				valNeeds(*a.Default, syms, keys)
			}
			uses(a.Dirs)
		}
	}
	for _, td := range s.Types {
		uses(td.Dirs)
		for _, f := range td.Fields {
			uses(f.Dirs)
			args(f.Args)
		}
		for _, v := range td.Values {
			uses(v.Dirs)
		}
		args(td.Inputs)
	}
	for _, d := range s.Dirs {
		args(d.Args)
	}
	uses(s.RootDirs)
	uses(s.ExtRootDirs)
	return
}

// narrowPins collects the memberships an implementing object relies on when it narrows an
// abstract typed interface field ("U.M": M must be a member of union U, "T implements I"): those
// stay in the base definitions so that every interim schema satisfies its interfaces.
func narrowPins(s *hx.Schema) map[string]bool {
	pins := map[string]bool{}
	for _, td := range s.Types {
		if td.Kind != hx.KObject && td.Kind != hx.KInterface {
			continue
		}
		for _, in := range td.Interfaces {
			it := s.Type(in)
			if it == nil {
				continue
			}
			for _, f := range it.Fields {
				of := td.Field(f.Name)
				if of == nil {
					continue
				}
				from, to := f.Type.BaseName(), of.Type.BaseName()
				if from == to {
					continue
				}
				switch s.KindOf(from) {
				case hx.KUnion:
					pins[from+"."+to] = true
				case hx.KInterface:
					pins[to+" implements "+from] = true
				}
			}
		}
	}
	return pins
}

// Arrange renders the schema as a drawn arrangement: definitions permuted, members moved into
// extend blocks, pieces distributed over 1-4 successive documents such that every interim schema is
// well-formed (references, extension targets, interface bundles and literal members available).
func Arrange(t *rapid.T, s *hx.Schema, o hx.SDLOpts, label string, allowExtend bool, maxDocs int) *Arrangement {
	return arrange(t, s, o, label, allowExtend, maxDocs, false)
}

// ArrangeLoose puts everything into ONE document and moves members into extend blocks without
// keeping together what an interim schema would need together: an implements clause may sit in one
// extend block and the fields it requires in another, later or earlier one, a narrowed field before
// the membership it relies on. Within one load only the merged result has to be valid.
func ArrangeLoose(t *rapid.T, s *hx.Schema, o hx.SDLOpts, label string) *Arrangement {
	return arrange(t, s, o, label, true, 1, true)
}

func arrange(t *rapid.T, s *hx.Schema, o hx.SDLOpts, label string, allowExtend bool, maxDocs int, loose bool) *Arrangement {
	syms, keys := literalPins(s)
	npins := narrowPins(s)
	if loose {
		npins = map[string]bool{}
	}
	var pieces []Piece
	mk := func(text, defines, extends string, n needSet) {
		if extends != "" {
			n[extends] = true
		}
		delete(n, defines)
		pieces = append(pieces, Piece{Text: text, Defines: defines, Extends: extends, Needs: n.list()})
	}
	moved := 0
	for _, d := range s.Dirs {
		n := needSet{}
		n.args(d.Args)
		mk(hx.DirDefSDL(d, o), "@"+d.Name, "", n)
	}
	if s.Roots != nil {
		base := &hx.Schema{Roots: map[string]string{}, RootDirs: s.RootDirs, RootDescs: s.RootDescs}
		ext := &hx.Schema{Roots: map[string]string{}, RootDescs: s.RootDescs}
		for op, tn := range s.Roots {
			if op != "query" && allowExtend && rapid.IntRange(0, 2).Draw(t, label+"schemaExt"+op) == 0 {
				ext.Roots[op] = tn
			} else {
				base.Roots[op] = tn
			}
		}
		n := needSet{}
		n.uses(s.RootDirs)
		for _, tn := range base.Roots {
			n[tn] = true
		}
		mk(base.RootsSDL(), "schema", "", n)
		if len(ext.Roots) > 0 {
			n2 := needSet{}
			for _, tn := range ext.Roots {
				n2[tn] = true
			}
			moved++
			mk("extend "+ext.RootsSDL(), "", "schema", n2)
		}
	}
	if s.Roots == nil && (len(s.ExtRoots) > 0 || len(s.ExtRootDirs) > 0) {
		// the implicit schema is extended: the block may sit anywhere, in any load that has the types it names
		n := needSet{}
		n.uses(s.ExtRootDirs)
		for _, tn := range s.ExtRoots {
			n[tn] = true
		}
		mk(s.ExtRootsSDL(), "", "schema", n)
		delete(n, "schema") // (there is no definition of "schema" to wait for)
		pieces[len(pieces)-1].Needs = n.list()
	}
	for _, td := range s.Types {
		lab := label + td.Name
		base := *td
		nExt := 0
		if allowExtend && td.Kind != hx.KScalar {
			nExt = rapid.SampledFrom([]int{0, 0, 1, 1, 2}).Draw(t, lab+"nExt")
		}
		exts := make([]*hx.TypeDef, nExt)
		for i := range exts {
			exts[i] = &hx.TypeDef{Kind: td.Kind, Name: td.Name}
		}
		where := func(l string) int { // 0 = base, i = extension i
			if nExt == 0 {
				return 0
			}
			return rapid.IntRange(0, nExt).Draw(t, l)
		}
		switch td.Kind {
		case hx.KObject, hx.KInterface:
			base.Fields, base.Interfaces = nil, nil
			// interface bundles: the implements clause travels with the fields it requires
			ifaceOf := map[string]int{}
			for _, in := range td.Interfaces {
				w := where(lab + "impl" + in)
				if npins[td.Name+" implements "+in] {
					w = 0
				}
				if w == 0 {
					base.Interfaces = append(base.Interfaces, in)
				} else {
					exts[w-1].Interfaces = append(exts[w-1].Interfaces, in)
				}
				if it := s.Type(in); it != nil && !loose {
					for _, f := range it.Fields {
						if cur, has := ifaceOf[f.Name]; !has || w < cur {
							ifaceOf[f.Name] = w // a field required by two interfaces goes where the earlier one is
						}
					}
				}
			}
			// if two interfaces share a field and sit in different pieces, pull both into the base
			for _, in := range td.Interfaces {
				if it := s.Type(in); it != nil {
					for _, f := range it.Fields {
						_ = f
					}
				}
			}
			for i, f := range td.Fields {
				w, bundled := ifaceOf[f.Name]
				if !bundled {
					if i == 0 || len(td.Fields) == 1 {
						w = 0 // the base keeps at least one field
					} else {
						w = where(lab + "f" + f.Name)
					}
				}
				if w == 0 {
					base.Fields = append(base.Fields, f)
				} else {
					exts[w-1].Fields = append(exts[w-1].Fields, f)
				}
			}
			if len(base.Fields) == 0 {
				// everything was bundled into extensions: move the first bundle back
				base.Fields, base.Interfaces = td.Fields, td.Interfaces
				for _, e := range exts {
					e.Fields, e.Interfaces = nil, nil
				}
			}
			// an interface implemented in an extension whose fields ended up split: keep it simple and
			// verify; otherwise fall back to the unsplit definition
			ok := true
			check := func(p *hx.TypeDef, earlier []*hx.Field) {
				for _, in := range p.Interfaces {
					if it := s.Type(in); it != nil {
						for _, f := range it.Fields {
							found := false
							for _, pf := range append(append([]*hx.Field{}, earlier...), p.Fields...) {
								if pf.Name == f.Name {
									found = true
								}
							}
							if !found {
								ok = false
							}
						}
					}
				}
			}
			check(&base, nil)
			for _, e := range exts {
				check(e, base.Fields)
			}
			if loose {
				ok = true
			}
			if !ok {
				base.Fields, base.Interfaces = td.Fields, td.Interfaces
				for _, e := range exts {
					e.Fields, e.Interfaces = nil, nil
				}
			}
		case hx.KUnion:
			base.Members = nil
			for i, m := range td.Members {
				w := 0
				if i > 0 && !npins[td.Name+"."+m] {
					w = where(lab + "m" + m)
				}
				if w == 0 {
					base.Members = append(base.Members, m)
				} else {
					exts[w-1].Members = append(exts[w-1].Members, m)
				}
			}
		case hx.KEnum:
			base.Values = nil
			for i, v := range td.Values {
				w := 0
				if i > 0 && !syms[v.Name] {
					w = where(lab + "v" + v.Name)
				}
				if w == 0 {
					base.Values = append(base.Values, v)
				} else {
					exts[w-1].Values = append(exts[w-1].Values, v)
				}
			}
		case hx.KInput:
			base.Inputs = nil
			for i, f := range td.Inputs {
				w := 0
				if i > 0 && !keys[f.Name] && !(f.Type.NonNull && f.Default == nil) {
					w = where(lab + "i" + f.Name)
				}
				if w == 0 {
					base.Inputs = append(base.Inputs, f)
				} else {
					exts[w-1].Inputs = append(exts[w-1].Inputs, f)
				}
			}
		}
		// type level directive uses may move into an extension too
		if nExt > 0 && len(td.Dirs) > 0 {
			base.Dirs = nil
			for i, du := range td.Dirs {
				w := where(fmt.Sprintf("%sdu%d", lab, i))
				if w > 0 && td.Kind == hx.KUnion && len(exts[w-1].Members) == 0 {
					w = 0 // a union extension cannot be written without members
				}
				if w == 0 {
					base.Dirs = append(base.Dirs, du)
				} else {
					exts[w-1].Dirs = append(exts[w-1].Dirs, du)
				}
			}
		}
		needsOf := func(p *hx.TypeDef) needSet {
			n := needSet{}
			n.uses(p.Dirs)
			for _, in := range p.Interfaces {
				n[in] = true
			}
			for _, m := range p.Members {
				n[m] = true
			}
			for _, f := range p.Fields {
				n.typ(f.Type)
				n.uses(f.Dirs)
				n.args(f.Args)
			}
			for _, v := range p.Values {
				n.uses(v.Dirs)
			}
			n.args(p.Inputs)
			return n
		}
		mk(hx.TypeSDL(&base, "", o), td.Name, "", needsOf(&base))
		for _, e := range exts {
			if len(e.Fields)+len(e.Members)+len(e.Values)+len(e.Inputs)+len(e.Dirs)+len(e.Interfaces) == 0 {
				continue
			}
			moved++
			mk(hx.TypeSDL(e, "extend ", o), "", td.Name, needsOf(e))
		}
	}
	// distribute over documents
	nDocs := 1
	if maxDocs > 1 {
		nDocs = rapid.IntRange(1, maxDocs).Draw(t, label+"nDocs")
	}
	doc := make([]int, len(pieces))
	definer := map[string]int{}
	for i, p := range pieces {
		if p.Defines != "" {
			definer[p.Defines] = i
		}
		if nDocs > 1 {
			doc[i] = rapid.IntRange(0, nDocs-1).Draw(t, fmt.Sprintf("%sdoc%d", label, i))
		}
	}
	for changed := true; changed; {
		changed = false
		for i, p := range pieces {
			for _, n := range p.Needs {
				if j, ok := definer[n]; ok && doc[j] > doc[i] {
					doc[i] = doc[j]
					changed = true
				}
			}
		}
	}
	// An implicit schema is fixed when the first document is loaded: keep the operation root types in the
	// first document (see DESIGN.md C16 for the finding this sidesteps when it is not repaired).
	arr := &Arrangement{Moved: moved}
	order := rapid.Permutation(indices(len(pieces))).Draw(t, label+"order")
	used := map[int]bool{}
	for d := 0; d < nDocs; d++ {
		var ps []Piece
		for _, i := range order {
			if doc[i] == d {
				ps = append(ps, pieces[i])
				used[i] = true
			}
		}
		if len(ps) > 0 {
			arr.Docs = append(arr.Docs, ps)
		}
	}
	arr.Splits = len(arr.Docs) - 1
	return arr
}

// ExtendsLast regroups an arrangement into two loads: every definition first, then a load that
// holds nothing but the extend blocks (it adds members to known types and no type of its own).
// Returns nil when the arrangement has no extend block.
func ExtendsLast(a *Arrangement) []string {
	var defs, exts strings.Builder
	for _, d := range a.Docs {
		for _, p := range d {
			if p.Extends != "" {
				exts.WriteString(p.Text)
			} else {
				defs.WriteString(p.Text)
			}
		}
	}
	if exts.Len() == 0 {
		return nil
	}
	return []string{defs.String(), exts.String()}
}

func indices(n int) []int {
	out := make([]int, n)
	for i := range out {
		out[i] = i
	}
	return out
}
