package sdl

import (
	"fmt"
	"strings"
	"testing"
	"time"

	"github.com/uhn/ggql/pkg/ggql"
	"pgregory.net/rapid"

	"verifharness/hx"
)

// rootObj is a minimal root object so that introspection can be resolved by reflection.
type rootObj struct {
	Query        *struct{}
	Mutation     *struct{}
	Subscription *struct{}
}

func newRootObj() *rootObj {
	return &rootObj{Query: &struct{}{}, Mutation: &struct{}{}, Subscription: &struct{}{}}
}

// loadFresh loads SDL into a fresh root. A load that does not return within the
// watchdog is reported as pan="hang" (the goroutine is abandoned).
func loadFresh(sdl string) (root *ggql.Root, err error, pan interface{}) {
	ggql.Sort = true
	ggql.Relaxed = false
	root = ggql.NewRoot(newRootObj())
	type out struct {
		err error
		pan interface{}
	}
	ch := make(chan out, 1)
	go func() {
		var o out
		defer func() {
			if r := recover(); r != nil {
				o.pan = r
			}
			ch <- o
		}()
		o.err = root.ParseString(sdl)
	}()
	select {
	case o := <-ch:
		return root, o.err, o.pan
	case <-time.After(20 * time.Second):
		return root, nil, "hang: ParseString did not return within 20s"
	}
}

// c13Case is one (schema, mutation) pair; Kind "" = the well-formed schema itself.
type c13Case struct {
	SDL string `json:"sdl"`
	// Then: documents loaded after SDL into the same root (the offending part of a mutation arrives last)
	Then     []string  `json:"then,omitempty"`
	Mutation *Mutation `json:"mutation,omitempty"`
	Fuzzed   bool      `json:"fuzzed,omitempty"`

	runUpRefused bool // set by the check: the first document of a late form was itself refused
}

var memberDirKinds = map[string]bool{"dir-wrong-location-field": true, "dir-wrong-location-arg": true, "dir-wrong-location-inputfield": true,
	"dir-unknown-arg-field": true, "dir-uncoercible-arg-field": true}

func (c *c13Case) text() string {
	return strings.Join(append([]string{c.SDL}, c.Then...), "\n-------- next load into the same root --------\n")
}

func checkC13(c *c13Case) (ds []hx.Discrepancy, accepted bool) {
	add := func(kind, sig, format string, args ...interface{}) {
		ds = append(ds, hx.Discrepancy{Kind: kind, Sig: sig, Detail: fmt.Sprintf(format, args...)})
	}
	root, err, pan := loadFresh(c.SDL)
	if len(c.Then) > 0 && err == nil && pan == nil {
		// the first document is only the run-up: the verdict is that of the later loads
		for _, txt := range c.Then {
			func() {
				defer func() {
					if r := recover(); r != nil {
						pan = r
					}
				}()
				err = root.ParseString(txt)
			}()
			if err != nil || pan != nil {
				break
			}
		}
	} else if len(c.Then) > 0 && pan == nil {
		// the run-up itself is refused (removing the member left an ill-formed rest): not a verdict on the mutation
		c.runUpRefused = true
		return nil, false
	}
	if pan != nil {
		if c.Fuzzed {
			return // crashes on arbitrary text are C03's subject
		}
		add("panic", "", "ParseString panicked: %v\n%s", pan, c.SDL)
		return
	}
	accepted = err == nil
	switch {
	case c.Mutation == nil && !c.Fuzzed:
		if err != nil {
			add("false-reject", "", "well-formed schema rejected: %v\n%s", err, c.SDL)
			return
		}
	case c.Mutation != nil:
		m := c.Mutation
		if err == nil {
			sig := ""
			if memberDirKinds[m.Kind] {
				sig = "KF-C13-member-directives"
			}
			add("false-accept", sig, "schema violating %s was accepted\n%s", fmtMutation(*m), c.text())
		} else {
			named := false
			for _, n := range m.Names {
				if strings.Contains(err.Error(), n) {
					named = true
				}
			}
			if !named {
				sig := ""
				if strings.HasPrefix(m.Kind, "dir-uncoercible-arg") && strings.Contains(err.Error(), "can not coerce") {
					sig = "KF-C13-coercion-error-unnamed"
				}
				add("error-does-not-name-offender", sig, "violation %s was refused with an error that names none of %v: %v\n%s", fmtMutation(*m), m.Names, err, c.text())
			}
		}
	}
	if err == nil {
		// converse: whatever is accepted passes the independent re-check
		probs, _, _ := Recheck(root)
		for _, p := range probs {
			sig := ""
			if p.Member && p.Rule == "R7" {
				sig = "KF-C13-member-directives"
			}
			if c.Mutation != nil && sig == "" {
				continue // already reported as false-accept above; do not double count
			}
			if c.Mutation != nil {
				continue
			}
			add("accepted-schema-fails-recheck", sig, "%s\n%s", p, c.SDL)
		}
	}
	return
}

func fuzzText(t *rapid.T, text string) string {
	toks := []string{"{", "}", "(", ")", "[", "]", "!", ":", "=", "|", "&", "@", "\"", "\"\"\"", "type ", "extend ", "input ", "enum ", "union ", "interface ",
		"scalar ", "directive ", "schema ", "implements ", " on ", "Int", "Nope", "__x", "@skip(if: true)", "@deprecated", "@deprecated(reason: 3)", "\n", "#", ",", "@nope!", "@[nope]", "@deprecated!", "!"}
	bs := []byte(text)
	for i := 0; i < rapid.IntRange(1, 3).Draw(t, "nMut"); i++ {
		if len(bs) == 0 {
			break
		}
		pos := rapid.IntRange(0, len(bs)-1).Draw(t, fmt.Sprintf("pos%d", i))
		switch rapid.IntRange(0, 2).Draw(t, fmt.Sprintf("op%d", i)) {
		case 0:
			end := pos + rapid.IntRange(1, 12).Draw(t, fmt.Sprintf("len%d", i))
			if end > len(bs) {
				end = len(bs)
			}
			bs = append(bs[:pos:pos], bs[end:]...)
		case 1:
			tok := rapid.SampledFrom(toks).Draw(t, fmt.Sprintf("tok%d", i))
			bs = append(bs[:pos:pos], append([]byte(tok), bs[pos:]...)...)
		default:
			// duplicate a line
			lines := strings.Split(string(bs), "\n")
			li := rapid.IntRange(0, len(lines)-1).Draw(t, fmt.Sprintf("line%d", i))
			lines = append(lines[:li+1], lines[li:]...)
			bs = []byte(strings.Join(lines, "\n"))
		}
	}
	return string(bs)
}

func TestC13(t *testing.T) {
	run := hx.NewRun("C13")
	defer run.Flush()
	classes := func(c *c13Case, accepted bool) (bool, []string) {
		if c.Fuzzed {
			if accepted {
				return true, []string{"fuzzed-text-accepted(rechecked)"}
			}
			return false, []string{"fuzzed-text-rejected"}
		}
		if c.Mutation == nil {
			kinds := 0
			for _, kw := range []string{"type ", "interface ", "union ", "enum ", "input ", "scalar ", "directive ", "schema "} {
				if strings.Contains(c.SDL, kw) {
					kinds++
				}
			}
			return kinds >= 3, []string{"well-formed", fmt.Sprintf("kinds=%d", kinds)}
		}
		m := c.Mutation
		cl := []string{"mutation=" + m.Kind, "rule=" + m.Rule, m.Rule + "/" + m.Position}
		if len(c.Then) > 0 {
			cl = []string{"late-form", "late-form/" + m.Rule}
			if c.runUpRefused {
				return false, []string{"late-form-run-up-refused"}
			}
			cl = append(cl, "late-form-offender-in-last-load", "late-form="+m.Kind)
		}
		if m.Nested {
			cl = append(cl, "nested-in-wrappers")
		}
		return m.Nested || strings.HasPrefix(m.Position, "directive") || m.Position == "argument" || m.Position == "input-field" || m.Position == "enum-value" || m.Position == "interface-field", cl
	}
	one := func(fatal func(string, ...interface{}), c *c13Case) {
		ds, acc := checkC13(c)
		nt, cl := classes(c, acc)
		run.Case(hx.Hash(c), nt, cl...)
		run.Sample(func() interface{} {
			m := map[string]interface{}{"sdl": hx.Trunc(c.text(), 700), "accepted": acc}
			if c.Mutation != nil {
				m["mutation"] = fmtMutation(*c.Mutation)
			}
			return m
		})
		real := run.Triage(ds)
		if hx.Replaying() != "" {
			for _, d := range ds {
				if d.Sig != "" {
					fmt.Printf("REPLAY-KNOWN sig=%s %s\n", d.Sig, hx.Trunc(d.Detail, 300))
				}
			}
		}
		if len(real) > 0 {
			fatal("C13 violated: %s", run.ReportFailure(c, real))
		}
	}
	if f := hx.Replaying(); f != "" {
		var c c13Case
		if err := hx.LoadCase(f, &c); err != nil {
			t.Fatalf("load %s: %v", f, err)
		}
		one(func(f string, a ...interface{}) { t.Fatalf("REPLAY-FAIL "+f, a...) }, &c)
		return
	}
	rapid.Check(t, func(rt *rapid.T) {
		s := GenFull(rt, Opts{Descs: true, Directives: true, Deprecated: true})
		o := hx.SDLOpts{Commas: rapid.Bool().Draw(rt, "commas"), BlockDesc: rapid.Bool().Draw(rt, "blockDesc")}
		base := &c13Case{SDL: Render(s, nil, o)}
		one(rt.Fatalf, base)
		// every applicable single mutation of the catalogue
		for _, k := range MutationKinds {
			ms, m, ok := Mutate(rt, s, k)
			if !ok {
				run.Class("mutation-not-applicable=" + k)
				continue
			}
			mm := m
			one(rt.Fatalf, &c13Case{SDL: Render(ms, &mm, o), Mutation: &mm})
			// the same violation with the offending part arriving in a later load
			for _, docs := range LateForms(ms, &mm, o) {
				one(rt.Fatalf, &c13Case{SDL: docs[0], Then: docs[1:], Mutation: &mm})
			}
		}
		// converse on arbitrary accepted text
		for i := 0; i < 3; i++ {
			one(rt.Fatalf, &c13Case{SDL: fuzzText(rt, base.SDL), Fuzzed: true})
		}
	})
}
