// Package hx holds the shared, non-test machinery of the verification
// harness: run statistics and evidence, case (de)serialisation, the known
// findings table, schema/document models and the reference executor. Nothing in
// here shares code with ggql.
package hx

import (
	"crypto/sha1"
	"encoding/binary"
	"encoding/json"
	"fmt"
	"os"
	"sort"
	"sync"
)

// Discrepancy is one disagreement between the oracle and the code under test.
type Discrepancy struct {
	Kind   string `json:"kind"`
	Sig    string `json:"sig,omitempty"` // known-finding classifier key ("" = none applies)
	Detail string `json:"detail"`
}

func (d Discrepancy) String() string {
	if d.Sig != "" {
		return fmt.Sprintf("[%s sig=%s] %s", d.Kind, d.Sig, d.Detail)
	}
	return fmt.Sprintf("[%s] %s", d.Kind, d.Detail)
}

// Violation is what a shard reports to the driver.
type Violation struct {
	Replay  string        `json:"replay"`
	Message string        `json:"message"`
	Discs   []Discrepancy `json:"discrepancies,omitempty"`
}

// Run collects the evidence of one shard of one check.
type Run struct {
	Prop string

	mu         sync.Mutex
	out        string
	evals      int
	nt         map[uint64]struct{}
	classes    map[string]int
	excluded   map[string]int
	known      map[string]int
	samples    []interface{}
	sampleAt   int
	violations []Violation
	extra      map[string]interface{}
}

// NewRun creates the collector. VERIF_OUT names the file the shard's stats are
// written to ("" = do not write, e.g. under plain `go test`).
func NewRun(prop string) *Run {
	return &Run{
		Prop:     prop,
		out:      os.Getenv("VERIF_OUT"),
		nt:       map[uint64]struct{}{},
		classes:  map[string]int{},
		excluded: map[string]int{},
		known:    map[string]int{},
		extra:    map[string]interface{}{},
		sampleAt: 1,
	}
}

// Hash returns a 64 bit hash of the canonical JSON of v.
func Hash(v interface{}) uint64 {
	b, err := json.Marshal(v)
	if err != nil {
		b = []byte(fmt.Sprintf("%#v", v))
	}
	s := sha1.Sum(b)
	return binary.BigEndian.Uint64(s[:8])
}

// HashBytes hashes raw bytes.
func HashBytes(b []byte) uint64 {
	s := sha1.Sum(b)
	return binary.BigEndian.Uint64(s[:8])
}

// Case records one executed case.
func (r *Run) Case(hash uint64, nontrivial bool, classes ...string) {
	r.mu.Lock()
	defer r.mu.Unlock()
	r.evals++
	if nontrivial {
		r.nt[hash] = struct{}{}
	}
	for _, c := range classes {
		r.classes[c]++
	}
}

// Evals returns the number of cases so far.
func (r *Run) Evals() int {
	r.mu.Lock()
	defer r.mu.Unlock()
	return r.evals
}

// Class bumps class counters without counting a case.
func (r *Run) Class(classes ...string) {
	r.mu.Lock()
	defer r.mu.Unlock()
	for _, c := range classes {
		r.classes[c]++
	}
}

// ClassN adds n to a class counter.
func (r *Run) ClassN(c string, n int) {
	r.mu.Lock()
	defer r.mu.Unlock()
	r.classes[c] += n
}

// Excluded counts something left out by construction (with the reason as key).
func (r *Run) Excluded(reason string) {
	r.mu.Lock()
	defer r.mu.Unlock()
	r.excluded[reason]++
}

// KnownHit counts a discrepancy suppressed by an open known finding.
func (r *Run) KnownHit(id string) {
	r.mu.Lock()
	defer r.mu.Unlock()
	r.known[id]++
}

// Extra stores an arbitrary evidence key.
func (r *Run) Extra(k string, v interface{}) {
	r.mu.Lock()
	defer r.mu.Unlock()
	r.extra[k] = v
}

// Sample offers a case as evidence sample; kept at exponentially spaced
// offers so that samples come from the whole run (at most ~8).
func (r *Run) Sample(mk func() interface{}) {
	r.mu.Lock()
	defer r.mu.Unlock()
	r.sampleAt--
	if r.sampleAt > 0 || len(r.samples) >= 8 {
		return
	}
	r.samples = append(r.samples, mk())
	r.sampleAt = 1 << uint(2*len(r.samples))
}

// AddViolation records a violation (the caller then fails the test).
func (r *Run) AddViolation(v Violation) {
	r.mu.Lock()
	defer r.mu.Unlock()
	// rapid re-runs the failing property while shrinking; keep only the last
	// report per replay file.
	for i := range r.violations {
		if r.violations[i].Replay == v.Replay {
			r.violations[i] = v
			return
		}
	}
	r.violations = append(r.violations, v)
}

// FailPath is where the (shrunk) failing case of this shard is written.
func (r *Run) FailPath() string {
	if r.out == "" {
		return ""
	}
	return r.out + ".fail.json"
}

// ReportFailure writes the case to the shard's fail file (overwriting: rapid's
// last execution is the minimal case) and records the violation.
func (r *Run) ReportFailure(c interface{}, ds []Discrepancy) string {
	msg := ""
	for i, d := range ds {
		if i > 0 {
			msg += "; "
		}
		msg += d.String()
		if i == 4 {
			msg += fmt.Sprintf("; … %d more", len(ds)-5)
			break
		}
	}
	p := r.FailPath()
	if p != "" {
		b, err := json.MarshalIndent(c, "", " ")
		if err != nil {
			b = []byte(fmt.Sprintf("{\"unserialisable\": %q}", fmt.Sprintf("%#v", c)))
		}
		_ = os.WriteFile(p, b, 0o644)
	}
	r.AddViolation(Violation{Replay: p, Message: msg, Discs: ds})
	r.Flush()
	return msg
}

type statsFile struct {
	Prop       string                 `json:"prop"`
	Evals      int                    `json:"evaluations"`
	NT         []uint64               `json:"nt_hashes"`
	Classes    map[string]int         `json:"classes"`
	Excluded   map[string]int         `json:"excluded"`
	Known      map[string]int         `json:"known_finding_hits"`
	Samples    []interface{}          `json:"samples"`
	Violations []Violation            `json:"violations"`
	Extra      map[string]interface{} `json:"extra"`
}

// Flush writes the stats file. Safe to call repeatedly.
func (r *Run) Flush() {
	r.mu.Lock()
	defer r.mu.Unlock()
	if r.out == "" {
		return
	}
	sf := statsFile{
		Prop: r.Prop, Evals: r.evals, Classes: r.classes, Excluded: r.excluded,
		Known: r.known, Samples: r.samples, Violations: r.violations, Extra: r.extra,
	}
	sf.NT = make([]uint64, 0, len(r.nt))
	for h := range r.nt {
		sf.NT = append(sf.NT, h)
	}
	sort.Slice(sf.NT, func(i, j int) bool { return sf.NT[i] < sf.NT[j] })
	b, err := json.Marshal(sf)
	if err != nil {
		b = []byte(fmt.Sprintf("{\"prop\":%q,\"error\":%q}", r.Prop, err.Error()))
	}
	tmp := r.out + ".tmp"
	if os.WriteFile(tmp, b, 0o644) == nil {
		_ = os.Rename(tmp, r.out)
	}
}

// ---------------------------------------------------------------------------
// Known findings

// Finding is an entry of /verif/known_findings.json.
type Finding struct {
	ID         string   `json:"id"`
	Properties []string `json:"properties"`
	Status     string   `json:"status"` // open | fixed
	What       string   `json:"what"`
	Signature  string   `json:"signature"`
	Reproducer string   `json:"reproducer,omitempty"`
	Commit     string   `json:"commit,omitempty"`
}

var (
	knownOnce sync.Once
	knownOpen map[string]Finding // by signature
)

func loadKnown() {
	knownOpen = map[string]Finding{}
	p := os.Getenv("VERIF_KNOWN")
	if p == "" {
		p = "/verif/known_findings.json"
	}
	b, err := os.ReadFile(p)
	if err != nil {
		return
	}
	var doc struct {
		Findings []Finding `json:"findings"`
	}
	if json.Unmarshal(b, &doc) != nil {
		return
	}
	for _, f := range doc.Findings {
		if f.Status == "open" && f.Signature != "" {
			knownOpen[f.Signature] = f
		}
	}
}

// OpenFinding reports whether an open known finding with this signature is
// listed for the property. Fixed entries and unlisted signatures return false.
func OpenFinding(prop, sig string) (Finding, bool) {
	knownOnce.Do(loadKnown)
	if sig == "" {
		return Finding{}, false
	}
	f, ok := knownOpen[sig]
	if !ok {
		return Finding{}, false
	}
	for _, p := range f.Properties {
		if p == prop {
			return f, true
		}
	}
	return Finding{}, false
}

// Triage splits discrepancies into those covered by open known findings (which
// are counted) and real ones.
func (r *Run) Triage(ds []Discrepancy) (real []Discrepancy) {
	for _, d := range ds {
		if f, ok := OpenFinding(r.Prop, d.Sig); ok {
			r.KnownHit(f.ID)
			continue
		}
		real = append(real, d)
	}
	return
}

// Replaying returns the file to replay ("" = generate).
func Replaying() string { return os.Getenv("VERIF_REPLAY") }

// LoadCase reads a JSON case file into v.
func LoadCase(path string, v interface{}) error {
	b, err := os.ReadFile(path)
	if err != nil {
		return err
	}
	return json.Unmarshal(b, v)
}
