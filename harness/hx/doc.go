package hx

import (
	"strings"
)

// Sel is a selection: field, inline fragment or fragment spread.
type Sel struct {
	Kind  string   `json:"kind"` // field | inline | spread
	Alias string   `json:"alias,omitempty"`
	Name  string   `json:"name,omitempty"` // field name or spread fragment name
	Args  []KV     `json:"args,omitempty"`
	Dirs  []DirUse `json:"dirs,omitempty"`
	On    string   `json:"on,omitempty"` // inline type condition ("" = none)
	Sels  []*Sel   `json:"sels,omitempty"`
	ID    int      `json:"id"`
}

// Key is the response key of a field selection.
func (s *Sel) Key() string {
	if s.Alias != "" {
		return s.Alias
	}
	return s.Name
}

// Arg returns the argument value.
func (s *Sel) Arg(name string) (Val, bool) {
	for _, kv := range s.Args {
		if kv.Key == name {
			return kv.V, true
		}
	}
	return Val{}, false
}

// VarDef is a variable definition.
type VarDef struct {
	Name    string `json:"name"`
	Type    *TRef  `json:"type"`
	Default *Val   `json:"default,omitempty"`
}

// Op is an operation.
type Op struct {
	Type string    `json:"type"` // query | mutation | subscription
	Name string    `json:"name,omitempty"`
	Anon bool      `json:"anon,omitempty"` // written in the short form `{ ... }` (query, no name)
	Vars []*VarDef `json:"vars,omitempty"`
	Dirs []DirUse  `json:"dirs,omitempty"`
	Sels []*Sel    `json:"sels"`
}

// Frag is a named fragment definition.
type Frag struct {
	Name string   `json:"name"`
	On   string   `json:"on"`
	Dirs []DirUse `json:"dirs,omitempty"`
	Sels []*Sel   `json:"sels"`
}

// Doc is an executable document. Order lists definitions: "o<i>" / "f<i>".
type Doc struct {
	Ops   []*Op    `json:"ops"`
	Frags []*Frag  `json:"frags,omitempty"`
	Order []string `json:"order,omitempty"`
}

func (d *Doc) Frag(name string) *Frag {
	for _, f := range d.Frags {
		if f.Name == name {
			return f
		}
	}
	return nil
}

func (d *Doc) Op(name string) *Op {
	for _, o := range d.Ops {
		if o.Name == name {
			return o
		}
	}
	return nil
}

// Number assigns pre-order ids to all selections and returns the count.
func (d *Doc) Number() int {
	n := 0
	var walk func(ss []*Sel)
	walk = func(ss []*Sel) {
		for _, s := range ss {
			n++
			s.ID = n
			walk(s.Sels)
		}
	}
	for _, o := range d.Ops {
		walk(o.Sels)
	}
	for _, f := range d.Frags {
		walk(f.Sels)
	}
	return n
}

// Walk visits every selection.
func (d *Doc) Walk(fn func(s *Sel, depth int)) {
	var walk func(ss []*Sel, depth int)
	walk = func(ss []*Sel, depth int) {
		for _, s := range ss {
			fn(s, depth)
			walk(s.Sels, depth+1)
		}
	}
	for _, o := range d.Ops {
		walk(o.Sels, 1)
	}
	for _, f := range d.Frags {
		walk(f.Sels, 1)
	}
}

// Layout selects how the same document is written out.
type Layout struct {
	Mode     string `json:"mode"` // single | pretty | argline
	CRLF     bool   `json:"crlf,omitempty"`
	Comments bool   `json:"comments,omitempty"`
	Commas   bool   `json:"commas,omitempty"`
	BOM      bool   `json:"bom,omitempty"`
	Indent   int    `json:"indent,omitempty"`
	// HeaderNL: the name of a named operation is the last thing on its line (variable definitions,
	// directives and the selection set start on the next one)
	HeaderNL bool `json:"header_nl,omitempty"`
	// FragSplit (not in single line mode): the keyword of a fragment definition is followed by a blank
	// (1) or a comment (2) and the name stands, far to the right, on the next line
	FragSplit int `json:"frag_split,omitempty"`
}

// Span is the region of a selection's own tokens (alias/name/arguments/directives).
type Span struct {
	Line, Col int // of the first token
	EndLine   int
}

// Rendered is the text plus token positions.
type Rendered struct {
	Text  string
	Spans map[int]Span    // selection id -> span
	Ops   map[string]Span // operation name -> span of its header
	Vars  map[string]Span // "<op>/<var>" -> span of the variable definition
	Lens  []int           // byte length of each line (without terminator)
}

type docWriter struct {
	b         strings.Builder
	line, col int
	lay       Layout
	nl        string
	ncomment  int
}

func (w *docWriter) raw(s string) {
	for i := 0; i < len(s); i++ {
		if s[i] == '\n' {
			w.line++
			w.col = 1
		} else {
			w.col++
		}
	}
	w.b.WriteString(s)
}

func (w *docWriter) newline(depth int) {
	if w.lay.Mode == "single" {
		w.raw(" ")
		return
	}
	if w.lay.Comments {
		w.ncomment++
		if w.ncomment%3 == 0 {
			w.raw(" # c" + strings.Repeat("x", w.ncomment%5))
		}
	}
	w.raw(w.nl)
	ind := w.lay.Indent
	if ind == 0 {
		ind = 2
	}
	w.raw(strings.Repeat(" ", depth*ind))
}

func (w *docWriter) sep() string {
	if w.lay.Commas {
		return ", "
	}
	return " "
}

func (w *docWriter) dirs(ds []DirUse) {
	for _, d := range ds {
		w.raw(" @" + d.Name)
		if len(d.Args) > 0 {
			w.raw("(")
			for i, kv := range d.Args {
				if i > 0 {
					w.raw(w.sep())
				}
				w.raw(kv.Key + ": " + ValueSDL(kv.V))
			}
			w.raw(")")
		}
	}
}

func (w *docWriter) args(args []KV, depth int) {
	if len(args) == 0 {
		return
	}
	w.raw("(")
	for i, kv := range args {
		if w.lay.Mode == "argline" {
			if i > 0 && w.lay.Commas {
				w.raw(",")
			}
			w.newline(depth + 2)
		} else if i > 0 {
			w.raw(w.sep())
		}
		w.raw(kv.Key + ": " + ValueSDL(kv.V))
	}
	if w.lay.Mode == "argline" {
		w.newline(depth + 1)
	}
	w.raw(")")
}

func (w *docWriter) sels(ss []*Sel, depth int, r *Rendered) {
	w.raw("{")
	for i, s := range ss {
		if i > 0 && w.lay.Commas {
			w.raw(",")
		}
		w.newline(depth + 1)
		sp := Span{Line: w.line, Col: w.col}
		switch s.Kind {
		case "field":
			if s.Alias != "" {
				w.raw(s.Alias + ": ")
			}
			w.raw(s.Name)
			w.args(s.Args, depth)
			w.dirs(s.Dirs)
		case "inline":
			w.raw("...")
			if s.On != "" {
				w.raw(" on " + s.On)
			}
			w.dirs(s.Dirs)
		case "spread":
			w.raw("..." + s.Name)
			w.dirs(s.Dirs)
		}
		sp.EndLine = w.line
		r.Spans[s.ID] = sp
		if len(s.Sels) > 0 {
			w.raw(" ")
			w.sels(s.Sels, depth+1, r)
		}
	}
	w.newline(depth)
	w.raw("}")
}

// Render writes the document in the given layout.
func (d *Doc) Render(lay Layout) *Rendered {
	r := &Rendered{Spans: map[int]Span{}, Ops: map[string]Span{}, Vars: map[string]Span{}}
	w := &docWriter{line: 1, col: 1, lay: lay, nl: "\n"}
	if lay.CRLF {
		w.nl = "\r\n"
	}
	if lay.BOM {
		w.b.WriteString("\xEF\xBB\xBF")
		w.col += 3
	}
	order := d.Order
	if len(order) == 0 {
		for i := range d.Ops {
			order = append(order, "o"+itoa(i))
		}
		for i := range d.Frags {
			order = append(order, "f"+itoa(i))
		}
	}
	for n, key := range order {
		if n > 0 {
			if lay.Mode == "single" {
				w.raw(" ")
			} else {
				w.raw(w.nl)
			}
		}
		idx := atoi(key[1:])
		if key[0] == 'o' {
			o := d.Ops[idx]
			sp := Span{Line: w.line, Col: w.col}
			if !(o.Anon && o.Type == "query" && o.Name == "" && len(o.Vars) == 0 && len(o.Dirs) == 0) {
				w.raw(o.Type)
				if o.Name != "" {
					w.raw(" " + o.Name)
					if lay.HeaderNL {
						w.raw(w.nl)
					}
				}
				if len(o.Vars) > 0 {
					w.raw("(")
					for i, v := range o.Vars {
						if i > 0 {
							w.raw(w.sep())
						}
						vs := Span{Line: w.line, Col: w.col}
						w.raw("$" + v.Name + ": " + v.Type.String())
						if v.Default != nil {
							w.raw(" = " + ValueSDL(*v.Default))
						}
						vs.EndLine = w.line
						r.Vars[o.Name+"/"+v.Name] = vs
					}
					w.raw(")")
				}
				w.dirs(o.Dirs)
				w.raw(" ")
			}
			sp.EndLine = w.line
			r.Ops[o.Name] = sp
			w.sels(o.Sels, 0, r)
		} else {
			f := d.Frags[idx]
			if lay.FragSplit > 0 && lay.Mode != "single" {
				w.raw(map[int]string{1: "fragment ", 2: "fragment # named below"}[lay.FragSplit] + w.nl + "                    " + f.Name + " on " + f.On)
			} else {
				w.raw("fragment " + f.Name + " on " + f.On)
			}
			w.dirs(f.Dirs)
			w.raw(" ")
			w.sels(f.Sels, 0, r)
		}
	}
	if lay.Mode != "single" {
		w.raw(w.nl)
	}
	r.Text = w.b.String()
	for _, ln := range strings.Split(r.Text, "\n") {
		r.Lens = append(r.Lens, len(strings.TrimSuffix(ln, "\r")))
	}
	return r
}

func itoa(i int) string {
	if i == 0 {
		return "0"
	}
	s := ""
	for i > 0 {
		s = string(rune('0'+i%10)) + s
		i /= 10
	}
	return s
}

func atoi(s string) int {
	n := 0
	for _, c := range s {
		n = n*10 + int(c-'0')
	}
	return n
}
