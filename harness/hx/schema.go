package hx

import (
	"sort"
	"strconv"
	"strings"
)

// TRef is a type expression: a named type or a list, optionally non-null.
type TRef struct {
	Name    string `json:"name,omitempty"`
	List    *TRef  `json:"list,omitempty"`
	NonNull bool   `json:"nn,omitempty"`
}

func Named(n string) *TRef { return &TRef{Name: n} }
func ListOf(e *TRef) *TRef { return &TRef{List: e} }
func (t *TRef) NN() *TRef  { c := *t; c.NonNull = true; return &c }
func (t *TRef) Nullable() *TRef {
	c := *t
	c.NonNull = false
	return &c
}

func (t *TRef) String() string {
	var s string
	if t.List != nil {
		s = "[" + t.List.String() + "]"
	} else {
		s = t.Name
	}
	if t.NonNull {
		s += "!"
	}
	return s
}

// BaseName is the innermost named type.
func (t *TRef) BaseName() string {
	for t.List != nil {
		t = t.List
	}
	return t.Name
}

// Depth is the number of list wrappers.
func (t *TRef) Depth() int {
	d := 0
	for t.List != nil {
		d++
		t = t.List
	}
	return d
}

// Wrappers counts list and non-null wrappers.
func (t *TRef) Wrappers() int {
	n := 0
	for t != nil {
		if t.NonNull {
			n++
		}
		if t.List != nil {
			n++
		}
		t = t.List
	}
	return n
}

func (t *TRef) Equal(o *TRef) bool {
	if t == nil || o == nil {
		return t == o
	}
	if t.NonNull != o.NonNull || t.Name != o.Name || (t.List == nil) != (o.List == nil) {
		return false
	}
	if t.List != nil {
		return t.List.Equal(o.List)
	}
	return true
}

func (t *TRef) Clone() *TRef {
	if t == nil {
		return nil
	}
	c := *t
	c.List = t.List.Clone()
	return &c
}

// DirUse is a directive application.
type DirUse struct {
	Name string `json:"name"`
	Args []KV   `json:"args,omitempty"`
}

// Arg is an argument definition or an input field.
type Arg struct {
	Name    string   `json:"name"`
	Desc    string   `json:"desc,omitempty"`
	Type    *TRef    `json:"type"`
	Default *Val     `json:"default,omitempty"`
	Dirs    []DirUse `json:"dirs,omitempty"`
}

// Field is an output field definition.
type Field struct {
	Name string   `json:"name"`
	Desc string   `json:"desc,omitempty"`
	Args []*Arg   `json:"args,omitempty"`
	Type *TRef    `json:"type"`
	Dirs []DirUse `json:"dirs,omitempty"`
}

func (f *Field) Arg(name string) *Arg {
	for _, a := range f.Args {
		if a.Name == name {
			return a
		}
	}
	return nil
}

// Deprecated returns whether the field carries @deprecated.
func (f *Field) Deprecated() bool { return hasDir(f.Dirs, "deprecated") }

func hasDir(ds []DirUse, name string) bool {
	for _, d := range ds {
		if d.Name == name {
			return true
		}
	}
	return false
}

// EnumValue is one enum member.
type EnumValue struct {
	Name string   `json:"name"`
	Desc string   `json:"desc,omitempty"`
	Dirs []DirUse `json:"dirs,omitempty"`
}

// Kinds of TypeDef.
const (
	KObject    = "object"
	KInterface = "interface"
	KUnion     = "union"
	KEnum      = "enum"
	KInput     = "input"
	KScalar    = "scalar"
)

// TypeDef is a named type definition.
type TypeDef struct {
	Kind       string       `json:"kind"`
	Name       string       `json:"name"`
	Desc       string       `json:"desc,omitempty"`
	Interfaces []string     `json:"interfaces,omitempty"`
	Fields     []*Field     `json:"fields,omitempty"`
	Members    []string     `json:"members,omitempty"`
	Values     []*EnumValue `json:"values,omitempty"`
	Inputs     []*Arg       `json:"inputs,omitempty"`
	Dirs       []DirUse     `json:"dirs,omitempty"`
}

func (t *TypeDef) Field(name string) *Field {
	for _, f := range t.Fields {
		if f.Name == name {
			return f
		}
	}
	return nil
}

func (t *TypeDef) Input(name string) *Arg {
	for _, f := range t.Inputs {
		if f.Name == name {
			return f
		}
	}
	return nil
}

func (t *TypeDef) HasValue(name string) bool {
	for _, v := range t.Values {
		if v.Name == name {
			return true
		}
	}
	return false
}

func (t *TypeDef) Implements(i string) bool {
	for _, n := range t.Interfaces {
		if n == i {
			return true
		}
	}
	return false
}

func (t *TypeDef) HasMember(m string) bool {
	for _, n := range t.Members {
		if n == m {
			return true
		}
	}
	return false
}

// DirDef is a directive definition.
type DirDef struct {
	Name string   `json:"name"`
	Desc string   `json:"desc,omitempty"`
	Args []*Arg   `json:"args,omitempty"`
	On   []string `json:"on"`
}

// Schema is the harness' own schema model.
type Schema struct {
	Types []*TypeDef `json:"types"`
	Dirs  []*DirDef  `json:"directives,omitempty"`
	// Roots is the explicit schema block (operation -> type name); nil = implicit.
	Roots    map[string]string `json:"roots,omitempty"`
	RootDirs []DirUse          `json:"root_dirs,omitempty"`
	// ExtRoots: operation roots added to an implicit schema (Roots == nil) with 'extend schema {...}'
	ExtRoots map[string]string `json:"ext_roots,omitempty"`
	// ExtRootDirs: directive uses an implicit schema (Roots == nil) is given with 'extend schema @d {...}'
	ExtRootDirs []DirUse `json:"ext_root_dirs,omitempty"`
	// RootDescs: descriptions of the operation fields of the schema block (explicit, or the extension
	// of an implied one), by operation
	RootDescs map[string]string `json:"root_descs,omitempty"`
}

func (s *Schema) Type(name string) *TypeDef {
	for _, t := range s.Types {
		if t.Name == name {
			return t
		}
	}
	return nil
}

func (s *Schema) Dir(name string) *DirDef {
	for _, d := range s.Dirs {
		if d.Name == name {
			return d
		}
	}
	return nil
}

// RootType returns the type name of an operation root ("query", "mutation", "subscription").
func (s *Schema) RootType(op string) string {
	if s.Roots != nil {
		return s.Roots[op]
	}
	if s.ExtRoots[op] != "" {
		return s.ExtRoots[op]
	}
	n := strings.ToUpper(op[:1]) + op[1:]
	if s.Type(n) != nil {
		return n
	}
	return ""
}

// BuiltinScalars are the scalars ggql predefines.
var BuiltinScalars = []string{"String", "Int", "Float", "Boolean", "ID", "Int64", "Float64", "Time"}

func IsBuiltinScalar(n string) bool {
	for _, s := range BuiltinScalars {
		if s == n {
			return true
		}
	}
	return false
}

// KindOf returns the kind of a named type ("scalar" for built-ins, "" if unknown).
func (s *Schema) KindOf(name string) string {
	if IsBuiltinScalar(name) {
		return KScalar
	}
	if t := s.Type(name); t != nil {
		return t.Kind
	}
	return ""
}

// IsComposite reports object/interface/union.
func (s *Schema) IsComposite(name string) bool {
	switch s.KindOf(name) {
	case KObject, KInterface, KUnion:
		return true
	}
	return false
}

// PossibleTypes lists the concrete object types of a named composite type (sorted).
func (s *Schema) PossibleTypes(name string) []string {
	var out []string
	switch s.KindOf(name) {
	case KObject:
		out = []string{name}
	case KInterface:
		for _, t := range s.Types {
			if t.Kind == KObject && t.Implements(name) {
				out = append(out, t.Name)
			}
		}
	case KUnion:
		out = append(out, s.Type(name).Members...)
	}
	sort.Strings(out)
	return out
}

// Applies reports whether a fragment with type condition cond applies to an
// object of concrete type obj (cond "" = always).
func (s *Schema) Applies(cond, obj string) bool {
	if cond == "" || cond == obj {
		return true
	}
	switch s.KindOf(cond) {
	case KInterface:
		if t := s.Type(obj); t != nil {
			return t.Implements(cond)
		}
	case KUnion:
		return s.Type(cond).HasMember(obj)
	}
	return false
}

// ---------------------------------------------------------------------------
// SDL printer

// SDLOpts controls the arrangement-independent rendering details.
type SDLOpts struct {
	BlockDesc bool // always use block strings for descriptions
	Commas    bool // commas between arguments / fields
}

// EscapeString renders a GraphQL single-line string literal.
func EscapeString(s string) string {
	var b strings.Builder
	b.WriteByte('"')
	for _, r := range s {
		switch r {
		case '"':
			b.WriteString(`\"`)
		case '\\':
			b.WriteString(`\\`)
		case '\n':
			b.WriteString(`\n`)
		case '\r':
			b.WriteString(`\r`)
		case '\t':
			b.WriteString(`\t`)
		case '\b':
			b.WriteString(`\b`)
		case '\f':
			b.WriteString(`\f`)
		default:
			if r < 0x20 {
				b.WriteString(`\u00`)
				b.WriteByte("0123456789abcdef"[r>>4])
				b.WriteByte("0123456789abcdef"[r&15])
			} else {
				b.WriteRune(r)
			}
		}
	}
	b.WriteByte('"')
	return b.String()
}

// ValueSDL renders a Val as a GraphQL literal.
func ValueSDL(v Val) string {
	switch v.K {
	case "", "nil":
		return "null"
	case "bool", "int", "int8", "int16", "int32", "int64", "uint", "uint8", "uint16", "uint32", "uint64":
		return v.S
	case "float32", "float64":
		s := v.S
		if !strings.ContainsAny(s, ".eE") {
			s += ".0"
		}
		return s
	case "string", "time":
		return EscapeString(v.S)
	case "symbol":
		return v.S
	case "var":
		return "$" + v.S
	case "list":
		parts := make([]string, len(v.L))
		for i, e := range v.L {
			parts[i] = ValueSDL(e)
		}
		return "[" + strings.Join(parts, ", ") + "]"
	case "map":
		parts := make([]string, len(v.M))
		for i, kv := range v.M {
			parts[i] = kv.Key + ": " + ValueSDL(kv.V)
		}
		return "{" + strings.Join(parts, ", ") + "}"
	}
	return strconv.Quote(v.S)
}

func descSDL(desc, indent string, o SDLOpts) string {
	if desc == "" {
		return ""
	}
	if o.BlockDesc || strings.Contains(desc, "\n") {
		// block string: the sequence """ needs escaping; ggql's reader also processes backslash
		// escapes inside block strings, so a backslash is written doubled (ggql's dialect)
		body := strings.ReplaceAll(desc, `\`, `\\`)
		body = strings.ReplaceAll(body, `"""`, `\"""`)
		lines := strings.Split(body, "\n")
		return indent + `"""` + "\n" + indent + strings.Join(lines, "\n"+indent) + "\n" + indent + `"""` + "\n"
	}
	return indent + EscapeString(desc) + "\n"
}

func dirsSDL(ds []DirUse) string {
	var b strings.Builder
	for _, d := range ds {
		b.WriteString(" @" + d.Name)
		if len(d.Args) > 0 {
			parts := make([]string, len(d.Args))
			for i, kv := range d.Args {
				parts[i] = kv.Key + ": " + ValueSDL(kv.V)
			}
			b.WriteString("(" + strings.Join(parts, ", ") + ")")
		}
	}
	return b.String()
}

func argsSDL(args []*Arg, o SDLOpts) string {
	if len(args) == 0 {
		return ""
	}
	parts := make([]string, len(args))
	for i, a := range args {
		s := ""
		if a.Desc != "" {
			s = EscapeString(a.Desc) + " "
		}
		s += a.Name + ": " + a.Type.String()
		if a.Default != nil {
			s += " = " + ValueSDL(*a.Default)
		}
		s += dirsSDL(a.Dirs)
		parts[i] = s
	}
	sep := " "
	if o.Commas {
		sep = ", "
	}
	return "(" + strings.Join(parts, sep) + ")"
}

// FieldSDL renders one field definition line (with description).
func FieldSDL(f *Field, o SDLOpts) string {
	return descSDL(f.Desc, "  ", o) + "  " + f.Name + argsSDL(f.Args, o) + ": " + f.Type.String() + dirsSDL(f.Dirs) + "\n"
}

// InputFieldSDL renders one input field line.
func InputFieldSDL(a *Arg, o SDLOpts) string {
	s := descSDL(a.Desc, "  ", o) + "  " + a.Name + ": " + a.Type.String()
	if a.Default != nil {
		s += " = " + ValueSDL(*a.Default)
	}
	return s + dirsSDL(a.Dirs) + "\n"
}

// EnumValueSDL renders one enum value line.
func EnumValueSDL(v *EnumValue, o SDLOpts) string {
	return descSDL(v.Desc, "  ", o) + "  " + v.Name + dirsSDL(v.Dirs) + "\n"
}

// TypeSDL renders a type definition; prefix is "" or "extend ".
func TypeSDL(t *TypeDef, prefix string, o SDLOpts) string {
	var b strings.Builder
	if prefix == "" {
		b.WriteString(descSDL(t.Desc, "", o))
	}
	b.WriteString(prefix)
	switch t.Kind {
	case KScalar:
		b.WriteString("scalar " + t.Name + dirsSDL(t.Dirs) + "\n")
	case KUnion:
		b.WriteString("union " + t.Name + dirsSDL(t.Dirs) + " = " + strings.Join(t.Members, " | ") + "\n")
	case KEnum:
		b.WriteString("enum " + t.Name + dirsSDL(t.Dirs) + " {\n")
		for _, v := range t.Values {
			b.WriteString(EnumValueSDL(v, o))
		}
		b.WriteString("}\n")
	case KInput:
		b.WriteString("input " + t.Name + dirsSDL(t.Dirs) + " {\n")
		for _, f := range t.Inputs {
			b.WriteString(InputFieldSDL(f, o))
		}
		b.WriteString("}\n")
	case KObject, KInterface:
		kw := "type "
		if t.Kind == KInterface {
			kw = "interface "
		}
		b.WriteString(kw + t.Name)
		if len(t.Interfaces) > 0 {
			b.WriteString(" implements " + strings.Join(t.Interfaces, " & "))
		}
		b.WriteString(dirsSDL(t.Dirs) + " {\n")
		for _, f := range t.Fields {
			b.WriteString(FieldSDL(f, o))
		}
		b.WriteString("}\n")
	}
	return b.String()
}

// DirDefSDL renders a directive definition.
func DirDefSDL(d *DirDef, o SDLOpts) string {
	return descSDL(d.Desc, "", o) + "directive @" + d.Name + argsSDL(d.Args, o) + " on " + strings.Join(d.On, " | ") + "\n"
}

// RootsSDL renders the schema block ("" when implicit).
func (s *Schema) RootsSDL() string {
	if s.Roots == nil {
		return ""
	}
	var b strings.Builder
	b.WriteString("schema" + dirsSDL(s.RootDirs) + " {\n")
	for _, op := range []string{"query", "mutation", "subscription"} {
		if n := s.Roots[op]; n != "" {
			b.WriteString(descSDL(s.RootDescs[op], "  ", SDLOpts{}))
			b.WriteString("  " + op + ": " + n + "\n")
		}
	}
	b.WriteString("}\n")
	return b.String()
}

// SDL renders the whole schema in definition order.
func (s *Schema) SDL(o SDLOpts) string {
	var b strings.Builder
	b.WriteString(s.RootsSDL())
	for _, d := range s.Dirs {
		b.WriteString(DirDefSDL(d, o))
	}
	for _, t := range s.Types {
		b.WriteString(TypeSDL(t, "", o))
	}
	b.WriteString(s.ExtRootsSDL())
	return b.String()
}

// ExtRootsSDL renders the extension of the implicit schema ("" when there is none).
func (s *Schema) ExtRootsSDL() string {
	if len(s.ExtRoots) == 0 && len(s.ExtRootDirs) == 0 {
		return ""
	}
	var b strings.Builder
	b.WriteString("extend schema" + dirsSDL(s.ExtRootDirs) + " {\n")
	for _, op := range []string{"query", "mutation", "subscription"} {
		if n := s.ExtRoots[op]; n != "" {
			b.WriteString(descSDL(s.RootDescs[op], "  ", SDLOpts{}))
			b.WriteString("  " + op + ": " + n + "\n")
		}
	}
	b.WriteString("}\n")
	return b.String()
}
