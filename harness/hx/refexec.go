package hx

import (
	"fmt"
	"math"
	"regexp"
	"sort"
	"strconv"
	"strings"
	"time"
)

// Node is one object of the data graph.
type Node struct {
	ID   int            `json:"id"`
	Type string         `json:"type"` // concrete object type ("" for the schema-level root node)
	F    map[string]Val `json:"f"`
	// Hidden: members that the data layer holds for a list field whose value (in F) is the empty
	// list - what the application shows is F. Only a root (any) resolver makes use of it: it hands
	// out a Go slice holding these members and answers 0 when asked for its length.
	Hidden map[string]Val `json:"hidden,omitempty"`
}

// Graph is the neutral data graph behind the resolvers. Nodes[Root] is the
// schema-level root object whose fields are "query" / "mutation" / "subscription".
type Graph struct {
	Nodes []*Node `json:"nodes"`
	Root  int     `json:"root"`
}

// Fault makes the resolver invocation (node, field) fail.
type Fault struct {
	Node  int    `json:"node"`
	Field string `json:"field"`
	// Kind: "err" plain error; "group" ggql.Errors with N members; "wgroup" the same wrapped with %w; "ext" *ggql.Error with extensions; "lext" one with a line and column of its own (wrapped when N is odd); "valerr" the value is returned as usual, together with a plain error;
	// "nth" the Any-list accessor fails at element Index of the list held by (node, field); with N == 1 it returns the member together with the error.
	Kind  string `json:"kind"`
	N     int    `json:"n,omitempty"`
	Index int    `json:"index,omitempty"`
	Msg   string `json:"msg,omitempty"` // error text (hostile strings for the envelope check)
	// Call > 0: only the Call-th invocation of (node, field) within the request fails (the same
	// field of the same object reached twice: through a repeated response key, a shared node).
	Call int `json:"call,omitempty"`
	// Same: the members of a group all carry the same text (they are still one failure each)
	Same bool `json:"same,omitempty"`
}

func faultKey(node int, field string) string { return strconv.Itoa(node) + "/" + field }

// ExpErr is one expected error entry.
type ExpErr struct {
	Path []interface{} `json:"path"`
	Kind string        `json:"kind"` // fault kind or "coerce"
	Sel  int           `json:"sel"`  // id of the field selection the failure belongs to
}

// PathString renders a path like a.0.b.
func PathString(p []interface{}) string {
	parts := make([]string, len(p))
	for i, e := range p {
		parts[i] = fmt.Sprintf("%v", e)
	}
	return strings.Join(parts, ".")
}

// Expect is what the reference executor predicts.
type Expect struct {
	// Nulled lists path prefixes ("a.b.") beneath a position that an earlier selection of the
	// response key filled and a later, failing selection of the same key turned into null: failures
	// that happened inside the discarded value may or may not be listed.
	Nulled   []string
	Rejected bool // no operation could be chosen: nothing executes
	Data     interface{}
	Errors   []ExpErr
	// Calls are the resolver invocations that may happen: "node/field" -> count of occurrences.
	Calls map[string]int
	// Borderline lists data paths whose leaf value is only shape-checked.
	Borderline map[string]string
	BorderPath map[string][]interface{}
	BorderN    map[string]int // occurrences (the same key may be selected more than once)
	// Seen counts, per selection id, how often the selection was evaluated on an object
	// (after @skip/@include and fragment applicability).
	Seen map[int]int
	// Undefined lists evaluations of a field selection on a node whose type does not define the field.
	Undefined []UndefEval
	// BadEnum: paths where the resolver returned a name the enum does not declare.
	BadEnum map[string]BadEnumInfo
	// Traits observed while executing (for non-triviality rules and class counters).
	T Traits
}

// UndefEval is one evaluation of an undefined field.
type UndefEval struct {
	Node int
	Sel  int
}

// BadEnumInfo describes an undeclared enum name returned by a resolver.
type BadEnumInfo struct {
	Path  []interface{}
	Value string
}

// Traits are facts about what an execution touched.
type Traits struct {
	MaxDepth     int
	MaxLevels    int // deepest leaf counted in object and list levels (what ggql's depth limit counts)
	Aliases      int
	Inline       int
	Spread       int
	ListFields   int
	ListOfList   int
	NullSeen     int
	NullElem     int
	EmptyList    int
	Revisit      int // a node resolved more than once (sharing / cycle)
	Typename     int
	Skipped      int
	Merged       int
	AbstractHops int
	FragMismatch int // fragment whose condition is not the static container type but applies
	FragNoApply  int
	Fields       int
	LeafBad      int
	LeafBorder   int
	ArgsSeen     int
}

// Exec is the reference executor: GraphQL selection semantics plus the error
// model the properties state (a failed position is null, siblings keep their
// values, one entry per failure).
type Exec struct {
	levels int
	S      *Schema
	G      *Graph
	D      *Doc
	Faults []Fault
	// Echo: String fields with arguments return base+"|"+CanonArgs(args) (mirrors the fixtures).
	Echo bool
	// Compute, when set, gives the value of computed (method backed) fields from the arguments.
	Compute func(n *Node, fd *Field, args map[string]interface{}) (Val, bool)
	// ComputeFault, when set, says how a computed field fails for these arguments: "" (it does
	// not), "err" (no value and an error) or "valerr" (a value together with an error).
	ComputeFault func(n *Node, fd *Field, args map[string]interface{}) string

	vars    map[string]Val
	faults  map[string]Fault
	out     *Expect
	visited map[int]int
}

// ChooseOp implements the stated operation choice.
func ChooseOp(d *Doc, opName string) *Op {
	if opName != "" {
		return d.Op(opName)
	}
	if len(d.Ops) == 1 {
		return d.Ops[0]
	}
	return nil
}

// EffectiveVars merges supplied variables with the operation's defaults.
func EffectiveVars(op *Op, vars map[string]Val) map[string]Val {
	eff := map[string]Val{}
	for _, vd := range op.Vars {
		if v, ok := vars[vd.Name]; ok && !v.IsNil() {
			eff[vd.Name] = v
		} else if vd.Default != nil {
			eff[vd.Name] = *vd.Default
		} else {
			eff[vd.Name] = Nil()
		}
	}
	return eff
}

// Run executes the named operation.
func (x *Exec) Run(opName string, vars map[string]Val) *Expect {
	x.out = &Expect{Calls: map[string]int{}, Borderline: map[string]string{}, BorderPath: map[string][]interface{}{}, BorderN: map[string]int{}, Seen: map[int]int{}, BadEnum: map[string]BadEnumInfo{}}
	x.faults = map[string]Fault{}
	for _, f := range x.Faults {
		x.faults[faultKey(f.Node, f.Field)] = f
	}
	x.visited = map[int]int{}
	x.levels = 0
	op := ChooseOp(x.D, opName)
	if op == nil {
		x.out.Rejected = true
		return x.out
	}
	x.vars = EffectiveVars(op, vars)
	root := x.G.Nodes[x.G.Root]
	x.out.Calls[faultKey(root.ID, op.Type)]++
	rv, ok := root.F[op.Type]
	if !ok || rv.IsNil() {
		x.out.Data = nil
		return x.out
	}
	n := x.G.Nodes[rv.RefID()]
	m := map[string]interface{}{}
	x.selSet(n, op.Sels, m, nil, 1)
	x.out.Data = m
	return x.out
}

// RunSelection applies a selection set to one node (what a subscription delivers for an event).
func (x *Exec) RunSelection(n *Node, sels []*Sel, vars map[string]Val) *Expect {
	x.out = &Expect{Calls: map[string]int{}, Borderline: map[string]string{}, BorderPath: map[string][]interface{}{}, BorderN: map[string]int{}, Seen: map[int]int{}, BadEnum: map[string]BadEnumInfo{}}
	x.faults = map[string]Fault{}
	for _, f := range x.Faults {
		x.faults[faultKey(f.Node, f.Field)] = f
	}
	x.visited = map[int]int{}
	x.levels = 0
	x.vars = vars
	if x.vars == nil {
		x.vars = map[string]Val{}
	}
	m := map[string]interface{}{}
	x.selSet(n, sels, m, nil, 1)
	x.out.Data = m
	return x.out
}

func (x *Exec) boolArg(d DirUse) (bool, bool) {
	for _, kv := range d.Args {
		if kv.Key == "if" {
			v := kv.V
			if v.K == "var" {
				v = x.vars[v.S]
			}
			if v.K == "bool" {
				return v.S == "true", true
			}
			return false, false
		}
	}
	return false, false
}

// Excluded implements: present iff no @skip(true) and no @include(false).
func (x *Exec) Excluded(dirs []DirUse) bool {
	for _, d := range dirs {
		switch d.Name {
		case "skip":
			if b, ok := x.boolArg(d); ok && b {
				return true
			}
		case "include":
			if b, ok := x.boolArg(d); ok && !b {
				return true
			}
		}
	}
	return false
}

func (x *Exec) selSet(n *Node, sels []*Sel, out map[string]interface{}, path []interface{}, depth int) {
	if depth > x.out.T.MaxDepth {
		x.out.T.MaxDepth = depth
	}
	td := x.S.Type(n.Type)
	for _, s := range sels {
		if x.Excluded(s.Dirs) {
			x.out.T.Skipped++
			continue
		}
		x.out.Seen[s.ID]++
		switch s.Kind {
		case "inline":
			x.out.T.Inline++
			if x.S.Applies(s.On, n.Type) {
				if s.On != "" && s.On != n.Type {
					x.out.T.FragMismatch++
				}
				x.selSet(n, s.Sels, out, path, depth)
			} else {
				x.out.T.FragNoApply++
			}
		case "spread":
			x.out.T.Spread++
			f := x.D.Frag(s.Name)
			if f == nil {
				continue
			}
			if x.S.Applies(f.On, n.Type) {
				if f.On != n.Type {
					x.out.T.FragMismatch++
				}
				x.selSet(n, f.Sels, out, path, depth)
			} else {
				x.out.T.FragNoApply++
			}
		case "field":
			x.out.T.Fields++
			key := s.Key()
			if s.Alias != "" {
				x.out.T.Aliases++
			}
			if s.Name == "__typename" {
				x.out.T.Typename++
				out[key] = n.Type
				continue
			}
			fd := td.Field(s.Name)
			if fd == nil {
				// invalid documents are not executed by the reference, but the evaluation is recorded
				x.out.Undefined = append(x.out.Undefined, UndefEval{Node: n.ID, Sel: s.ID})
				continue
			}
			p := append(append([]interface{}{}, path...), key)
			x.out.Calls[faultKey(n.ID, s.Name)]++
			if len(s.Args) > 0 {
				x.out.T.ArgsSeen++
			}
			if f, bad := x.faults[faultKey(n.ID, s.Name)]; bad && f.Kind == "valerr" && (f.Call == 0 || f.Call == x.out.Calls[faultKey(n.ID, s.Name)]) {
				// the resolver hands over the value together with an error: the error is listed, the
				// value is kept and completed like any other (pinned by the repository's own tests)
				x.out.Errors = append(x.out.Errors, ExpErr{Path: p, Kind: "valerr", Sel: s.ID})
			} else if bad && f.Kind != "nth" && (f.Call == 0 || f.Call == x.out.Calls[faultKey(n.ID, s.Name)]) {
				cnt := 1
				if f.Kind == "group" || f.Kind == "wgroup" {
					cnt = f.N
				}
				for i := 0; i < cnt; i++ {
					x.out.Errors = append(x.out.Errors, ExpErr{Path: p, Kind: f.Kind, Sel: s.ID})
				}
				x.merge(out, key, nil, p)
				continue
			}
			v := n.F[s.Name]
			if x.Compute != nil {
				if cv, ok := x.Compute(n, fd, x.ExpectedArgs(fd, s)); ok {
					v = cv
				}
			}
			if x.ComputeFault != nil {
				switch x.ComputeFault(n, fd, x.ExpectedArgs(fd, s)) {
				case "err":
					x.out.Errors = append(x.out.Errors, ExpErr{Path: p, Kind: "err", Sel: s.ID})
					x.merge(out, key, nil, p)
					continue
				case "valerr":
					// the value is kept next to the error (pinned by the repository's own tests)
					x.out.Errors = append(x.out.Errors, ExpErr{Path: p, Kind: "valerr", Sel: s.ID})
				}
			}
			if x.Echo && len(fd.Args) > 0 && v.K == "string" && fd.Type.BaseName() == "String" && fd.Type.List == nil {
				v = Str(v.S + "|" + CanonArgs(x.ExpectedArgs(fd, s)))
			}
			var nth *Fault
			if f, bad := x.faults[faultKey(n.ID, s.Name)]; bad && f.Kind == "nth" {
				nth = &f
			}
			val := x.complete(v, fd.Type, s, p, depth, nth)
			x.merge(out, key, val, p)
		}
	}
}

// dropBelow forgets the leaf bookkeeping beneath a position that a later, failing selection of
// the same response key has turned into null.
func (x *Exec) dropBelow(p []interface{}) {
	pre := PathString(p) + "."
	x.out.Nulled = append(x.out.Nulled, pre)
	for k := range x.out.Borderline {
		if strings.HasPrefix(k, pre) {
			delete(x.out.Borderline, k)
			delete(x.out.BorderPath, k)
			delete(x.out.BorderN, k)
		}
	}
	for k := range x.out.BadEnum {
		if strings.HasPrefix(k, pre) {
			delete(x.out.BadEnum, k)
		}
	}
}

func (x *Exec) merge(out map[string]interface{}, key string, val interface{}, p []interface{}) {
	old, has := out[key]
	if !has {
		out[key] = val
		return
	}
	x.out.T.Merged++
	out[key] = x.deepMerge(old, val, p)
}

// deepMerge merges the result of a later selection of a response key into the earlier one;
// a later null (a failed or null valued selection) replaces what was there.
func (x *Exec) deepMerge(a, b interface{}, p []interface{}) interface{} {
	switch ta := a.(type) {
	case map[string]interface{}:
		if tb, ok := b.(map[string]interface{}); ok {
			for k, v := range tb {
				if ov, has := ta[k]; has {
					ta[k] = x.deepMerge(ov, v, append(append([]interface{}{}, p...), k))
				} else {
					ta[k] = v
				}
			}
			return ta
		}
	case []interface{}:
		if tb, ok := b.([]interface{}); ok && len(ta) == len(tb) {
			for i := range ta {
				ta[i] = x.deepMerge(ta[i], tb[i], append(append([]interface{}{}, p...), i))
			}
			return ta
		}
	}
	if a != nil && b == nil {
		x.dropBelow(p)
	}
	return b
}

func (x *Exec) complete(v Val, t *TRef, s *Sel, path []interface{}, depth int, nth *Fault) interface{} {
	if v.IsNil() {
		x.out.T.NullSeen++
		return nil
	}
	if x.levels+1 > x.out.T.MaxLevels {
		x.out.T.MaxLevels = x.levels + 1 // (every value that is not null is looked at one level below its container)
	}
	if t.List != nil {
		if depth == 0 {
			_ = depth
		}
		x.out.T.ListFields++
		if t.List.List != nil {
			x.out.T.ListOfList++
		}
		if v.K != "list" {
			// a non-list value under a list type: hostile (C05); position must be null + error
			x.out.T.LeafBad++
			x.out.Errors = append(x.out.Errors, ExpErr{Path: path, Kind: "coerce", Sel: s.ID})
			return nil
		}
		if len(v.L) == 0 {
			x.out.T.EmptyList++
		}
		outl := make([]interface{}, 0, len(v.L))
		x.levels++
		defer func() { x.levels-- }()
		for i, e := range v.L {
			p := append(append([]interface{}{}, path...), i)
			if nth != nil && nth.Index == i {
				if nth.N == 1 {
					// the accessor hands the member over together with the error: ggql puts that value
					// into the list as it is (recorded finding, pinned by TestResolveAnyError); what is
					// at this position is not compared, nothing beneath it is resolved
					x.out.Errors = append(x.out.Errors, ExpErr{Path: p, Kind: "nthval", Sel: s.ID})
					outl = append(outl, BorderlineMark{})
					continue
				}
				x.out.Errors = append(x.out.Errors, ExpErr{Path: p, Kind: "nth", Sel: s.ID})
				outl = append(outl, nil)
				continue
			}
			if e.IsNil() {
				x.out.T.NullElem++
			}
			outl = append(outl, x.complete(e, t.List, s, p, depth, nil))
		}
		return outl
	}
	if x.S.IsComposite(t.Name) {
		if v.K != "ref" {
			x.out.T.LeafBad++
			x.out.Errors = append(x.out.Errors, ExpErr{Path: path, Kind: "coerce", Sel: s.ID})
			return nil
		}
		n := x.G.Nodes[v.RefID()]
		x.visited[n.ID]++
		if x.visited[n.ID] == 2 {
			x.out.T.Revisit++
		}
		if x.S.KindOf(t.Name) != KObject {
			x.out.T.AbstractHops++
		}
		m := map[string]interface{}{}
		x.levels++
		x.selSet(n, s.Sels, m, path, depth+1)
		x.levels--
		return m
	}
	// leaf
	var enum *TypeDef
	if td := x.S.Type(t.Name); td != nil && td.Kind == KEnum {
		enum = td
	}
	kind := t.Name
	if td := x.S.Type(t.Name); td != nil && td.Kind == KScalar {
		kind = "String" // custom scalars are string scalars in ggql
	}
	out, class := LeafOut(kind, enum, v)
	switch class {
	case "bad":
		x.out.T.LeafBad++
		x.out.Errors = append(x.out.Errors, ExpErr{Path: path, Kind: "coerce", Sel: s.ID})
		if enum != nil && (v.K == "string" || v.K == "symbol") {
			x.out.BadEnum[PathString(path)] = BadEnumInfo{Path: path, Value: v.S}
		}
		return nil
	case "borderline":
		x.out.T.LeafBorder++
		x.out.Borderline[PathString(path)] = t.Name
		x.out.BorderPath[PathString(path)] = path
		x.out.BorderN[PathString(path)]++
		return BorderlineMark{Scalar: kind}
	}
	return out
}

// BorderlineMark stands in the expected tree for a leaf that is only shape-checked.
type BorderlineMark struct{ Scalar string }

const maxF32 = math.MaxFloat32

func asInt(v Val) (int64, bool, bool) { // value, isInt, fits in int64
	switch v.K {
	case "int", "int8", "int16", "int32", "int64":
		i, _ := strconv.ParseInt(v.S, 10, 64)
		return i, true, true
	case "uint", "uint8", "uint16", "uint32", "uint64":
		u, _ := strconv.ParseUint(v.S, 10, 64)
		if u > math.MaxInt64 {
			return 0, true, false
		}
		return int64(u), true, true
	}
	return 0, false, false
}

func asFloat(v Val) (float64, bool) {
	switch v.K {
	case "float32":
		f, _ := strconv.ParseFloat(v.S, 32)
		return float64(float32(f)), true
	case "float64":
		f, _ := strconv.ParseFloat(v.S, 64)
		return f, true
	}
	return 0, false
}

func isComposite(v Val) bool {
	switch v.K {
	case "list", "map", "ref", "bytes", "other", "struct":
		return true
	}
	return false
}

// LeafOut says what a resolver value v means for a leaf of the named scalar
// (or enum): the expected normalised output and a class:
//
//	"ok"         faithful: output must equal out
//	"bad"        clearly unrepresentable: null + error expected
//	"borderline" liberal conversions the repository's own tests pin: shape check only
func LeafOut(scalar string, enum *TypeDef, v Val) (out interface{}, class string) {
	if v.IsNil() {
		return nil, "ok"
	}
	if enum != nil {
		switch v.K {
		case "string", "symbol":
			if enum.HasValue(v.S) {
				return v.S, "ok"
			}
			return nil, "bad"
		}
		return nil, "bad"
	}
	if isComposite(v) {
		return nil, "bad"
	}
	i, isInt, fits := asInt(v)
	f, isFloat := asFloat(v)
	switch scalar {
	case "Int":
		switch {
		case isInt:
			if fits && i >= math.MinInt32 && i <= math.MaxInt32 {
				return i, "ok"
			}
			return nil, "bad"
		case isFloat:
			if math.IsNaN(f) || math.IsInf(f, 0) || f < math.MinInt32 || f > math.MaxInt32 {
				return nil, "bad"
			}
			if f == math.Trunc(f) {
				return int64(f), "ok"
			}
			return nil, "borderline"
		case v.K == "string":
			if _, err := strconv.ParseInt(v.S, 10, 64); err == nil {
				return nil, "borderline"
			}
			return nil, "bad"
		}
		return nil, "bad" // bool, time, …
	case "Int64":
		switch {
		case isInt:
			if fits {
				return i, "ok"
			}
			return nil, "bad"
		case isFloat:
			if math.IsNaN(f) || math.IsInf(f, 0) || f < -9.2e18 || f > 9.2e18 {
				return nil, "bad"
			}
			if f == math.Trunc(f) {
				return int64(f), "ok"
			}
			return nil, "borderline"
		case v.K == "string":
			if _, err := strconv.ParseInt(v.S, 10, 64); err == nil {
				return nil, "borderline"
			}
			return nil, "bad"
		}
		return nil, "bad"
	case "Float":
		switch {
		case isFloat:
			if math.IsNaN(f) || math.IsInf(f, 0) || math.Abs(f) > maxF32 {
				return nil, "bad"
			}
			return float64(float32(f)), "ok"
		case isInt:
			if !fits {
				return nil, "borderline"
			}
			return float64(float32(i)), "ok"
		case v.K == "string":
			if pf, err := strconv.ParseFloat(v.S, 64); err == nil && !math.IsNaN(pf) && !math.IsInf(pf, 0) {
				return nil, "borderline"
			}
			return nil, "bad"
		}
		return nil, "bad"
	case "Float64":
		switch {
		case isFloat:
			if math.IsNaN(f) || math.IsInf(f, 0) {
				return nil, "bad"
			}
			return f, "ok"
		case isInt:
			if !fits {
				return nil, "borderline"
			}
			return float64(i), "ok"
		case v.K == "string":
			if pf, err := strconv.ParseFloat(v.S, 64); err == nil && !math.IsNaN(pf) && !math.IsInf(pf, 0) {
				return nil, "borderline"
			}
			return nil, "bad"
		}
		return nil, "bad"
	case "String", "ID":
		switch {
		case v.K == "string":
			return v.S, "ok"
		case isInt, isFloat, v.K == "bool":
			return nil, "borderline" // numbers/booleans rendered as text: pinned liberal coercion
		}
		return nil, "bad" // symbol, time, …: not a string value
	case "Boolean":
		switch v.K {
		case "bool":
			return v.S == "true", "ok"
		case "string":
			if _, err := strconv.ParseBool(v.S); err == nil {
				return nil, "borderline"
			}
			return nil, "bad"
		case "float32", "int32":
			return nil, "borderline"
		}
		return nil, "bad"
	case "Time":
		switch v.K {
		case "time":
			t, err := time.Parse(time.RFC3339Nano, v.S)
			if err != nil {
				return nil, "bad" // a year RFC 3339 can not write (beyond 9999, before 0)
			}
			return t.UTC().Format(time.RFC3339Nano), "ok"
		case "string":
			if t, err := time.Parse(time.RFC3339Nano, v.S); err == nil {
				if y := t.UTC().Year(); y < 0 || y > 9999 {
					return nil, "bad" // written in UTC it has a year RFC 3339 can not express
				}
				return t.UTC().Format(time.RFC3339Nano), "ok"
			}
			return nil, "bad"
		case "int64":
			// seconds since the epoch: the moment they name, or nothing RFC 3339 can write
			i, _, _ := asInt(v)
			if i < minTimeSecs || maxTimeSecs < i {
				return nil, "bad"
			}
			return time.Unix(i, 0).UTC().Format(time.RFC3339Nano), "ok"
		case "float64":
			f, _ := asFloat(v)
			if f != f || f < minTimeSecs || maxTimeSecs+1 <= f {
				return nil, "bad" // not a number, or beyond what RFC 3339 can write
			}
			if f == math.Trunc(f) {
				return time.Unix(int64(f), 0).UTC().Format(time.RFC3339Nano), "ok"
			}
			return nil, "borderline" // (how the fraction is rounded is the library's business)
		}
		return nil, "bad"
	}
	return nil, "borderline"
}

// seconds since the epoch of the first and the last second RFC 3339 can write (years 0 to 9999)
const (
	minTimeSecs = -62167219200
	maxTimeSecs = 253402300799
)

var rfc3339 = regexp.MustCompile(`^\d{4}-\d{2}-\d{2}T\d{2}:\d{2}:\d{2}(\.\d+)?(Z|[+-]\d{2}:\d{2})$`)

// ShapeOK checks a normalised output value against the JSON shape of a scalar.
func ShapeOK(scalar string, enum *TypeDef, out interface{}) bool {
	if out == nil {
		return true
	}
	if enum != nil {
		s, ok := out.(string)
		return ok && enum.HasValue(s)
	}
	switch scalar {
	case "Int":
		i, ok := out.(int64)
		return ok && i >= math.MinInt32 && i <= math.MaxInt32
	case "Int64":
		_, ok := out.(int64)
		return ok
	case "Float", "Float64":
		switch t := out.(type) {
		case float64:
			return !math.IsNaN(t) && !math.IsInf(t, 0)
		case int64:
			return true
		}
		return false
	case "String", "ID":
		_, ok := out.(string)
		return ok
	case "Boolean":
		_, ok := out.(bool)
		return ok
	case "Time":
		s, ok := out.(string)
		if !ok {
			return false
		}
		// (Go's parser is more liberal than RFC 3339: it takes a comma before the fraction and a one digit hour)
		if !rfc3339.MatchString(s) {
			return false
		}
		_, err := time.Parse(time.RFC3339Nano, s)
		return err == nil
	}
	_, ok := out.(string) // custom scalars are string scalars
	return ok
}

// ---------------------------------------------------------------------------
// Arguments as the resolver should see them (simple faithful domain: used by
// the echo scheme of C01/C02; C04 has its own, stricter evaluation).

// ExpectedArgs computes the args map a resolver should receive for a field
// selection whose argument values are faithful for their declared types.
func (x *Exec) ExpectedArgs(fd *Field, s *Sel) map[string]interface{} {
	out := map[string]interface{}{}
	for _, kv := range s.Args {
		a := fd.Arg(kv.Key)
		if a == nil {
			continue
		}
		out[kv.Key] = x.argValue(kv.V, a.Type)
	}
	return out
}

func (x *Exec) argValue(v Val, t *TRef) interface{} {
	if v.K == "var" {
		v = x.vars[v.S]
	}
	if v.IsNil() {
		return nil
	}
	if t.List != nil && v.K == "list" {
		out := make([]interface{}, len(v.L))
		for i, e := range v.L {
			out[i] = x.argValue(e, t.List)
		}
		return out
	}
	if v.K == "map" {
		td := x.S.Type(t.BaseName())
		out := map[string]interface{}{}
		for _, kv := range v.M {
			if td != nil {
				if f := td.Input(kv.Key); f != nil {
					out[kv.Key] = x.argValue(kv.V, f.Type)
					continue
				}
			}
			out[kv.Key] = kv.V.Go()
		}
		if td != nil {
			for _, f := range td.Inputs {
				if cur, has := out[f.Name]; (!has || cur == nil) && f.Default != nil {
					out[f.Name] = x.argValue(*f.Default, f.Type)
				}
			}
		}
		return out
	}
	switch t.BaseName() {
	case "Float":
		if f, ok := asFloat(v); ok {
			return float64(float32(f))
		}
		if i, ok, _ := asInt(v); ok {
			return float64(float32(i))
		}
	case "Float64":
		if f, ok := asFloat(v); ok {
			return f
		}
		if i, ok, _ := asInt(v); ok {
			return float64(i)
		}
	case "ID":
		if i, ok, _ := asInt(v); ok {
			return strconv.FormatInt(i, 10)
		}
	case "Time":
		if v.K == "string" || v.K == "time" {
			if tm, err := time.Parse(time.RFC3339Nano, v.S); err == nil {
				return tm.UTC().Format(time.RFC3339Nano)
			}
		}
	}
	return Norm(v.Go())
}

// CanonArgs renders an args map canonically (kinds unified, keys sorted,
// times as UTC RFC 3339 strings) - used by fixtures and reference alike.
func CanonArgs(args map[string]interface{}) string {
	keys := make([]string, 0, len(args))
	for k := range args {
		keys = append(keys, k)
	}
	sort.Strings(keys)
	parts := make([]string, 0, len(keys))
	for _, k := range keys {
		parts = append(parts, k+"="+canonArg(args[k]))
	}
	return strings.Join(parts, ";")
}

func canonArg(v interface{}) string {
	if t, ok := v.(time.Time); ok {
		return strconv.Quote(t.UTC().Format(time.RFC3339Nano))
	}
	switch t := Norm(v).(type) {
	case nil:
		return "null"
	case bool:
		return strconv.FormatBool(t)
	case int64:
		return strconv.FormatInt(t, 10)
	case float64:
		if t == math.Trunc(t) && math.Abs(t) < 1e15 {
			return strconv.FormatInt(int64(t), 10)
		}
		return strconv.FormatFloat(t, 'g', -1, 64)
	case string:
		return strconv.Quote(t)
	case []interface{}:
		ps := make([]string, len(t))
		for i, e := range t {
			ps[i] = canonArg(e)
		}
		return "[" + strings.Join(ps, ",") + "]"
	case map[string]interface{}:
		return "{" + CanonArgs(t) + "}"
	}
	return fmt.Sprintf("?%T", v)
}
