package hx

import (
	"encoding/json"
	"fmt"
	"strings"

	"github.com/uhn/ggql/pkg/ggql"
)

// BuildAPI gives the root the schema of the model through ggql's Go API (the type structs, their
// Add... methods and Root.AddTypes) instead of SDL text: the way an application that generates or
// assembles its schema in code does it. References are by name (ggql.Ref), as the parser leaves them;
// a directive use without arguments carries no argument map at all, as a literal written in Go would.
// usable=false: the model needs something the API has no place for (an explicit schema block).
// BuildOpts: NoInterfaceRoot leaves Interface.Root unset (an application that builds its types by hand
// and never asks for possibleTypes has no reason to set it).
type BuildOpts struct {
	NoInterfaceRoot bool
	// Skip: types left out; Only (non-nil): nothing but these types, no directive definitions - the
	// two halves of a schema that is put together in two AddTypes calls.
	Skip map[string]bool
	Only map[string]bool
}

func BuildAPI(root *ggql.Root, s *Schema, o BuildOpts) (err error, usable bool) {
	if s.Roots != nil || len(s.ExtRoots) > 0 || len(s.RootDirs) > 0 || len(s.ExtRootDirs) > 0 {
		return nil, false
	}
	s = readerNormalDescs(s)
	ref := func(name string) ggql.Type { return &ggql.Ref{Base: ggql.Base{N: name}} }
	var tref func(t *TRef) ggql.Type
	tref = func(t *TRef) ggql.Type {
		var out ggql.Type
		if t.List != nil {
			out = &ggql.List{Base: tref(t.List)}
		} else {
			out = ref(t.Name)
		}
		if t.NonNull {
			out = &ggql.NonNull{Base: out}
		}
		return out
	}
	dirs := func(ds []DirUse) []*ggql.DirectiveUse {
		var out []*ggql.DirectiveUse
		for _, d := range ds {
			du := &ggql.DirectiveUse{Directive: ref(d.Name)}
			if len(d.Args) > 0 {
				du.Args = map[string]*ggql.ArgValue{}
				for _, kv := range d.Args {
					du.Args[kv.Key] = &ggql.ArgValue{Arg: kv.Key, Value: kv.V.Go()}
				}
			}
			out = append(out, du)
		}
		return out
	}
	arg := func(a *Arg) *ggql.Arg {
		out := &ggql.Arg{Base: ggql.Base{N: a.Name, Desc: a.Desc, Dirs: dirs(a.Dirs)}, Type: tref(a.Type)}
		if a.Default != nil {
			out.Default = a.Default.Go()
		}
		return out
	}
	field := func(f *Field) (*ggql.FieldDef, error) {
		fd := &ggql.FieldDef{Base: ggql.Base{N: f.Name, Desc: f.Desc, Dirs: dirs(f.Dirs)}, Type: tref(f.Type)}
		for _, a := range f.Args {
			if err := fd.AddArg(arg(a)); err != nil {
				return nil, err
			}
		}
		return fd, nil
	}
	var types []ggql.Type
	for _, d := range s.Dirs {
		if o.Only != nil {
			break
		}
		dd := &ggql.Directive{Base: ggql.Base{N: d.Name, Desc: d.Desc}}
		for _, on := range d.On {
			dd.On = append(dd.On, ggql.Location(on))
		}
		for _, a := range d.Args {
			if err := dd.AddArg(arg(a)); err != nil {
				return err, true
			}
		}
		types = append(types, dd)
	}
	for _, td := range s.Types {
		if o.Skip[td.Name] || (o.Only != nil && !o.Only[td.Name]) {
			continue
		}
		base := ggql.Base{N: td.Name, Desc: td.Desc, Dirs: dirs(td.Dirs)}
		switch td.Kind {
		case KScalar:
			// (ggql.Locate knows its own scalar structs only: a directive use on an application's
			// scalar is refused whatever the directive allows. Introspection does not show uses, so
			// they are left out here - noted in DESIGN.md, outside the listed properties.)
			base.Dirs = nil
			types = append(types, &apiScalar{Scalar: ggql.Scalar{Base: base}})
		case KEnum:
			e := &ggql.Enum{Base: base}
			for _, v := range td.Values {
				if err := e.AddValue(&ggql.EnumValue{Value: ggql.Symbol(v.Name), Description: v.Desc, Directives: dirs(v.Dirs)}); err != nil {
					return err, true
				}
			}
			types = append(types, e)
		case KInput:
			in := &ggql.Input{Base: base}
			for _, f := range td.Inputs {
				inf := &ggql.InputField{Base: ggql.Base{N: f.Name, Desc: f.Desc, Dirs: dirs(f.Dirs)}, Type: tref(f.Type)}
				if f.Default != nil {
					inf.Default = f.Default.Go()
				}
				if err := in.AddField(inf); err != nil {
					return err, true
				}
			}
			types = append(types, in)
		case KInterface:
			it := &ggql.Interface{Base: base, Root: root} // (Root: "needed to get possibleTypes")
			if o.NoInterfaceRoot {
				it.Root = nil
			}
			for _, f := range td.Fields {
				fd, err := field(f)
				if err == nil {
					err = it.AddField(fd)
				}
				if err != nil {
					return err, true
				}
			}
			types = append(types, it)
		case KObject:
			o := &ggql.Object{Base: base}
			for _, in := range td.Interfaces {
				o.Interfaces = append(o.Interfaces, ref(in))
			}
			for _, f := range td.Fields {
				fd, err := field(f)
				if err == nil {
					err = o.AddField(fd)
				}
				if err != nil {
					return err, true
				}
			}
			types = append(types, o)
		case KUnion:
			u := &ggql.Union{Base: base}
			for _, m := range td.Members {
				u.Members = append(u.Members, ref(m))
			}
			types = append(types, u)
		default:
			return fmt.Errorf("model kind %q", td.Kind), true
		}
	}
	return root.AddTypes(types...), true
}

// apiScalar is an application's scalar the way ggql's documentation shows it: the Scalar struct
// embedded and the two coercions added (strings pass, like the scalars the SDL parser makes).
type apiScalar struct {
	ggql.Scalar
}

func (t *apiScalar) CoerceIn(v interface{}) (interface{}, error) {
	switch v.(type) {
	case nil, string:
		return v, nil
	}
	return nil, fmt.Errorf("can not coerce a %T into a %s", v, t.N)
}

func (t *apiScalar) CoerceOut(v interface{}) (interface{}, error) {
	switch tv := v.(type) {
	case nil, string:
		return v, nil
	case fmt.Stringer:
		return tv.String(), nil
	}
	return fmt.Sprint(v), nil
}

// ReaderNormalDesc is what ggql's SDL reader makes of a description (parser.go readDesc, by design:
// "documentation strings with multiple lines should have the indentation removed"): every line
// trimmed, blank lines dropped. A description that is not in this form can be given to the Go API
// but can not come back from printed SDL, so the API path only uses descriptions in this form.
func ReaderNormalDesc(d string) string {
	var lines []string
	for _, l := range strings.Split(d, "\n") {
		if l = strings.TrimSpace(l); l != "" {
			lines = append(lines, l)
		}
	}
	return strings.Join(lines, "\n")
}

// readerNormalDescs returns a copy of the model with every description in reader-normal form.
func readerNormalDescs(s *Schema) *Schema {
	b, err := json.Marshal(s)
	if err != nil {
		return s
	}
	var c Schema
	if err := json.Unmarshal(b, &c); err != nil {
		return s
	}
	for _, d := range c.Dirs {
		d.Desc = ReaderNormalDesc(d.Desc)
		for _, a := range d.Args {
			a.Desc = ReaderNormalDesc(a.Desc)
		}
	}
	for _, td := range c.Types {
		td.Desc = ReaderNormalDesc(td.Desc)
		for _, f := range td.Fields {
			f.Desc = ReaderNormalDesc(f.Desc)
			for _, a := range f.Args {
				a.Desc = ReaderNormalDesc(a.Desc)
			}
		}
		for _, f := range td.Inputs {
			f.Desc = ReaderNormalDesc(f.Desc)
		}
		for _, v := range td.Values {
			v.Desc = ReaderNormalDesc(v.Desc)
		}
	}
	return &c
}
