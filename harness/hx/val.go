package hx

import (
	"fmt"
	"math"
	"sort"
	"strconv"
	"strings"
	"time"

	"github.com/uhn/ggql/pkg/ggql"
)

// Val is a JSON-serialisable Go value that remembers its exact Go kind, so a
// case file reproduces int32 vs float64 vs json-decoded shapes faithfully.
type Val struct {
	K string `json:"k"`           // nil bool int int8 … uint64 float32 float64 string symbol var time bytes list map ref
	S string `json:"s,omitempty"` // scalar payload as text (keeps NaN/Inf and all digits)
	L []Val  `json:"l,omitempty"` // list elements
	M []KV   `json:"m,omitempty"` // map entries in a fixed order
}

// KV is one map entry.
type KV struct {
	Key string `json:"key"`
	V   Val    `json:"v"`
}

// Convenience constructors.
func Nil() Val          { return Val{K: "nil"} }
func Bool(b bool) Val   { return Val{K: "bool", S: strconv.FormatBool(b)} }
func Str(s string) Val  { return Val{K: "string", S: s} }
func Sym(s string) Val  { return Val{K: "symbol", S: s} }
func VarV(s string) Val { return Val{K: "var", S: s} }
func I64(i int64) Val   { return Val{K: "int64", S: strconv.FormatInt(i, 10)} }
func I32(i int32) Val   { return Val{K: "int32", S: strconv.FormatInt(int64(i), 10)} }
func Int(i int) Val     { return Val{K: "int", S: strconv.FormatInt(int64(i), 10)} }
func F64(f float64) Val { return Val{K: "float64", S: strconv.FormatFloat(f, 'g', -1, 64)} }
func F32(f float32) Val { return Val{K: "float32", S: strconv.FormatFloat(float64(f), 'g', -1, 32)} }

// Time: a year RFC 3339 can not write (beyond 9999, before 0) is kept as "unix:<seconds>:<nanoseconds>".
func Time(t time.Time) Val {
	if y := t.UTC().Year(); y < 0 || y > 9999 {
		if _, off := t.Zone(); off != 0 {
			// (in its own zone the year may well be one RFC 3339 can write)
			return Val{K: "time", S: fmt.Sprintf("unix:%d:%d:%d", t.Unix(), t.Nanosecond(), off)}
		}
		return Val{K: "time", S: fmt.Sprintf("unix:%d:%d", t.Unix(), t.Nanosecond())}
	}
	return Val{K: "time", S: t.Format(time.RFC3339Nano)}
}
func Ref(id int) Val { return Val{K: "ref", S: strconv.Itoa(id)} }
func List(vs ...Val) Val {
	if vs == nil {
		vs = []Val{}
	}
	return Val{K: "list", L: vs}
}
func Map(kvs ...KV) Val { return Val{K: "map", M: kvs} }

// IntKind builds an integer of the named Go kind (value wraps like a Go conversion).
func IntKind(kind string, i int64) Val {
	switch kind {
	case "uint", "uint8", "uint16", "uint32", "uint64":
		return Val{K: kind, S: strconv.FormatUint(uint64(i), 10)}
	}
	return Val{K: kind, S: strconv.FormatInt(i, 10)}
}

// IsNil reports the nil value.
func (v Val) IsNil() bool { return v.K == "nil" || v.K == "" || v.K == "nilptr" }

// RefID returns the node id of a ref value.
func (v Val) RefID() int { i, _ := strconv.Atoi(v.S); return i }

// Get returns the map entry.
func (v Val) Get(key string) (Val, bool) {
	for _, kv := range v.M {
		if kv.Key == key {
			return kv.V, true
		}
	}
	return Val{}, false
}

// Go converts to the plain Go value. Refs become RefID (an int) wrapped in NodeRef.
func (v Val) Go() interface{} {
	switch v.K {
	case "", "nil":
		return nil
	case "bool":
		return v.S == "true"
	case "string":
		return v.S
	case "symbol":
		return ggql.Symbol(v.S)
	case "var":
		return ggql.Var(v.S)
	case "bytes":
		return []byte(v.S)
	case "int":
		i, _ := strconv.ParseInt(v.S, 10, 64)
		return int(i)
	case "int8":
		i, _ := strconv.ParseInt(v.S, 10, 64)
		return int8(i)
	case "int16":
		i, _ := strconv.ParseInt(v.S, 10, 64)
		return int16(i)
	case "int32":
		i, _ := strconv.ParseInt(v.S, 10, 64)
		return int32(i)
	case "int64":
		i, _ := strconv.ParseInt(v.S, 10, 64)
		return i
	case "uint":
		i, _ := strconv.ParseUint(v.S, 10, 64)
		return uint(i)
	case "uint8":
		i, _ := strconv.ParseUint(v.S, 10, 64)
		return uint8(i)
	case "uint16":
		i, _ := strconv.ParseUint(v.S, 10, 64)
		return uint16(i)
	case "uint32":
		i, _ := strconv.ParseUint(v.S, 10, 64)
		return uint32(i)
	case "uint64":
		i, _ := strconv.ParseUint(v.S, 10, 64)
		return i
	case "float32":
		f, _ := strconv.ParseFloat(v.S, 32)
		return float32(f)
	case "float64":
		f, _ := strconv.ParseFloat(v.S, 64)
		return f
	case "time":
		if strings.HasPrefix(v.S, "unix:") {
			var sec, nsec int64
			var off int
			if n, _ := fmt.Sscanf(v.S, "unix:%d:%d:%d", &sec, &nsec, &off); n == 3 {
				return time.Unix(sec, nsec).In(time.FixedZone("", off))
			}
			_, _ = fmt.Sscanf(v.S, "unix:%d:%d", &sec, &nsec)
			return time.Unix(sec, nsec).UTC()
		}
		t, _ := time.Parse(time.RFC3339Nano, v.S)
		return t
	case "list":
		out := make([]interface{}, 0, len(v.L))
		for _, e := range v.L {
			out = append(out, e.Go())
		}
		return out
	case "map":
		out := map[string]interface{}{}
		for _, kv := range v.M {
			out[kv.Key] = kv.V.Go()
		}
		return out
	case "ref":
		return NodeRef(v.RefID())
	case "nilptr":
		return (*int)(nil)
	case "struct":
		return struct{ A int }{1}
	}
	panic("hx.Val: unknown kind " + v.K)
}

// NodeRef is what Val.Go returns for a graph reference.
type NodeRef int

// FromGo converts a plain Go value (as produced by ggql) into a Val.
func FromGo(x interface{}) Val {
	switch t := x.(type) {
	case nil:
		return Nil()
	case bool:
		return Bool(t)
	case string:
		return Str(t)
	case ggql.Symbol:
		return Sym(string(t))
	case ggql.Var:
		return VarV(string(t))
	case []byte:
		return Val{K: "bytes", S: string(t)}
	case int:
		return Int(t)
	case int8:
		return IntKind("int8", int64(t))
	case int16:
		return IntKind("int16", int64(t))
	case int32:
		return I32(t)
	case int64:
		return I64(t)
	case uint:
		return Val{K: "uint", S: strconv.FormatUint(uint64(t), 10)}
	case uint8:
		return Val{K: "uint8", S: strconv.FormatUint(uint64(t), 10)}
	case uint16:
		return Val{K: "uint16", S: strconv.FormatUint(uint64(t), 10)}
	case uint32:
		return Val{K: "uint32", S: strconv.FormatUint(uint64(t), 10)}
	case uint64:
		return Val{K: "uint64", S: strconv.FormatUint(t, 10)}
	case float32:
		return F32(t)
	case float64:
		return F64(t)
	case time.Time:
		return Time(t)
	case []interface{}:
		out := make([]Val, 0, len(t))
		for _, e := range t {
			out = append(out, FromGo(e))
		}
		return List(out...)
	case map[string]interface{}:
		keys := make([]string, 0, len(t))
		for k := range t {
			keys = append(keys, k)
		}
		sort.Strings(keys)
		kvs := make([]KV, 0, len(t))
		for _, k := range keys {
			kvs = append(kvs, KV{k, FromGo(t[k])})
		}
		return Map(kvs...)
	}
	return Val{K: "other", S: fmt.Sprintf("%T:%v", x, x)}
}

// Norm normalises a Go value tree for comparison: all integer kinds → int64,
// float32 → float64 (exact widening), Symbol → string, time.Time → RFC3339Nano
// UTC string; lists and maps recursively. Unknown kinds are rendered as
// "<T:v>" strings so that they never compare equal to an expected value.
func Norm(x interface{}) interface{} {
	switch t := x.(type) {
	case nil:
		return nil
	case bool, string, int64, float64:
		return t
	case ggql.Symbol:
		return string(t)
	case int:
		return int64(t)
	case int8:
		return int64(t)
	case int16:
		return int64(t)
	case int32:
		return int64(t)
	case uint:
		return int64(t)
	case uint8:
		return int64(t)
	case uint16:
		return int64(t)
	case uint32:
		return int64(t)
	case uint64:
		return int64(t)
	case float32:
		return float64(t)
	case []interface{}:
		out := make([]interface{}, len(t))
		for i, e := range t {
			out[i] = Norm(e)
		}
		return out
	case map[string]interface{}:
		out := make(map[string]interface{}, len(t))
		for k, e := range t {
			out[k] = Norm(e)
		}
		return out
	}
	return fmt.Sprintf("<%T:%v>", x, x)
}

// Equal compares two normalised trees (NaN equals NaN; -0 equals 0).
func Equal(a, b interface{}) bool {
	switch ta := a.(type) {
	case nil:
		return b == nil
	case []interface{}:
		tb, ok := b.([]interface{})
		if !ok || len(ta) != len(tb) {
			return false
		}
		for i := range ta {
			if !Equal(ta[i], tb[i]) {
				return false
			}
		}
		return true
	case map[string]interface{}:
		tb, ok := b.(map[string]interface{})
		if !ok || len(ta) != len(tb) {
			return false
		}
		for k, va := range ta {
			vb, has := tb[k]
			if !has || !Equal(va, vb) {
				return false
			}
		}
		return true
	case float64:
		tb, ok := b.(float64)
		if !ok {
			return false
		}
		return ta == tb || (math.IsNaN(ta) && math.IsNaN(tb))
	}
	return a == b
}

// Show renders a normalised tree deterministically (sorted keys).
func Show(x interface{}) string {
	switch t := x.(type) {
	case nil:
		return "null"
	case string:
		return strconv.Quote(t)
	case []interface{}:
		s := "["
		for i, e := range t {
			if i > 0 {
				s += ","
			}
			s += Show(e)
		}
		return s + "]"
	case map[string]interface{}:
		keys := make([]string, 0, len(t))
		for k := range t {
			keys = append(keys, k)
		}
		sort.Strings(keys)
		s := "{"
		for i, k := range keys {
			if i > 0 {
				s += ","
			}
			s += k + ":" + Show(t[k])
		}
		return s + "}"
	}
	return fmt.Sprintf("%v", x)
}

// Trunc shortens a string for evidence samples.
func Trunc(s string, n int) string {
	if len(s) <= n {
		return s
	}
	return s[:n] + fmt.Sprintf("…(+%d bytes)", len(s)-n)
}
