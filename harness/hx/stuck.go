package hx

import (
	"fmt"
	"runtime"
	"strings"
	"time"
)

// AwaitOrStuck waits for done. The clock only decides when to look: a deadlock is reported from the
// state of the goroutines - every worker still alive (a goroutine with the marker frame on its stack)
// is parked in a synchronisation wait, twice in a row with the same set of goroutines, so none of
// them can ever release what the others wait for. A worker that is merely slow (busy machine, race
// detector) is running or runnable and is waited for.
func AwaitOrStuck(done <-chan struct{}, marker string) string {
	var prev string
	for {
		select {
		case <-done:
			return ""
		case <-time.After(3 * time.Second):
		}
		buf := make([]byte, 8<<20)
		buf = buf[:runtime.Stack(buf, true)]
		var ids, sample []string
		allParked, n := true, 0
		for _, g := range strings.Split(string(buf), "\n\n") {
			if !strings.Contains(g, marker) {
				continue
			}
			head := g
			if i := strings.IndexByte(g, '\n'); i >= 0 {
				head = g[:i]
			}
			i, j := strings.IndexByte(head, '['), strings.IndexByte(head, ']')
			if i < 0 || j < i {
				allParked = false
				continue
			}
			state := head[i+1 : j]
			if k := strings.IndexByte(state, ','); k >= 0 {
				state = state[:k]
			}
			n++
			if !(strings.HasPrefix(state, "sync.") || state == "semacquire") {
				allParked = false
			}
			ids = append(ids, head[:i])
			if len(sample) < 2 {
				sample = append(sample, Trunc(g, 1200))
			}
		}
		cur := strings.Join(ids, "|")
		if n > 0 && allParked && cur == prev {
			select {
			case <-done:
				return ""
			default:
			}
			return fmt.Sprintf("all %d unfinished workers are parked on a lock nobody can release:\n%s", n, strings.Join(sample, "\n\n"))
		}
		prev = ""
		if n > 0 && allParked {
			prev = cur
		}
	}
}
