// Package sub hosts the subscription delivery check (C19): a rapid state machine
// against a list model.
package sub

import (
	"errors"
	"fmt"
	"os"
	"reflect"
	"strings"
	"testing"

	"github.com/uhn/ggql/pkg/ggql"
	"pgregory.net/rapid"

	"verifharness/exec"
	"verifharness/hx"
)

// subSchema: with abstract, events come in two object types behind an interface and a union, and two
// more subscription fields return those (the type of every single event decides what its subscriber's
// selection gives).
func subSchema(abstract bool, subRoot string) *hx.Schema {
	s := subSchemaPlain(abstract)
	if subRoot != "" && subRoot != "Subscription" {
		// a schema block that names another type as the subscription root
		s.Type("Subscription").Name = subRoot
		s.Roots = map[string]string{"query": "Query", "subscription": subRoot}
	}
	return s
}

func subSchemaPlain(abstract bool) *hx.Schema {
	idArg := func() []*hx.Arg { return []*hx.Arg{{Name: "id", Type: hx.Named("String").NN()}} }
	if abstract {
		return &hx.Schema{Types: []*hx.TypeDef{
			{Kind: hx.KEnum, Name: "Kind", Values: []*hx.EnumValue{{Name: "ALERT"}, {Name: "INFO"}}},
			{Kind: hx.KInterface, Name: "Thing", Fields: []*hx.Field{{Name: "id", Type: hx.Named("String")}, {Name: "n", Type: hx.Named("Int")}}},
			{Kind: hx.KObject, Name: "Event", Interfaces: []string{"Thing"}, Fields: []*hx.Field{
				{Name: "id", Type: hx.Named("String")}, {Name: "n", Type: hx.Named("Int")}, {Name: "tags", Type: hx.ListOf(hx.Named("String"))},
				{Name: "inner", Type: hx.Named("Event")}, {Name: "kind", Type: hx.Named("Kind")}, {Name: "f", Type: hx.Named("Float")}, {Name: "more", Type: hx.ListOf(hx.Named("Event"))},
				// (a field that is named like a subscription field)
				{Name: "watch", Type: hx.Named("String")}}},
			{Kind: hx.KObject, Name: "Note", Interfaces: []string{"Thing"}, Fields: []*hx.Field{
				{Name: "id", Type: hx.Named("String")}, {Name: "n", Type: hx.Named("Int")}, {Name: "text", Type: hx.Named("String")},
				{Name: "about", Type: hx.Named("Thing")}, {Name: "items", Type: hx.ListOf(hx.Named("Item"))}}},
			{Kind: hx.KUnion, Name: "Item", Members: []string{"Event", "Note"}},
			{Kind: hx.KObject, Name: "Query", Fields: []*hx.Field{{Name: "a", Type: hx.Named("Int")}}},
			{Kind: hx.KObject, Name: "Subscription", Fields: []*hx.Field{
				{Name: "watch", Type: hx.Named("Event"), Args: idArg()}, {Name: "listen", Type: hx.Named("Event"), Args: idArg()},
				{Name: "things", Type: hx.Named("Thing"), Args: idArg()}, {Name: "items", Type: hx.Named("Item"), Args: idArg()},
				{Name: "batch", Type: hx.ListOf(hx.Named("Event")), Args: idArg()}}},
		}}
	}
	return &hx.Schema{Types: []*hx.TypeDef{
		{Kind: hx.KEnum, Name: "Kind", Values: []*hx.EnumValue{{Name: "ALERT"}, {Name: "INFO"}}},
		{Kind: hx.KObject, Name: "Event", Fields: []*hx.Field{
			{Name: "id", Type: hx.Named("String")}, {Name: "n", Type: hx.Named("Int")}, {Name: "tags", Type: hx.ListOf(hx.Named("String"))},
			{Name: "inner", Type: hx.Named("Event")}, {Name: "kind", Type: hx.Named("Kind")}, {Name: "f", Type: hx.Named("Float")}, {Name: "more", Type: hx.ListOf(hx.Named("Event"))},
			// (a field that is named like a subscription field)
			{Name: "watch", Type: hx.Named("String")}}},
		{Kind: hx.KObject, Name: "Query", Fields: []*hx.Field{{Name: "a", Type: hx.Named("Int")}}},
		{Kind: hx.KObject, Name: "Subscription", Fields: []*hx.Field{
			{Name: "watch", Type: hx.Named("Event"), Args: idArg()}, {Name: "listen", Type: hx.Named("Event"), Args: idArg()},
			{Name: "batch", Type: hx.ListOf(hx.Named("Event")), Args: idArg()}}},
	}}
}

const firstEvent = 3

// addNotes appends 1-3 Note nodes (abstract histories only).
func addNotes(t *rapid.T, g *hx.Graph) {
	first := len(g.Nodes)
	k := rapid.IntRange(1, 3).Draw(t, "nNotes")
	for i := 0; i < k; i++ {
		g.Nodes = append(g.Nodes, &hx.Node{ID: first + i, Type: "Note", F: map[string]hx.Val{}})
	}
	ref := func(label string) hx.Val {
		if rapid.IntRange(0, 3).Draw(t, label+"nil") == 0 {
			return hx.Nil()
		}
		return hx.Ref(firstEvent + rapid.IntRange(0, len(g.Nodes)-firstEvent-1).Draw(t, label))
	}
	for i := 0; i < k; i++ {
		nd := g.Nodes[first+i]
		lab := fmt.Sprintf("note%d", i)
		nd.F["id"] = hx.Str(fmt.Sprintf("note-%d", i))
		nd.F["n"] = hx.I32(int32(rapid.IntRange(-5, 5).Draw(t, lab+"n")))
		nd.F["text"] = hx.Str(rapid.SampledFrom([]string{"", "t", "two words"}).Draw(t, lab+"text"))
		nd.F["about"] = ref(lab + "about")
		var items []hx.Val
		for j := 0; j < rapid.IntRange(0, 2).Draw(t, lab+"nitems"); j++ {
			items = append(items, ref(fmt.Sprintf("%sitem%d", lab, j)))
		}
		nd.F["items"] = hx.List(items...)
	}
}

func subGraph(t *rapid.T) *hx.Graph {
	g := &hx.Graph{Root: 0, Nodes: []*hx.Node{
		{ID: 0, Type: "", F: map[string]hx.Val{"query": hx.Ref(2), "subscription": hx.Ref(1)}},
		{ID: 1, Type: "Subscription", F: map[string]hx.Val{}},
		{ID: 2, Type: "Query", F: map[string]hx.Val{"a": hx.I32(1)}},
	}}
	n := rapid.IntRange(2, 5).Draw(t, "nEvents")
	for i := 0; i < n; i++ {
		g.Nodes = append(g.Nodes, &hx.Node{ID: firstEvent + i, Type: "Event", F: map[string]hx.Val{}})
	}
	ref := func(label string) hx.Val {
		if rapid.IntRange(0, 3).Draw(t, label+"nil") == 0 {
			return hx.Nil()
		}
		return hx.Ref(firstEvent + rapid.IntRange(0, n-1).Draw(t, label))
	}
	for i := 0; i < n; i++ {
		nd := g.Nodes[firstEvent+i]
		lab := fmt.Sprintf("e%d", i)
		nd.F["id"] = hx.Str(fmt.Sprintf("ev-%d", i))
		nd.F["n"] = hx.I32(int32(rapid.IntRange(-5, 5).Draw(t, lab+"n")))
		var tags []hx.Val
		for j := 0; j < rapid.IntRange(0, 3).Draw(t, lab+"ntags"); j++ {
			tags = append(tags, hx.Str(rapid.SampledFrom([]string{"x", "y", "a \"q\"", ""}).Draw(t, fmt.Sprintf("%stag%d", lab, j))))
		}
		nd.F["tags"] = hx.List(tags...)
		nd.F["inner"] = ref(lab + "inner")
		nd.F["kind"] = hx.Str(rapid.SampledFrom([]string{"ALERT", "INFO"}).Draw(t, lab+"kind"))
		nd.F["f"] = hx.F64(float64(rapid.IntRange(-16, 16).Draw(t, lab+"f")) / 8)
		nd.F["watch"] = hx.Str(fmt.Sprintf("w-%d", i))
		var more []hx.Val
		for j := 0; j < rapid.IntRange(0, 2).Draw(t, lab+"nmore"); j++ {
			more = append(more, ref(fmt.Sprintf("%smore%d", lab, j)))
		}
		nd.F["more"] = hx.List(more...)
	}
	return g
}

// hsub is the harness' Subscriber.
type hsub struct {
	num      int
	pattern  string
	wildcard bool
	failAt   map[int]bool // 1-based delivery numbers that fail
	sels     []*hx.Sel
	frags    []*hx.Frag

	deliveries int
	msgs       []interface{}
	cleanups   int
	log        *[]int
	shared     *conn  // the connection (Subscriber object) the subscription was made by
	marker     string // the response key that says a message is for this subscription
	lastRound  int    // (shared connections) the publish that last brought this subscription a message
	idVar      int    // how the request that registered it writes the id argument (Op.IDVar)
	selVar     int    // the selection has a key whose presence depends on a variable of the request (Op.SelVar)
}

// selVarKeeps: does the key that depends on the variable appear in the messages?
func selVarKeeps(mode int) bool { return mode == 1 || mode == 4 }

// selVarValues are the variables the reference applies the selection with.
func selVarValues(mode int) map[string]hx.Val {
	switch mode {
	case 1:
		return map[string]hx.Val{"zh": hx.Bool(false)}
	case 2, 3:
		return map[string]hx.Val{"zh": hx.Bool(true)}
	case 4:
		return map[string]hx.Val{"zh": hx.Bool(true)}
	}
	return nil
}

// conn is one client connection that holds several subscriptions: ONE Subscriber object behind all
// of them (same pattern for all, as Match can not tell them apart). A message is routed to the
// subscription it is for by the marker key that subscription's selection carries.
type conn struct {
	subs     []*hsub
	cleanups int
	stray    int
	// a message for a null event has no marker: it is taken to be for the first subscription of
	// the connection that is still registered (isLive) and has had no message in this publish (round)
	isLive func(*hsub) bool
	round  *int
}

func (c *conn) Match(eventID string) bool { return c.subs[0].Match(eventID) }
func (c *conn) Send(v interface{}) error {
	if len(c.subs) == 1 {
		return c.subs[0].Send(v)
	}
	if m, ok := v.(map[string]interface{}); ok {
		for _, h := range c.subs {
			if _, has := m[h.marker]; has && h.marker != "" {
				h.lastRound = *c.round
				return h.Send(v)
			}
		}
	}
	if v == nil && c.isLive != nil {
		for _, h := range c.subs {
			if c.isLive(h) && h.lastRound != *c.round {
				h.lastRound = *c.round
				return h.Send(v)
			}
		}
	}
	c.stray++
	return nil
}
func (c *conn) Unsubscribe() { c.cleanups++ }

var errSend = errors.New("injected send failure")

func (h *hsub) Match(eventID string) bool {
	if h.wildcard {
		return strings.HasPrefix(eventID, h.pattern)
	}
	return eventID == h.pattern
}

func (h *hsub) Send(v interface{}) error {
	h.deliveries++
	h.msgs = append(h.msgs, v)
	*h.log = append(*h.log, h.num)
	if h.failAt[h.deliveries] {
		return errSend
	}
	return nil
}

func (h *hsub) Unsubscribe() { h.cleanups++ }

func (h *hsub) String() string {
	k := "exact"
	if h.wildcard {
		k = "prefix"
	}
	return fmt.Sprintf("sub#%d(%s %q fail@%v)", h.num, k, h.pattern, keys(h.failAt))
}

func keys(m map[int]bool) []int {
	var out []int
	for i := 1; i <= 8; i++ {
		if m[i] {
			out = append(out, i)
		}
	}
	return out
}

var idPool = []string{"a", "b", "a1", "ab", "b2"}

// Op is one step of a subscription history.
type Op struct {
	Kind     string     `json:"kind"` // subscribe | publish | unsubscribe
	Pattern  string     `json:"pattern,omitempty"`
	Wildcard bool       `json:"wildcard,omitempty"`
	FailAt   []int      `json:"fail_at,omitempty"`
	Field    string     `json:"field,omitempty"`
	Sels     []*hx.Sel  `json:"sels,omitempty"`
	Frags    []*hx.Frag `json:"frags,omitempty"`
	ID       string     `json:"id,omitempty"`    // event id (publish) / id (unsubscribe)
	Event    int        `json:"event,omitempty"` // node of the published event
	// Events (non-nil): the published event is a list of these nodes (-1: a null member), meant for
	// the subscribers of the list typed field batch
	Events []int `json:"events"`
	// Nil (publish): the published event is null - 1: an untyped nil, 2: a nil pointer of the type
	// the events have. Each matching subscriber gets its message, with null for the event.
	Nil int `json:"nil_event,omitempty"`
	// NoMarker (subscribe): the selection gets no marker key (the subscription has a connection of its own)
	NoMarker bool `json:"no_marker,omitempty"`
	// RootAlias (subscribe): the subscription field of the request carries this alias
	RootAlias string `json:"root_alias,omitempty"`
	// IDVar (subscribe): the id argument is written as a variable - 1: with the pattern as its
	// default and no value, 2: given a value (the default is something else)
	IDVar int `json:"id_var,omitempty"`
	// SelVar (subscribe): the selection applied to the events has a key zsv that depends on a variable
	// of the request - 1: @skip(if: $zh), $zh given as false; 2: the same, given as true; 3: @skip with
	// $zh: Boolean = true and no value; 4: @include(if: $zh), given as true
	SelVar int `json:"sel_var,omitempty"`
	// ReuseOf > 0: this subscription request is not parsed afresh, the parsed request of the
	// ReuseOf-th subscribe step (1-based) is resolved again (same selection, same id)
	ReuseOf int `json:"reuse_of,omitempty"`
	// ShareWith > 0: the subscription is made by the connection (Subscriber object) that made the
	// ShareWith-th subscribe step (1-based); pattern and field are that step's
	ShareWith int `json:"share_with,omitempty"`
	// Cond: the subscription field carries a condition that lets it through -
	// include-default (@include(if: $v), $v: Boolean = true, no value given), skip-default
	// (@skip(if: $w), $w: Boolean = false), include-given ($v given as true), include-literal
	Cond string `json:"cond,omitempty"`
	// Wrap: the subscription field is not written directly in the operation but inside an inline
	// fragment (inline, inline-typed) or a named fragment on Subscription that is spread (spread)
	Wrap string `json:"wrap,omitempty"`
}

type c19Case struct {
	Graph    *hx.Graph `json:"graph"`
	Strategy string    `json:"strategy"`
	Abstract bool      `json:"abstract,omitempty"` // events of two object types behind an interface and a union
	ListSeed int       `json:"list_seed"`
	Ops      []Op      `json:"ops"`
	// Faults: fields of events whose resolver fails (strategies R and A): the subscriber still gets
	// its message, with null at that position, and the publish reports an error
	Faults []hx.Fault `json:"faults,omitempty"`
	// SubRoot: the name of the subscription root type ("" = Subscription, implied schema; anything else
	// is named by a schema block)
	SubRoot string `json:"sub_root,omitempty"`
}

func genCaseC19(rt *rapid.T) *c19Case {
	c := &c19Case{Strategy: rapid.SampledFrom([]string{"R", "X", "A"}).Draw(rt, "eventStrategy"), Graph: subGraph(rt), ListSeed: rapid.IntRange(0, 1<<16).Draw(rt, "listSeed")}
	if c.Strategy == "X" && rapid.Bool().Draw(rt, "abstract") {
		c.Abstract = true
		addNotes(rt, c.Graph)
	}
	if c.Strategy != "X" && rapid.IntRange(0, 2).Draw(rt, "failingEventFields") == 0 {
		for i := 0; i < rapid.IntRange(1, 3).Draw(rt, "nFaults"); i++ {
			nd := c.Graph.Nodes[firstEvent+rapid.IntRange(0, len(c.Graph.Nodes)-firstEvent-1).Draw(rt, fmt.Sprintf("fault%dnode", i))]
			f := rapid.SampledFrom([]string{"id", "n", "tags", "inner", "kind", "f", "more"}).Draw(rt, fmt.Sprintf("fault%dfield", i))
			dup := false
			for _, e := range c.Faults {
				dup = dup || (e.Node == nd.ID && e.Field == f)
			}
			if !dup && nd.Type == "Event" {
				c.Faults = append(c.Faults, hx.Fault{Node: nd.ID, Field: f, Kind: "err"})
			}
		}
	}
	if rapid.IntRange(0, 3).Draw(rt, "subscriptionRootRenamed") == 0 {
		c.SubRoot = "Events"
	}
	schema := subSchema(c.Abstract, c.SubRoot)
	var eventNodes []int
	for _, nd := range c.Graph.Nodes {
		if nd.Type == "Event" {
			eventNodes = append(eventNodes, nd.ID)
		}
	}
	// a subscriber on a field returning Event must not be sent a Note: abstract subscriptions and the
	// events meant for them use identifiers of their own, and once a concrete subscription matching
	// every identifier was made only Event nodes are published
	absPool := []string{"t", "u", "t1", "tu", "u2"}
	batchPool := []string{"l", "m", "l1", "lm"}
	catchAll := false
	n := rapid.IntRange(5, 40).Draw(rt, "steps")
	subs := 0
	for i := 0; i < n; i++ {
		lab := fmt.Sprintf("s%d", i)
		kind := rapid.SampledFrom([]string{"subscribe", "subscribe", "publish", "publish", "publish", "unsubscribe"}).Draw(rt, lab+"kind")
		if subs == 0 {
			kind = "subscribe"
		}
		switch kind {
		case "subscribe":
			subs++
			op := Op{Kind: kind, Pattern: rapid.SampledFrom(idPool).Draw(rt, lab+"pattern")}
			if rapid.IntRange(0, 2).Draw(rt, lab+"wildcard") == 0 {
				op.Wildcard = true
				op.Pattern = rapid.SampledFrom([]string{"a", "b", ""}).Draw(rt, lab+"prefix")
			}
			if rapid.IntRange(0, 3).Draw(rt, lab+"wrapped") == 0 {
				op.Wrap = rapid.SampledFrom([]string{"inline", "inline-typed", "spread"}).Draw(rt, lab+"wrap")
			}
			if rapid.IntRange(0, 3).Draw(rt, lab+"conditioned") == 0 {
				op.Cond = rapid.SampledFrom([]string{"include-default", "skip-default", "include-given", "include-literal"}).Draw(rt, lab+"cond")
			}
			if rapid.IntRange(0, 3).Draw(rt, lab+"rootAliased") == 0 {
				op.RootAlias = rapid.SampledFrom([]string{"mine", "watch", "listen", "id"}).Draw(rt, lab+"rootAlias")
			}
			if rapid.IntRange(0, 3).Draw(rt, lab+"idByVariable") == 0 {
				op.IDVar = rapid.IntRange(1, 2).Draw(rt, lab+"idVar")
			}
			if rapid.IntRange(0, 3).Draw(rt, lab+"selectionByVariable") == 0 {
				op.SelVar = rapid.IntRange(1, 4).Draw(rt, lab+"selVar")
			}
			op.FailAt = rapid.SliceOfNDistinct(rapid.IntRange(1, 4), 0, 2, rapid.ID[int]).Draw(rt, lab+"failPlan")
			op.Field = rapid.SampledFrom([]string{"watch", "listen"}).Draw(rt, lab+"field")
			ret := "Event"
			if c.Abstract && rapid.IntRange(0, 2).Draw(rt, lab+"abstractField") != 0 {
				op.Field = rapid.SampledFrom([]string{"things", "items"}).Draw(rt, lab+"absField")
				ret = map[string]string{"things": "Thing", "items": "Item"}[op.Field]
				op.Pattern = rapid.SampledFrom(absPool).Draw(rt, lab+"absPattern")
				if op.Wildcard {
					op.Pattern = rapid.SampledFrom([]string{"t", "u"}).Draw(rt, lab+"absPrefix")
				}
			} else if rapid.IntRange(0, 4).Draw(rt, lab+"batchField") == 0 {
				// a subscription field of a list type: its events are lists, every member gets the selection
				op.Field = "batch"
				op.Pattern = rapid.SampledFrom(batchPool).Draw(rt, lab+"batchPattern")
				if op.Wildcard {
					op.Pattern = rapid.SampledFrom([]string{"l", "m"}).Draw(rt, lab+"batchPrefix")
				}
			} else if op.Wildcard && op.Pattern == "" {
				catchAll = true
			}
			op.Sels, op.Frags = exec.GenSelection(rt, schema, ret, exec.Profile{MaxDepth: rapid.IntRange(1, 3).Draw(rt, lab+"depth"), Abstract: c.Abstract, Dirs: rapid.Bool().Draw(rt, lab+"dirs"), LitDirs: true}, lab+"sel")
			if ret == "Event" && op.Field != "batch" && rapid.IntRange(0, 5).Draw(rt, lab+"twinSelections") == 0 {
				// two subscriptions for the same events whose selections are the same text but for a
				// condition on a fragment spread
				fr := &hx.Frag{Name: fmt.Sprintf("FW%d", i), On: "Event", Sels: []*hx.Sel{{Kind: "field", Name: "n"}, {Kind: "field", Name: "kind"}}}
				first := op
				first.Sels = []*hx.Sel{{Kind: "spread", Name: fr.Name}, {Kind: "field", Name: "id"}}
				first.Frags = []*hx.Frag{fr}
				first.FailAt = nil
				if rapid.IntRange(0, 2).Draw(rt, lab+"twinBodies") == 0 {
					// ... or: the very same selection text, spreading a fragment of the same name whose
					// body differs between the two requests (no marker key: the texts are to be equal)
					second := first
					second.Frags = []*hx.Frag{{Name: fr.Name, On: "Event", Sels: []*hx.Sel{{Kind: "field", Name: "n"}, {Kind: "field", Name: "tags"}, {Kind: "field", Name: "f"}}}}
					first.NoMarker, second.NoMarker = true, true
					if rapid.Bool().Draw(rt, lab+"twinOrder") {
						first, second = second, first
					}
					c.Ops = append(c.Ops, first, second)
					subs += 1
					continue
				}
				second := first
				cond := rapid.SampledFrom([]hx.DirUse{{Name: "skip", Args: []hx.KV{{Key: "if", V: hx.Bool(true)}}}, {Name: "include", Args: []hx.KV{{Key: "if", V: hx.Bool(false)}}}}).Draw(rt, lab+"twinCond")
				second.Sels = []*hx.Sel{{Kind: "spread", Name: fr.Name, Dirs: []hx.DirUse{cond}}, {Kind: "field", Name: "id"}}
				if rapid.Bool().Draw(rt, lab+"twinOrder") {
					first, second = second, first
				}
				c.Ops = append(c.Ops, first, second)
				subs += 1
				continue
			}
			if subs > 1 && rapid.IntRange(0, 3).Draw(rt, lab+"reuse") == 0 {
				// an application that keeps the parsed subscription request and resolves it once per client
				op.ReuseOf = rapid.IntRange(1, subs-1).Draw(rt, lab+"reuseOf")
				k := 0
				for _, prev := range c.Ops {
					if prev.Kind == "subscribe" {
						if k++; k == op.ReuseOf {
							for prev.ReuseOf > 0 { // (chains end at the step that parsed the request)
								op.ReuseOf = prev.ReuseOf
								kk := 0
								for _, p2 := range c.Ops {
									if p2.Kind == "subscribe" {
										if kk++; kk == op.ReuseOf {
											prev = p2
											break
										}
									}
								}
							}
							op.Pattern, op.Wildcard, op.Sels, op.Frags, op.Field, op.Cond, op.Wrap = prev.Pattern, prev.Wildcard, prev.Sels, prev.Frags, prev.Field, prev.Cond, prev.Wrap
							break
						}
					}
				}
			}
			if op.ReuseOf == 0 && op.Field != "batch" && subs > 1 && rapid.IntRange(0, 4).Draw(rt, lab+"share") == 0 {
				k, want := 0, rapid.IntRange(1, subs-1).Draw(rt, lab+"shareWith")
				for _, prev := range c.Ops {
					if prev.Kind == "subscribe" {
						// (identifiers of abstract and plain subscriptions are kept apart)
						if k++; k == want && prev.Field != "batch" && (prev.Field == "things" || prev.Field == "items") == (op.Field == "things" || op.Field == "items") {
							op.ShareWith = want
							if prev.ShareWith > 0 {
								op.ShareWith = prev.ShareWith
							}
							op.Pattern, op.Wildcard = prev.Pattern, prev.Wildcard
						}
					}
				}
			}
			c.Ops = append(c.Ops, op)
		case "publish":
			if !catchAll && rapid.IntRange(0, 4).Draw(rt, lab+"batchEvent") == 0 {
				op := Op{Kind: kind, ID: rapid.SampledFrom(batchPool).Draw(rt, lab+"batchEventID"), Events: []int{}}
				for j := 0; j < rapid.IntRange(0, 3).Draw(rt, lab+"batchLen"); j++ {
					if rapid.IntRange(0, 4).Draw(rt, fmt.Sprintf("%sbatchNil%d", lab, j)) == 0 {
						op.Events = append(op.Events, -1)
					} else {
						op.Events = append(op.Events, rapid.SampledFrom(eventNodes).Draw(rt, fmt.Sprintf("%sbatchMember%d", lab, j)))
					}
				}
				c.Ops = append(c.Ops, op)
				continue
			}
			if c.Abstract && rapid.Bool().Draw(rt, lab+"absEvent") {
				op := Op{Kind: kind, ID: rapid.SampledFrom(absPool).Draw(rt, lab+"absEventID")}
				if catchAll {
					op.Event = rapid.SampledFrom(eventNodes).Draw(rt, lab+"event")
				} else {
					op.Event = firstEvent + rapid.IntRange(0, len(c.Graph.Nodes)-firstEvent-1).Draw(rt, lab+"anyEvent")
				}
				c.Ops = append(c.Ops, op)
				continue
			}
			pub := Op{Kind: kind, ID: rapid.SampledFrom(idPool).Draw(rt, lab+"eventID"),
				Event: rapid.SampledFrom(eventNodes).Draw(rt, lab+"event")}
			if rapid.IntRange(0, 7).Draw(rt, lab+"nullEvent") == 0 {
				pub.Nil = rapid.IntRange(1, 2).Draw(rt, lab+"nullEventKind")
			}
			c.Ops = append(c.Ops, pub)
		default:
			pool := append(append([]string{}, idPool...), batchPool...)
			if c.Abstract {
				pool = append(pool, absPool...)
			}
			c.Ops = append(c.Ops, Op{Kind: kind, ID: rapid.SampledFrom(pool).Draw(rt, lab+"unsubID")})
		}
	}
	return c
}

// runHistory executes a history against ggql and the list model.
func runHistory(cc *c19Case) (ds []hx.Discrepancy, traits map[string]bool, hist []string) {
	traits = map[string]bool{}
	subRoot := "Subscription"
	if cc.SubRoot != "" {
		subRoot = cc.SubRoot
		traits["subscription-root-type-with-another-name"] = true
	}
	cc.Graph.Nodes[1].Type = subRoot
	c := &exec.Case{Schema: subSchema(cc.Abstract, cc.SubRoot), Graph: cc.Graph, ListSeed: cc.ListSeed, Faults: cc.Faults}
	if cc.Abstract {
		c.Register = []string{"Event", "Note"}
	}
	for _, n := range c.Graph.Nodes {
		switch {
		case n.ID < firstEvent && cc.Strategy == "A":
			c.Assign = append(c.Assign, "A")
		case n.ID < firstEvent:
			c.Assign = append(c.Assign, "R")
		default:
			c.Assign = append(c.Assign, cc.Strategy)
		}
	}
	c.AnyInstalled = cc.Strategy == "A"
	w, err := exec.NewWorld(c)
	if err != nil {
		return []hx.Discrepancy{{Kind: "setup", Detail: err.Error()}}, traits, nil
	}
	var (
		all      []*hsub
		live     []*hsub
		round    int
		order    []int
		pending  *hsub
		hookHits int
		exes     []*ggql.Executable // parsed request per subscribe step (nil for steps that reused one)
	)
	w.Hook = func(node int, field *ggql.Field, args map[string]interface{}) (interface{}, error, bool) {
		if node != 1 || pending == nil {
			return nil, nil, false
		}
		hookHits++
		h := pending
		pending = nil
		if id, _ := args["id"].(string); id != h.pattern {
			return nil, fmt.Errorf("subscription field received id %q, the request said %q", id, h.pattern), true
		}
		if h.shared != nil {
			return ggql.NewSubscription(h.shared, field, args), nil, true
		}
		return ggql.NewSubscription(h, field, args), nil, true
	}
	failed := false
	fail := func(format string, args ...interface{}) {
		if failed {
			return
		}
		failed = true
		ds = append(ds, hx.Discrepancy{Kind: "history", Detail: fmt.Sprintf(format, args...) + "\nhistory:\n  " + strings.Join(hist, "\n  ")})
	}
	defer func() {
		if r := recover(); r != nil {
			fail("panic: %v", r)
		}
	}()
	invariant := func() {
		isLive := map[*hsub]bool{}
		for _, h := range live {
			isLive[h] = true
		}
		conns := map[*conn]bool{}
		for _, h := range all {
			if h.shared != nil {
				conns[h.shared] = true
			}
		}
		for cn := range conns {
			gone := 0
			for _, h := range cn.subs {
				if !isLive[h] {
					gone++
				}
			}
			if cn.cleanups != gone {
				fail("a connection with %d subscriptions, %d of them removed, had its clean-up called %d times", len(cn.subs), gone, cn.cleanups)
			}
			if cn.stray > 0 {
				fail("a connection received %d messages that are for none of its subscriptions", cn.stray)
			}
		}
		for _, h := range all {
			if h.shared != nil {
				continue
			}
			if h.cleanups > 1 {
				fail("%v cleaned up %d times", h, h.cleanups)
			}
			if isLive[h] && h.cleanups != 0 {
				fail("%v is still subscribed in the model but its clean-up ran", h)
			}
			if !isLive[h] && h.cleanups != 1 {
				fail("%v was removed but its clean-up ran %d times", h, h.cleanups)
			}
		}
	}
	for _, op := range cc.Ops {
		if failed {
			break
		}
		switch op.Kind {
		case "subscribe":
			h := &hsub{num: len(all), pattern: op.Pattern, wildcard: op.Wildcard, log: &order, failAt: map[int]bool{}, sels: op.Sels, frags: op.Frags}
			if op.Field != "batch" && !op.NoMarker {
				// (a key that says which subscription a message is for)
				h.marker = fmt.Sprintf("mk%d", h.num)
				h.sels = append(append([]*hx.Sel{}, op.Sels...), &hx.Sel{Kind: "field", Alias: h.marker, Name: "__typename"})
			}
			if op.SelVar > 0 && op.ReuseOf == 0 {
				h.selVar = op.SelVar
				dir := "skip"
				if op.SelVar == 4 {
					dir = "include"
				}
				h.sels = append(append([]*hx.Sel{}, h.sels...), &hx.Sel{Kind: "field", Alias: "zsv", Name: "__typename",
					Dirs: []hx.DirUse{{Name: dir, Args: []hx.KV{{Key: "if", V: hx.VarV("zh")}}}}})
				traits["selection-depends-on-a-variable-of-the-request"] = true
			}
			if op.ReuseOf > 0 && op.ReuseOf <= len(all) {
				h.sels, h.marker = all[op.ReuseOf-1].sels, all[op.ReuseOf-1].marker // (the parsed request that is resolved again carries that step's marker)
				h.idVar = all[op.ReuseOf-1].idVar
				h.selVar = all[op.ReuseOf-1].selVar
			}
			if op.ShareWith > 0 && op.ShareWith <= len(all) && op.ReuseOf == 0 {
				unique := h.marker != ""
				if first := all[op.ShareWith-1]; first.shared != nil {
					for _, o := range first.shared.subs {
						unique = unique && o.marker != h.marker && o.marker != ""
					}
				}
				if first := all[op.ShareWith-1]; unique && first.pattern == h.pattern && first.wildcard == h.wildcard && first.shared != nil {
					h.shared = first.shared
					h.shared.subs = append(h.shared.subs, h)
					traits["one-subscriber-object-behind-two-subscriptions"] = true
				}
			}
			if h.shared == nil {
				h.shared = &conn{subs: []*hsub{h}, round: &round, isLive: func(x *hsub) bool { return contains(live, x) }}
			}
			for _, k := range op.FailAt {
				h.failAt[k] = true
			}
			doc := &hx.Doc{Ops: []*hx.Op{{Type: "subscription", Name: "S", Sels: []*hx.Sel{{Kind: "field", Name: op.Field,
				Args: []hx.KV{{Key: "id", V: hx.Str(h.pattern)}}, Sels: h.sels}}}}, Frags: h.frags}
			var subVars map[string]interface{}
			yes, no := hx.Bool(true), hx.Bool(false)
			switch op.Cond {
			case "include-default":
				doc.Ops[0].Vars = []*hx.VarDef{{Name: "v", Type: hx.Named("Boolean"), Default: &yes}}
				doc.Ops[0].Sels[0].Dirs = []hx.DirUse{{Name: "include", Args: []hx.KV{{Key: "if", V: hx.VarV("v")}}}}
			case "skip-default":
				doc.Ops[0].Vars = []*hx.VarDef{{Name: "w", Type: hx.Named("Boolean"), Default: &no}}
				doc.Ops[0].Sels[0].Dirs = []hx.DirUse{{Name: "skip", Args: []hx.KV{{Key: "if", V: hx.VarV("w")}}}}
			case "include-given":
				doc.Ops[0].Vars = []*hx.VarDef{{Name: "v", Type: hx.Named("Boolean")}}
				doc.Ops[0].Sels[0].Dirs = []hx.DirUse{{Name: "include", Args: []hx.KV{{Key: "if", V: hx.VarV("v")}}}}
				subVars = map[string]interface{}{"v": true}
			case "include-literal":
				doc.Ops[0].Sels[0].Dirs = []hx.DirUse{{Name: "include", Args: []hx.KV{{Key: "if", V: yes}}}}
			}
			if op.Cond != "" {
				traits["conditioned-subscription-field"] = true
			}
			if op.RootAlias != "" && op.ReuseOf == 0 {
				doc.Ops[0].Sels[0].Alias = op.RootAlias
				traits["subscription-field-with-an-alias"] = true
			}
			if op.ReuseOf == 0 {
				h.idVar = op.IDVar
			}
			if h.idVar == 2 && op.ReuseOf > 0 {
				// (the parsed request that is resolved again wants its variable)
				if subVars == nil {
					subVars = map[string]interface{}{}
				}
				subVars["sid"] = h.pattern
			}
			if h.selVar > 0 {
				yesV := hx.Bool(true)
				vd := &hx.VarDef{Name: "zh", Type: hx.Named("Boolean").NN()}
				if h.selVar == 3 {
					vd = &hx.VarDef{Name: "zh", Type: hx.Named("Boolean"), Default: &yesV}
				} else {
					if subVars == nil {
						subVars = map[string]interface{}{}
					}
					subVars["zh"] = selVarValues(h.selVar)["zh"].Go()
				}
				doc.Ops[0].Vars = append(doc.Ops[0].Vars, vd)
			}
			if op.IDVar > 0 && op.ReuseOf == 0 {
				traits["subscription-argument-by-variable"] = true
				dflt := hx.Str(h.pattern)
				if op.IDVar == 2 {
					dflt = hx.Str("zz-not-this")
					if subVars == nil {
						subVars = map[string]interface{}{}
					}
					subVars["sid"] = h.pattern
				}
				doc.Ops[0].Vars = append(doc.Ops[0].Vars, &hx.VarDef{Name: "sid", Type: hx.Named("String"), Default: &dflt})
				doc.Ops[0].Sels[0].Args = []hx.KV{{Key: "id", V: hx.VarV("sid")}}
			}

			switch op.Wrap {
			case "inline", "inline-typed":
				on := ""
				if op.Wrap == "inline-typed" {
					on = subRoot
				}
				doc.Ops[0].Sels = []*hx.Sel{{Kind: "inline", On: on, Sels: doc.Ops[0].Sels}}
			case "spread":
				doc.Frags = append(append([]*hx.Frag{}, doc.Frags...), &hx.Frag{Name: "SubF", On: subRoot, Sels: doc.Ops[0].Sels})
				doc.Ops[0].Sels = []*hx.Sel{{Kind: "spread", Name: "SubF"}}
			}
			if op.Wrap != "" {
				traits["subscription-field-inside-a-fragment"] = true
			}
			doc.Number()
			text := doc.Render(hx.Layout{Mode: "single"}).Text
			pending = h
			before := hookHits
			var res map[string]interface{}
			if op.ReuseOf > 0 && op.ReuseOf <= len(exes) && exes[op.ReuseOf-1] != nil {
				traits["parsed-subscription-request-resolved-again"] = true
				r2, rerr := w.Root.ResolveExecutable(exes[op.ReuseOf-1], "S", subVars)
				res = r2
				if res == nil {
					res = map[string]interface{}{}
				}
				if rerr != nil {
					res["errors"] = ggql.FormErrorsResult(rerr)
				}
				exes = append(exes, nil)
				text = fmt.Sprintf("(the request parsed by subscribe step %d, resolved again) %s", op.ReuseOf, text)
			} else {
				exe, perr := w.Root.ParseExecutableString(text)
				if perr != nil {
					fail("subscription request does not parse: %v\n%s", perr, text)
					break
				}
				exes = append(exes, exe)
				r2, rerr := w.Root.ResolveExecutable(exe, "S", subVars)
				res = r2
				if res == nil {
					res = map[string]interface{}{}
				}
				if rerr != nil {
					res["errors"] = ggql.FormErrorsResult(rerr)
				}
			}
			hist = append(hist, fmt.Sprintf("subscribe %v: %s", h, text))
			if _, has := res["errors"]; has || hookHits != before+1 {
				fail("subscription request was not registered cleanly: response %s (resolver invoked %d times)", hx.Show(hx.Norm(res)), hookHits-before)
			}
			if len(all) > len(live) {
				traits["re-subscribe-after-removal"] = true
			}
			all = append(all, h)
			live = append(live, h)
		case "publish":
			id, evID := op.ID, op.Event
			var matching []*hsub
			for _, h := range live {
				if h.Match(id) {
					matching = append(matching, h)
				}
			}
			prevMsgs := map[*hsub]int{}
			for _, h := range all {
				prevMsgs[h] = len(h.msgs)
			}
			order = order[:0]
			round++
			var eventValue interface{} = nil
			if op.Events != nil {
				members := make([]interface{}, len(op.Events))
				for j, nid := range op.Events {
					if nid >= 0 {
						members[j] = w.NodeValue(nid)
					}
				}
				eventValue = members
				traits["event-that-is-a-list"] = true
			} else {
				eventValue = w.NodeValue(evID)
				if op.Nil > 0 {
					traits["event-that-is-null"] = true
					if rv := reflect.ValueOf(eventValue); op.Nil == 2 && rv.Kind() == reflect.Ptr {
						eventValue = reflect.Zero(rv.Type()).Interface()
					} else {
						eventValue = nil
					}
				}
			}
			cnt, err := w.Root.AddEvent(id, eventValue)
			hist = append(hist, fmt.Sprintf("publish id=%q event=node%d members=%v -> count %d err %v (model: %d matching)", id, evID, op.Events, cnt, err != nil, len(matching)))
			if cnt != len(matching) {
				fail("publish(%q) reported %d, the model has %d matching live subscribers", id, cnt, len(matching))
			}
			var wantOrder []int
			for _, h := range matching {
				wantOrder = append(wantOrder, h.num)
			}
			if fmt.Sprint(order) != fmt.Sprint(wantOrder) {
				fail("publish(%q) delivered in order %v, registration order of the matching subscribers is %v", id, order, wantOrder)
			}
			anyFailed := false
			resolveErrors := 0
			var still []*hsub
			failedSet := map[*hsub]bool{}
			for _, h := range matching {
				if len(h.msgs) != prevMsgs[h]+1 {
					fail("%v received %d messages for one publish", h, len(h.msgs)-prevMsgs[h])
					continue
				}
				var want interface{}
				if op.Events != nil {
					l := make([]interface{}, len(op.Events))
					for j, nid := range op.Events {
						if nid >= 0 {
							x := &hx.Exec{S: c.Schema, G: c.Graph, D: &hx.Doc{Frags: h.frags}, Faults: cc.Faults}
							exp := x.RunSelection(c.Graph.Nodes[nid], h.sels, selVarValues(h.selVar))
							l[j] = exp.Data
							resolveErrors += len(exp.Errors)
						}
					}
					want = l
				} else if op.Nil > 0 {
					want = nil
				} else {
					x := &hx.Exec{S: c.Schema, G: c.Graph, D: &hx.Doc{Frags: h.frags}, Faults: cc.Faults}
					exp := x.RunSelection(c.Graph.Nodes[evID], h.sels, selVarValues(h.selVar))
					want = exp.Data
					resolveErrors += len(exp.Errors)
				}
				got := hx.Norm(h.msgs[len(h.msgs)-1])
				if !hx.Equal(want, got) {
					fail("%v received %s for event node%d, its selection gives %s", h, hx.Show(got), evID, hx.Show(want))
				}
				if h.failAt[h.deliveries] {
					anyFailed = true
					failedSet[h] = true
				}
			}
			for _, h := range all {
				if !contains(matching, h) && len(h.msgs) != prevMsgs[h] {
					fail("%v does not match %q (or is not subscribed any more) but received a message", h, id)
				}
			}
			for _, h := range live {
				if !failedSet[h] {
					still = append(still, h)
				}
			}
			live = still
			if (anyFailed || resolveErrors > 0) != (err != nil) {
				fail("publish(%q): a delivery failed = %v, %d fields of the event failed to resolve, but err = %v", id, anyFailed, resolveErrors, err)
			}
			if resolveErrors > 0 {
				traits["event-field-fails-to-resolve"] = true
			}
			if len(matching) >= 2 {
				traits["publish-with->=2-matches"] = true
			}
			if anyFailed {
				traits["failing-delivery"] = true
				if len(matching) >= 2 && !failedSet[matching[len(matching)-1]] {
					traits["failing-delivery-not-last"] = true
				}
			}
		case "unsubscribe":
			var gone, still []*hsub
			for _, h := range live {
				if h.Match(op.ID) {
					gone = append(gone, h)
				} else {
					still = append(still, h)
				}
			}
			cnt := w.Root.Unsubscribe(op.ID)
			hist = append(hist, fmt.Sprintf("unsubscribe %q -> %d (model: %d)", op.ID, cnt, len(gone)))
			if cnt != len(gone) {
				fail("unsubscribe(%q) reported %d, the model removes %d", op.ID, cnt, len(gone))
			}
			live = still
			if len(gone) > 0 && len(still) > 0 {
				traits["unsubscribe-proper-subset"] = true
			}
		}
		invariant()
	}
	return
}

func c19Run(cc *c19Case, ds *[]hx.Discrepancy, traits *map[string]bool, hist *[]string, done chan struct{}) {
	defer close(done)
	*ds, *traits, *hist = runHistory(cc)
}

func TestC19(t *testing.T) {
	run := hx.NewRun("C19")
	defer run.Flush()
	one := func(fatal func(string, ...interface{}), cc *c19Case) {
		// the history runs on a goroutine of its own: a call that parks itself on a lock for good
		// (a publish that kept the registry's lock, say) is seen from the state of that goroutine
		var ds []hx.Discrepancy
		var traits map[string]bool
		var hist []string
		done := make(chan struct{})
		go c19Run(cc, &ds, &traits, &hist, done)
		if stuck := hx.AwaitOrStuck(done, "sub.c19Run"); stuck != "" {
			run.Case(hx.Hash(cc), true, "deadlock")
			fmt.Printf("--- FAIL: REPLAY-FAIL C19 violated: %s\n", run.ReportFailure(cc, []hx.Discrepancy{{Kind: "deadlock", Detail: "a call of the history never returns: " + stuck}}))
			os.Exit(1)
		}
		var cl []string
		for k := range traits {
			cl = append(cl, k)
		}
		cl = append(cl, "events-by="+cc.Strategy)
		if cc.Abstract {
			cl = append(cl, "events-of-two-types-behind-interface-and-union")
		}
		nt := traits["publish-with->=2-matches"] && traits["failing-delivery"] && traits["unsubscribe-proper-subset"]
		run.Case(hx.Hash(cc), nt, cl...)
		run.ClassN("steps", len(hist))
		run.Sample(func() interface{} { return map[string]interface{}{"history": hist} })
		if real := run.Triage(ds); len(real) > 0 {
			fatal("C19 violated: %s", run.ReportFailure(cc, real))
		}
	}
	if f := hx.Replaying(); f != "" {
		var cc c19Case
		if err := hx.LoadCase(f, &cc); err != nil {
			t.Fatalf("load %s: %v", f, err)
		}
		one(func(f string, a ...interface{}) { t.Fatalf("REPLAY-FAIL "+f, a...) }, &cc)
		return
	}
	rapid.Check(t, func(rt *rapid.T) { one(rt.Fatalf, genCaseC19(rt)) })
}

func contains(l []*hsub, h *hsub) bool {
	for _, x := range l {
		if x == h {
			return true
		}
	}
	return false
}
