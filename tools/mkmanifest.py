#!/usr/bin/env python3
"""Regenerate /verif/MANIFEST.json from checks.py (+ hooks.json, not_applicable.json) and validate it."""
import json, os, sys
V = os.path.dirname(os.path.dirname(os.path.abspath(__file__)))
sys.path.insert(0, V)
from checks import PROPS

props = [json.loads(l) for l in open(os.path.join(V, "properties.jsonl"))]
ids = [p["id"] for p in props]
hooks = json.load(open(os.path.join(V, "hooks.json")))
na = json.load(open(os.path.join(V, "not_applicable.json")))
na = [x for x in na if x["property_id"] not in PROPS]
for i in ids:
    if i not in PROPS and not any(x["property_id"] == i for x in na):
        na.append(dict(property_id=i, reason="check not built yet in this revision of /verif (planned, see DESIGN.md section 5)"))
engines = {}
checks = []
for pid in ids:
    if pid not in PROPS:
        continue
    c = PROPS[pid]
    e = engines.setdefault(c["engine"], dict(name=c["engine"], path="harness/" + c["pkg"], serves_properties=[], kind_free_text=c.get("engine_kind", "rapid property-based tests (Go)")))
    e["serves_properties"].append(pid)
    entry = dict(property_id=pid, quick_cmd=f"python3 run.py {pid} quick", thorough_cmd=f"python3 run.py {pid} thorough",
                 evidence_file=f"/verif/evidence/{pid}.json", replay_cmd_template=f"python3 run.py replay {pid} {{path}}",
                 engine=c["engine"],
                 level_claimed=dict(category=c.get("level", "exploration"), text=c["level_text"], design_ref=c.get("design_ref", "DESIGN.md")),
                 level_note=c["level_note"], technique=c["technique"])
    checks.append(entry)
m = dict(version=1, setup_cmd="python3 run.py setup", hooks=hooks, engines=list(engines.values()), checks=checks,
         notes="All checks: python3 run.py <Cxx> <quick|thorough>; honours VERIF_SEED (default 1). Known findings: /verif/known_findings.json. "
               "Exit 2 = infrastructure problem (never a property verdict).",
         not_applicable=na)
json.dump(m, open(os.path.join(V, "MANIFEST.json"), "w"), indent=1)
try:
    import jsonschema
    jsonschema.validate(m, json.load(open("/root/.vp/MANIFEST.schema.json")))
    print("MANIFEST.json valid;", len(checks), "checks,", len(na), "not_applicable")
except ImportError:
    print("jsonschema not importable here; wrote MANIFEST.json unvalidated")
