#!/usr/bin/env python3
"""Seeded breaking changes ("mutants") used to measure what the checks catch.

  seeded.py add <id> <property> <src-dir> [--needs "..."]   copy patch.diff / demo_test.go / README.md into /verif/seeded/<id>/
  seeded.py verify <id>          in a scratch worktree: patch applies, builds, pinned suite green, demo fails with / passes without
  seeded.py run <id> [Cxx ...]   apply the patch to /repo, run the quick checks (default: the broken property), undo the patch
  seeded.py table                print the detection table (markdown) from the meta.json files

Nothing is ever committed to /repo; `run` restores /repo with `git checkout -- .` even when a check crashes.
"""
import json, os, re, shutil, subprocess, sys, time

V = os.path.dirname(os.path.dirname(os.path.abspath(__file__)))
SEEDED = os.path.join(V, "seeded")
ENV = dict(os.environ, GOFLAGS="-mod=mod", GOPROXY="off", GOSUMDB="off", GOTOOLCHAIN="local")


def sh(cmd, cwd=None, timeout=3600, env=None):
    p = subprocess.run(cmd, cwd=cwd, env=env or ENV, capture_output=True, text=True, errors="replace", timeout=timeout, shell=isinstance(cmd, str))
    return p.returncode, p.stdout + p.stderr


def meta_path(i):
    return os.path.join(SEEDED, i, "meta.json")


def load_meta(i):
    return json.load(open(meta_path(i)))


def save_meta(i, m):
    json.dump(m, open(meta_path(i), "w"), indent=1)


def add(i, prop, src, needs=""):
    d = os.path.join(SEEDED, i)
    os.makedirs(d, exist_ok=True)
    for f in ("patch.diff", "demo_test.go", "README.md"):
        if os.path.exists(os.path.join(src, f)):
            shutil.copy(os.path.join(src, f), os.path.join(d, f))
    m = dict(id=i, property=prop, origin="independent sub-agent given only the property text and a scratch worktree",
             needs=needs, verified={}, detection={})
    if os.path.exists(meta_path(i)):
        old = load_meta(i)
        old.update({k: v for k, v in m.items() if k in ("property", "needs") and v})
        m = old
    save_meta(i, m)
    print("added", i)


def verify(i):
    d = os.path.join(SEEDED, i)
    wt = f"/tmp/sv-{i}"
    sh(["git", "-C", "/repo", "worktree", "remove", "--force", wt])
    rc, out = sh(["git", "-C", "/repo", "worktree", "add", "--detach", wt, "HEAD"])
    assert rc == 0, out
    res = {}
    try:
        demo = os.path.join(wt, "pkg/ggql/zz_mutant_demo_test.go")
        shutil.copy(os.path.join(d, "demo_test.go"), demo)
        m = re.search(r"func (Test\w+)", open(demo).read())
        names = re.findall(r"func (Test\w+)\(", open(demo).read())
        runpat = "^(" + "|".join(names) + ")$"
        # a demonstration of a pure data race says so in its README: it is run under the race detector
        race = []
        rd = os.path.join(d, "README.md")
        if os.path.exists(rd) and re.search(r"-race` is required|requires? `?-race|needs? `?-race|[Oo]nly the race detector|needs -race|[Mm][Uu][Ss][Tt] be run with `?-race", open(rd).read()):
            race = ["-race"]
            res["demo_under_race_detector"] = True
        rc0, out0 = sh(["go", "test"] + race + ["-vet=off", "-count=1", "-run", runpat, "./pkg/ggql/"], cwd=wt)
        res["demo_without_change"] = "PASS" if rc0 == 0 else "FAIL"
        rc, out = sh(["git", "apply", os.path.join(d, "patch.diff")], cwd=wt)
        res["patch_applies"] = rc == 0
        if rc != 0:
            res["apply_error"] = out[-500:]
        else:
            rcb, outb = sh(["go", "build", "./..."], cwd=wt)
            res["builds"] = rcb == 0
            rc1, out1 = sh(["go", "test"] + race + ["-vet=off", "-count=1", "-run", runpat, "./pkg/ggql/"], cwd=wt)
            res["demo_with_change"] = "FAIL" if rc1 != 0 else "PASS"
            res["demo_output_tail"] = out1[-600:]
            os.remove(demo)
            rcs, outs = sh(["python3", os.path.join(V, "tools/baseline.py"), "--repo", wt])
            res["pinned_suite_with_change"] = outs.strip().splitlines()[0] if outs.strip() else ""
            res["pinned_suite_green"] = rcs == 0
            res["pinned_suite_tagged"] = sh(["python3", os.path.join(V, "tools/baseline.py"), "--repo", wt, "--tags", "verif"])[0] == 0
    finally:
        sh(["git", "-C", "/repo", "worktree", "remove", "--force", wt])
    res["commit"] = sh(["git", "-C", "/repo", "log", "-1", "--format=%h"])[1].strip()
    m = load_meta(i)
    m["verified"] = res
    m["valid"] = bool(res.get("patch_applies") and res.get("builds") and res.get("pinned_suite_green") and res.get("demo_with_change") == "FAIL" and res.get("demo_without_change") == "PASS")
    save_meta(i, m)
    print(i, "valid" if m["valid"] else "INVALID", json.dumps(res)[:400])
    return m["valid"]


def run(i, props):
    """Run checks against a scratch worktree of /repo's HEAD with the patch applied (VERIF_REPO),
    so that /repo itself and /verif/evidence stay untouched."""
    d = os.path.join(SEEDED, i)
    m = load_meta(i)
    if not props:
        props = [m["property"]]
    wt = f"/tmp/sr-{i}"
    sh(["git", "-C", "/repo", "worktree", "remove", "--force", wt])
    rc, out = sh(["git", "-C", "/repo", "worktree", "add", "--detach", wt, "HEAD"])
    assert rc == 0, out
    try:
        rc, out = sh(["git", "apply", os.path.join(d, "patch.diff")], cwd=wt)
        assert rc == 0, out
        for p in props:
            t0 = time.time()
            tier = "quick"
            if ":" in p:
                p, tier = p.split(":")
            seed = os.environ.get("VERIF_SEED", "1")
            rc, out = sh(["python3", os.path.join(V, "run.py"), p, tier], cwd=V, timeout=7200, env=dict(ENV, VERIF_SEED=seed, VERIF_REPO=wt))
            viol = [l for l in out.splitlines() if l.startswith("VIOLATION")]
            first = ""
            lines = out.splitlines()
            for k, l in enumerate(lines):
                if l.startswith("VIOLATION") and k + 1 < len(lines):
                    first = lines[k + 1].strip()[:300]
                    break
            key = p + ("" if tier == "quick" else ":" + tier) + ("" if seed == "1" else "@seed" + seed)
            m.setdefault("detection", {})[key] = dict(exit=rc, violations=len(viol), wall_s=round(time.time() - t0, 1), first_message=first, seed=int(seed),
                                                      at_commit=sh(["git", "-C", "/repo", "log", "-1", "--format=%h"])[1].strip())
            print(f"{i} vs {p} {tier} seed {seed}: exit {rc}, {len(viol)} violation line(s), {time.time()-t0:.0f}s  {first[:200]}")
            if rc == 2:
                print(out[-1500:])
    finally:
        sh(["git", "-C", "/repo", "worktree", "remove", "--force", wt])
        import hashlib
        shutil.rmtree(os.path.join(V, ".build", "alt-" + hashlib.sha1(os.path.abspath(wt).encode()).hexdigest()[:8]), ignore_errors=True)
    save_meta(i, m)
    return m


def table():
    rows = []
    for i in sorted(os.listdir(SEEDED)):
        if not os.path.exists(meta_path(i)):
            continue
        m = load_meta(i)
        det = m.get("detection", {})
        caught = [k for k, v in det.items() if v.get("exit") == 1]
        missed = [k for k, v in det.items() if v.get("exit") == 0]
        rows.append(f"| {i} | {m['property']} | {'yes' if m.get('valid') else 'no'} | {', '.join(caught) or '-'} | {', '.join(missed) or '-'} | {m.get('needs','')[:110]} |")
    print("| mutant | property | valid | caught by | run but not caught by | needs |\n|---|---|---|---|---|---|")
    print("\n".join(rows))


if __name__ == "__main__":
    a = sys.argv[1:]
    if a[0] == "add":
        needs = ""
        if "--needs" in a:
            needs = a[a.index("--needs") + 1]
        add(a[1], a[2], a[3], needs)
    elif a[0] == "verify":
        sys.exit(0 if verify(a[1]) else 1)
    elif a[0] == "run":
        run(a[1], a[2:])
    elif a[0] == "table":
        if "--write" in a:
            import io, contextlib
            buf = io.StringIO()
            with contextlib.redirect_stdout(buf):
                table()
            p = os.path.join(V, "DESIGN.md")
            s = open(p).read()
            b, e = "<!-- seeded-table:begin -->", "<!-- seeded-table:end -->"
            i, j = s.index(b) + len(b), s.index(e)
            open(p, "w").write(s[:i] + "\n" + buf.getvalue() + s[j:])
        else:
            table()
