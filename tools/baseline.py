#!/usr/bin/env python3
"""Run the repository's pinned test suite (build tag off unless --tags given) and
compare with /root/.vp/BASELINE.json: every stable_pass test must pass.
Exit 0 if all stable tests pass, 1 otherwise. Usage: baseline.py [--repo DIR] [--tags verif]"""
import json, os, subprocess, sys

def main():
    repo = "/repo"; tags = None
    a = sys.argv[1:]
    while a:
        x = a.pop(0)
        if x == "--repo": repo = a.pop(0)
        elif x == "--tags": tags = a.pop(0)
    base = json.load(open("/root/.vp/BASELINE.json"))
    env = dict(os.environ, GOFLAGS="-mod=mod", GOPROXY="off", GOSUMDB="off", GOTOOLCHAIN="local")
    cmd = ["go", "test", "-json", "-vet=off", "-count=1", "-timeout", "25m"]
    if tags: cmd += ["-tags", tags]
    cmd += ["./..."]
    p = subprocess.run(cmd, cwd=repo, env=env, capture_output=True, text=True)
    res = {}
    for line in p.stdout.splitlines():
        try: ev = json.loads(line)
        except Exception: continue
        if ev.get("Test") and ev.get("Action") in ("pass", "fail", "skip") and "/" not in ev["Test"]:
            res[ev["Package"] + "::" + ev["Test"]] = ev["Action"]
    bad = [t for t in base["stable_pass"] if res.get(t) != "pass"]
    print(f"baseline: {len(base['stable_pass']) - len(bad)}/{len(base['stable_pass'])} stable tests pass"
          + (f" (tags={tags})" if tags else " (guard off)"))
    for t in bad: print("NOT PASSING:", t, res.get(t))
    if not res:
        print(p.stdout[-2000:]); print(p.stderr[-2000:])
    return 1 if bad else 0

sys.exit(main())
