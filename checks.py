"""Per-property configuration of the checks (read by run.py and by tools/mkmanifest.py)."""

PROPS = {}

PROPS["C18"] = dict(
    pkg="value", test="TestC18", engine="value",
    quick=dict(checks=20000, shards=2), thorough=dict(checks=1600000, shards=16),
    nt_floor=dict(quick=3000, thorough=100000),
    must_classes=["indent<0", "indent=0", "indent>0", "sorted", "unsorted", "escape", "adjacent-containers",
                  "empty-container", "symbol", "var", "non-name-key(json-only)", "invalid-utf8(json-only)"],
    fuzz=[("FuzzC18Text", 90)],
    level="exploration",
    technique="property-based round-trip testing (rapid) + differential against encoding/json; native fuzz of the parse/write fixpoint",
    rule="rapid-generated recursive values over {null,bool,int kinds,non-integral finite float64,valid UTF-8 strings from a hostile pool,"
         " Symbol,Var,lists,maps} x indent in {-3,-1,0,1..4} x Sort on/off; SDL round-trip (name keys), JSON re-parse by ggql and by"
         " encoding/json (arbitrary string keys, invalid UTF-8 -> U+FFFD). Non-trivial = (nesting>=2 with a container adjacent to a"
         " sibling) or a string/key needing an escape; distinct = SHA-1 of the case JSON.",
    level_text="Generated-input search over the whole value domain of the statement with three independent oracles (ggql reader,"
               " encoding/json, canonical comparison). It cannot prove absence; it is the right level because the property is a pure"
               " input/output relation of two small functions.",
    level_note="Trusted: encoding/json as the 'standard JSON parser', the harness' canonical comparison; SDL round-trip domain restricted"
               " to GraphQL-name keys (the SDL writer emits keys bare) and symbols/variables that are names.",
    assumptions=["encoding/json is the reference JSON parser", "SDL form: map keys and symbols are GraphQL names, symbols are not true/false/null",
                 "integral floats are outside the stated domain (2.0 prints as 2)"],
    design_ref="DESIGN.md section 5 C18",
)

EXEC_ASSUME = ["reference executor in harness/hx/refexec.go implements GraphQL selection semantics as restated by the property",
               "globals Sort=true, Relaxed=false, MaxResolveDepth=100 (defaults) are set at the start of every case",
               "reflection strategy for generated schemas uses reflect.StructOf types (fields only; methods come from the fixed universe of C02/C08)"]

PROPS["C01"] = dict(
    pkg="exec", test="TestC01", engine="exec",
    quick=dict(checks=6000, shards=3), thorough=dict(checks=480000, shards=16),
    nt_floor=dict(quick=1500, thorough=100000),
    must_classes=["strategy=R", "strategy=A+any", "strategy=X", "alias", "inline-fragment", "named-fragment", "list-of-list",
                  "null-element", "empty-list", "cyclic-or-shared-revisit", "multi-op", "op-unknown", "op-ambiguous", "merged-key",
                  "abstract-hop", "fragment-cond-differs-and-applies", "args", "variables"],
    level="exploration",
    technique="model-based differential testing: rapid-generated (schema, data graph, document, variables) vs an independent reference executor",
    rule="rapid draws a well-formed schema (objects, enums, optionally interfaces/unions), a typed data graph with sharing/cycles/nulls/empty lists,"
         " a document valid by construction (aliases, inline+named fragments, several operations, variables, arguments), an operation name in"
         " {exact, empty, unknown} and a resolver strategy (Resolver / root resolver / reflection over reflect.StructOf types); response data is"
         " compared key-for-key with the reference executor; an unselectable operation must run no resolver. Non-trivial = >=2 nesting levels"
         " and one of {alias, fragment, list, null, empty list, several operations}; distinct = SHA-1 of the case JSON.",
    level_text="Differential search against an independent executor over generated schemas/data/requests for the three resolver strategies."
               " Exploration is the honest level: the input space is unbounded and the oracle is a reference model, not a proof.",
    level_note="Trusted: the reference executor, the fixtures projecting one neutral graph into each strategy, SHA-1 case hashing.",
    assumptions=EXEC_ASSUME,
    design_ref="DESIGN.md section 5 C01",
)
