"""Per-property configuration of the checks (read by run.py and by tools/mkmanifest.py)."""

PROPS = {}

PROPS["C18"] = dict(
    pkg="value", test="TestC18", engine="value",
    quick=dict(checks=200000, shards=4), thorough=dict(checks=1600000, shards=16),
    nt_floor=dict(quick=10500, thorough=100000),
    must_classes=["indent<0", "indent=0", "indent>0", "sorted", "unsorted", "escape", "adjacent-containers",
                  "empty-container", "symbol", "var", "non-name-key(json-only)", "invalid-utf8(json-only)"],
    fuzz=[("FuzzC18Text", 90)],
    level="exploration",
    technique="property-based round-trip testing (rapid) + differential against encoding/json; native fuzz of the parse/write fixpoint",
    rule="rapid-generated recursive values over {null,bool,int kinds,non-integral finite float64,valid UTF-8 strings from a hostile pool,"
         " Symbol,Var,lists,maps} x indent in {-3,-1,0,1..4} x Sort on/off; SDL round-trip (name keys), JSON re-parse by ggql and by"
         " encoding/json (arbitrary string keys, invalid UTF-8 -> U+FFFD); one case in six is wide (20-300 sibling values, containers among"
         " them) or deep (a chain of 5-200 containers). Non-trivial = (nesting>=2 with a container adjacent to a"
         " sibling) or a string/key needing an escape; distinct = SHA-1 of the case JSON.",
    level_text="Generated-input search over the whole value domain of the statement with three independent oracles (ggql reader,"
               " encoding/json, canonical comparison). It cannot prove absence; it is the right level because the property is a pure"
               " input/output relation of two small functions.",
    level_note="Trusted: encoding/json as the 'standard JSON parser', the harness' canonical comparison; SDL round-trip domain restricted"
               " to GraphQL-name keys (the SDL writer emits keys bare) and symbols/variables that are names.",
    assumptions=["encoding/json is the reference JSON parser", "SDL form: map keys and symbols are GraphQL names, symbols are not true/false/null",
                 "integral floats are outside the stated domain (2.0 prints as 2)"],
    design_ref="DESIGN.md section 5 C18",
)

EXEC_ASSUME = ["reference executor in harness/hx/refexec.go implements GraphQL selection semantics as restated by the property",
               "globals Sort=true, Relaxed=false, MaxResolveDepth=100 (defaults) are set at the start of every case",
               "reflection strategy for generated schemas uses reflect.StructOf types (fields only; methods come from the fixed universe of C02/C08)"]

PROPS["C01"] = dict(
    pkg="exec", test="TestC01", engine="exec",
    quick=dict(checks=60000, shards=4), thorough=dict(checks=480000, shards=16),
    nt_floor=dict(quick=5250, thorough=100000),
    must_classes=["strategy=R", "strategy=A+any", "strategy=X", "alias", "inline-fragment", "named-fragment", "list-of-list",
                  "null-element", "empty-list", "cyclic-or-shared-revisit", "multi-op", "op-unknown", "op-ambiguous", "merged-key",
                  "abstract-hop", "fragment-cond-differs-and-applies", "args", "variables"],
    level="exploration",
    technique="model-based differential testing: rapid-generated (schema, data graph, document, variables) vs an independent reference executor",
    rule="rapid draws a well-formed schema (objects, enums, optionally interfaces/unions), a typed data graph with sharing/cycles/nulls/empty lists,"
         " a document valid by construction (aliases, inline+named fragments, several operations, variables, arguments), an operation name in"
         " {exact, empty, unknown} and a resolver strategy (Resolver / root resolver / reflection over reflect.StructOf types); response data is"
         " compared key-for-key with the reference executor; an unselectable operation must run no resolver. Non-trivial = >=2 nesting levels"
         " and one of {alias, fragment, list, null, empty list, several operations}; distinct = SHA-1 of the case JSON.",
    level_text="Differential search against an independent executor over generated schemas/data/requests for the three resolver strategies."
               " Exploration is the honest level: the input space is unbounded and the oracle is a reference model, not a proof.",
    level_note="Trusted: the reference executor, the fixtures projecting one neutral graph into each strategy, SHA-1 case hashing.",
    assumptions=EXEC_ASSUME,
    design_ref="DESIGN.md section 5 C01",
)

PROPS["C09"] = dict(
    pkg="exec", test="TestC09", engine="exec",
    quick=dict(checks=40000, shards=4), thorough=dict(checks=320000, shards=16),
    nt_floor=dict(quick=5250, thorough=100000),
    must_classes=["strategy=R", "strategy=X"],
    exhaustive_key="table_cases_enumerated", extra_max=["table_rows", "table_cases_enumerated"],
    level="exploration",
    technique="exhaustive enumeration of the @skip/@include truth table in a fixed context + rapid-generated contexts, differential against the reference executor, resolver call-log inclusion",
    rule="Table = {absent, literal true/false, variable true/false, variable defaulted true/false} for @skip x the same for @include x both"
         " textual orders x {field, inline fragment, fragment spread} = 255 rows. Part 1 enumerates every row on every selection of its kind"
         " of a fixed 3-level context under each strategy (exhaustive). Part 2 draws a row and plants it in a rapid-generated schema/data/"
         "document (any depth, inside lists, other directives around; one case in six pads the selection sets that hold a conditioned"
         " selection with 40-140 more members in front of it). Oracle: data equals the reference (present iff no @skip true and no"
         " @include false) and every logged resolver call is one the reference reaches. Non-trivial = some selection carries both directives.",
    level_text="The directive table itself is finite and is enumerated completely (exhaustive=true refers to that table in the fixed context);"
               " the embedding contexts are sampled. Enumeration is the right level for the finite part, exploration for the contexts.",
    level_note="Trusted: reference executor and fixtures' call log. Conditions that are null or non-boolean are outside the table.",
    assumptions=EXEC_ASSUME,
    design_ref="DESIGN.md section 5 C09",
)

PROPS["C05"] = dict(
    pkg="exec", test="TestC05", engine="exec",
    quick=dict(checks=60000, shards=4), thorough=dict(checks=320000, shards=16),
    nt_floor=dict(quick=5250, thorough=80000),
    must_classes=["strategy=R", "strategy=X", "leaf-unrepresentable", "leaf-borderline(shape-only)", "enum-undeclared-name",
                  "list-rep=[]string", "list-rep=[]int", "list-rep=[]float64", "list-rep=[]time.Time"],
    level="exploration",
    technique="property-based testing with hostile resolver return values: schema-directed shape walk of the response + differential against a coercion table",
    rule="C01-style generated schema/data/request where two thirds of the leaf values come from a hostile pool (every Go numeric kind and"
         " boundary around +-2^31 / 2^63 / MaxFloat32, NaN, +-Inf, numeric and non-numeric strings, bool, []byte, map, list, struct, typed nil"
         " pointer, Symbol, undeclared enum names, unparsable time strings) incl. typed slices of the wrong member kind; all three"
         " strategies. Oracles: (1) walk of data against the schema: object/list/scalar representation or null; (2) clearly unrepresentable"
         " values => null + exactly one error with that path; liberal conversions the repository's unit tests pin (numeric strings, numbers as"
         " strings, 3.1 -> Int 3, seconds -> Time) are shape-checked only. Non-trivial = a hostile leaf is reached by the selection.",
    level_text="Generated-input search with a validity predicate over the whole response plus a denotational table for leaf coercion.",
    level_note="Trusted: the coercion classification table in harness/hx/refexec.go (LeafOut), derived from the property text and the pinned unit tests.",
    assumptions=EXEC_ASSUME + ["borderline conversions (see rule) are not asserted beyond their JSON shape"],
    design_ref="DESIGN.md section 5 C05",
)

PROPS["C06"] = dict(
    pkg="exec", test="TestC06", engine="exec", own_loop=True,
    quick=dict(checks=6000, shards=4), thorough=dict(checks=32000, shards=16),
    nt_floor=dict(quick=3500, thorough=80000),
    must_classes=["fault-kind=err", "fault-kind=group", "fault-kind=ext", "fault-kind=nth", "fault-kind=coerce", "faults>=2",
                  "failure-inside-list", "failure-with-named-fragment-in-play"],
    level="fault_enumeration",
    technique="fault injection: every reachable resolver invocation of each generated case is failed in turn (plus sampled pairs/triples); error paths and partial data compared with the reference executor",
    rule="For each rapid-generated case (schema, data, request; Resolver / root-resolver / mixed strategies) the reference executor lists the"
         " reachable (node, field) resolver invocations; each one is made to fail in turn with a plain error, a group of 1-3 errors, an error"
         " with extensions, or (root resolver lists) a failing Nth at a drawn index; then 0-3 sampled pairs/triples; output-coercion failures"
         " come from hostile leaves. Oracle: multiset of error paths == expected (one per failing invocation, k for a group), data == the"
         " fault-free tree with exactly the failed positions null. Non-trivial = a failure at depth >= 2 or inside a list. evaluations counts"
         " sub-cases (one per injected fault set).",
    level_text="Single faults are enumerated exhaustively per generated case, multiple faults sampled; cases themselves are sampled.",
    level_note="Trusted: reference executor; fixtures' fault injection. Resolvers that return a value together with an error are outside the generated"
               " fault kinds (the repository pins that the value is kept).",
    assumptions=EXEC_ASSUME + ["the same response key selected n times may yield 1..n entries for one failing position (ggql resolves each occurrence)"],
    design_ref="DESIGN.md section 5 C06",
)

PROPS["C10"] = dict(
    pkg="exec", test="TestC10", engine="exec",
    quick=dict(checks=60000, shards=4), thorough=dict(checks=320000, shards=16),
    nt_floor=dict(quick=5250, thorough=80000),
    must_classes=["defect=unknown-field", "defect=undeclared-arg", "defect=omitted-required-arg", "defect=unknown-directive",
                  "defect=misplaced-directive", "defect=undefined-condition-inline", "defect=undefined-condition-fragment",
                  "container=object", "container=interface", "container=root-operation-type", "partial-data-kept", "document-rejected"],
    level="exploration",
    technique="mutation-based property testing: one named defect injected into a request that is valid by construction; error presence, resolver call log and sibling data checked against the defect-free reference",
    rule="A valid generated request gets exactly one added defective selection (alias dfct): unknown field, undeclared argument (with and"
         " without the declared ones), omitted or null required argument, unknown directive, directive at a location it does not allow (field,"
         " inline fragment, spread, operation), undefined type condition (inline / named fragment) - in any reachable or unreachable"
         " selection set, under root, object, interface (reflection) and union-member containers, strategies R / root / reflection / mixed."
         " Oracle: errors non-empty (naming the field/argument); no logged resolver call for the defective selection / with the undeclared"
         " argument; if data is present it equals the defect-free reference apart from the defective key. Further defects: an undeclared"
         " argument of a directive (also of one that declares none), a directive applied without its required argument, a required argument"
         " written as a variable without a value. Second scenario (1 case in 16): a schema block naming Root as query type next to an object"
         " type called Query; __schema / __type selected at the root (answered) and 1-3 levels below it (error, not answered, sibling kept)."
         " Non-trivial = depth >= 2 or a non-object container.",
    level_text="Every defect kind of the statement is enumerated per case order; positions and contexts are sampled.",
    level_note="Trusted: reference executor for the defect-free request, fixtures' call log. Argument defects under reflection are exercised in the C03 universe (methods), not with reflect.StructOf fields.",
    assumptions=EXEC_ASSUME,
    design_ref="DESIGN.md section 5 C10",
)

PROPS["C04"] = dict(
    pkg="exec", test="TestC04", engine="exec",
    quick=dict(checks=240000, shards=4), thorough=dict(checks=3200000, shards=16),
    nt_floor=dict(quick=22400, thorough=400000),
    must_classes=["channel=literal", "channel=var", "channel=default", "channel=nested", "verdict=good", "verdict=bad", "verdict=either",
                  "resolver-invoked", "representable-but-rejected", "list-type", "base=In0", "base=In2", "base=E0", "base=Time", "strategy=R", "strategy=A",
                  "strategy=X", "go-inputs=true", "go-inputs=false"],
    level="exploration",
    technique="property-based testing of input coercion: generated (type expression, written value, channel) triples; two-directional oracle = validity predicate on the received argument + denotation of the written value + must-reject for unrepresentable values",
    rule="Type expressions over {Int, Float, String, Boolean, ID, Int64, Float64, Time, enum, two input objects with defaults/required/nested"
         " fields} with 0-2 list wrappers and non-null marks; written values built representable (incl. boundaries +-2^31, 2^53+1, MaxFloat32,"
         " 16777217) and then optionally corrupted at one position (null in non-null, wrong kind, overflow, NaN/Inf, unknown enum, unknown or"
         " missing input field, list/object where a scalar is expected); delivered as literal, as variable (every Go numeric kind), as variable"
         " default (with and without an overriding supplied value) or as a literal with variables nested inside; resolver = Resolver object,"
         " root resolver or a Go method found by reflection (interface{} parameters, so whatever ggql hands over is recorded); in a third of"
         " the cases the input object types are bound to Go structs with RegisterType (one with int8/uint16/int16 fields: a value that does"
         " not fit must be refused, never wrapped). Oracle: unrepresentable =>"
         " error and the field's resolver not invoked; invoked => received value conforms to the type and equals the written value."
         " Non-trivial = wrapped or input-object type, or an unrepresentable value.",
    level_text="Generated-input search over types x values x channels with an independent coercion model.",
    level_note="Trusted: denote()/conforms() in harness/exec/c04_test.go; a Go struct can not tell an absent field from a zero one, the comparison is tolerant there. Silent in the statement and only conformance-checked: Time from numbers,"
               " Int from an integral float, Int64 from a numeric string, enum from a JSON string, explicit null for a defaulted input field, single value for a list.",
    assumptions=EXEC_ASSUME,
    design_ref="DESIGN.md section 5 C04",
)

PROPS["C11"] = dict(
    pkg="exec", test="TestC11", engine="exec",
    quick=dict(checks=15000, shards=4), thorough=dict(checks=240000, shards=16),
    nt_floor=dict(quick=3500, thorough=60000),
    must_classes=["strategy=R", "strategy=A", "same-op-again", "other-op-of-same-document", "var-inside-object-literal",
                  "var-inside-list-literal", "fragment", "input-var", "step-with-errors"],
    level="exploration",
    technique="stateful property-based testing: generated sequences of ResolveExecutable calls on one parsed document, each step compared with a fresh parse on a fresh root; printed form compared after every step",
    rule="rapid generates a document of 1-3 operations over a schema with input-object, list, enum and scalar arguments: arguments written"
         " out of declaration order, variables inside list and object literals, variable defaults, shared fragments, @skip/@include on"
         " variables; then a history of 2-8 resolve calls choosing the operation and a variable map (good and bad values, omissions)."
         " Oracle per step: the response (data, error messages, paths, locations) of the re-used Executable equals the response of a freshly"
         " parsed copy on a fresh root, and Executable.String() equals the text printed right after parsing. Non-trivial = an operation is"
         " resolved again or another operation of the document follows, and the document has variables inside container literals or fragments.",
    level_text="History-based differential testing; the oracle is ggql itself on a fresh parse (a metamorphic relation), so it cannot see a defect"
               " that affects first use and re-use alike - those are C01/C04's job.",
    level_note="Trusted: nothing beyond the fixtures; the relation compares ggql with itself.",
    assumptions=["fixtures are deterministic and echo their arguments", "caller-owned variable maps are rebuilt for every call (ggql coerces variable containers in place)"],
    design_ref="DESIGN.md section 5 C11",
)

PROPS["C07"] = dict(
    pkg="exec", test="TestC07", engine="exec",
    quick=dict(checks=50000, shards=4), thorough=dict(checks=320000, shards=16),
    nt_floor=dict(quick=2800, thorough=40000),
    must_classes=["mode=valid", "mode=faults", "mode=defect", "mode=malformed", "mode=badvars", "layout=single", "layout=pretty", "layout=argline",
                  "crlf", "comments", "commas", "bom", "rejected-before-execution", "located-field-error-multiline"],
    level="exploration",
    technique="property-based testing with a validity predicate on every response (envelope, paths, locations inside the submitted text), differential JSON decoding with encoding/json at three indents, and a layout metamorphic relation",
    rule="Requests come from five generators: valid (C01 style), with injected resolver faults whose messages are hostile strings (quotes,"
         " control characters, U+2028, invalid UTF-8) and hostile leaves, with one C10 defect, byte-mutated text (truncate/delete/insert/"
         "replace), wrong-kind variable maps; each rendered in a drawn layout (single line, one field per line, one argument per line, CRLF,"
         " comments, commas, BOM). Oracles: only data/errors; errors non-empty list of {message non-empty string, path of strings and"
         " non-negative ints, locations with line/column >= 1 inside the text}; a field failure's line lies within the lines of that field's"
         " own tokens; request that does not parse/validate => no non-null data; WriteJSONValue at indent -1/0/2 accepted by encoding/json and"
         " decoding to the same structure; a second layout gives the same data and error paths. Non-trivial = a response with errors in a"
         " multi-line layout.",
    level_text="Validity-predicate search over all kinds of requests; cannot prove the predicate for all inputs.",
    level_note="Trusted: encoding/json, the layout renderer's token spans. 'The line of the offending token' is asserted for field failures"
               " (where the token is identifiable); for parse errors only 'inside the submitted document' is asserted.",
    assumptions=EXEC_ASSUME + ["float32 values are compared through their shortest decimal representation"],
    design_ref="DESIGN.md section 5 C07",
)

PROPS["C02"] = dict(
    pkg="exec", test="TestC02", engine="exec", own_loop=True,
    quick=dict(checks=7200, shards=4), thorough=dict(checks=48000, shards=16),
    nt_floor=dict(quick=1400, thorough=20000),
    must_classes=["config=uniform-Resolver", "config=uniform-root-resolver", "config=uniform-reflection-auto", "config=uniform-reflection-registered",
                  "config=uniform-Resolver-with-reflective-poison", "config=mixed-any=true", "config=mixed-any=false", "mixed-families",
                  "registered-field-renames", "method-or-resolver-with-args", "variables", "fragments", "list"],
    level="exploration",
    technique="differential testing across resolver strategies: one neutral data graph served by seven configurations (uniform Resolver / root resolver / reflection auto / reflection registered / Resolver objects carrying poisoned reflective fields / two mixed assignments), all compared with the reference executor",
    rule="Schemas over a fixed universe of named Go types (fields of every scalar kind, typed slices, []interface{}, [][]interface{}, methods"
         " with String/Boolean arguments, one method bound with RegisterField and a permuted argument order, optional field renames via"
         " RegisterField; binding by name, by @go in three spellings or by RegisterType), a typed data graph, a generated request (aliases,"
         " fragments on the concrete type, variables, string/boolean arguments). Every case is executed under 7 configurations; mixed"
         " configurations draw a family per GraphQL type from {Resolver, Resolver+poisoned reflective fields, reflection} resp. {Resolver,"
         " Resolver+poison, root resolver handle, root resolver over a struct with poisoned fields}. Oracle: data and error paths of every"
         " configuration equal the reference (hence each other); poison makes a wrong precedence visible. Non-trivial = mixed configuration"
         " reaching >= 2 object levels and a list. evaluations counts (case, configuration) pairs.",
    level_text="Differential search; equality with one independent reference implies pairwise equality of the strategies.",
    level_note="Trusted: reference executor; UniverseCompute as the single definition of what method-backed fields return.",
    assumptions=EXEC_ASSUME + ["within one mixed configuration all objects of one GraphQL type share a representation family (ggql caches one Go type per GraphQL type)"],
    design_ref="DESIGN.md section 5 C02",
)

PROPS["C08"] = dict(
    pkg="exec", test="TestC08", engine="exec", own_loop=True,
    quick=dict(checks=20000, shards=4), thorough=dict(checks=160000, shards=16),
    nt_floor=dict(quick=979, thorough=20000),
    must_classes=["config=reflection", "config=mixed-registered", "abstract-field-resolved", "fragment-cond-differs-and-applies", "fragment-not-applicable",
                  "__typename", "binding=name/X", "binding=go-short/X", "binding=go-pkg/X", "binding=go-full/X", "binding=register/X", "binding=name/UR",
                  "frag:interface-container/object-condition", "frag:union-container/object-condition", "frag:object-container/interface-condition",
                  "frag:object-container/union-condition", "frag:union-container/interface-condition", "frag:interface-container/union-condition"],
    level="exploration",
    technique="model-based differential testing over schemas with interfaces and unions: named Go types bound by name, @go (3 spellings) or RegisterType, reflection and mixed registered Resolver objects, compared with the reference executor's applicability relation",
    rule="Universe schemas with interface Named and union Any; every object type chooses one composite target (object / Named / Any) for its"
         " object-, list- and list-of-list-valued fields and methods, so lists mix several concrete types under one abstract field; requests"
         " with inline and named fragments conditioned on object / interface / union types (also unrelated ones) at any depth, __typename"
         " everywhere. Configurations: all objects found by reflection; mixed graph where some GraphQL types are served by registered Go"
         " types that implement ggql.Resolver. Oracle: data (incl. __typename = concrete type, fragment applies iff equal / implements /"
         " member) and error paths equal the reference. Non-trivial = an abstract-typed field is resolved and a fragment whose condition"
         " differs from the static container type applies.",
    level_text="Differential search; the binding modes and container x condition kinds are enumerated by class counters, their combinations sampled.",
    level_note="Trusted: reference executor's Applies(); the interface-resolver-only configuration (no type binding) is outside the claim and not generated.",
    assumptions=EXEC_ASSUME,
    design_ref="DESIGN.md section 5 C08",
)

SDL_ASSUME = ["generated schemas are well-formed by construction against the rule catalogue quoted from the property",
              "globals Sort=true, Relaxed=false are set at the start of every load"]

PROPS["C13"] = dict(
    pkg="sdl", test="TestC13", engine="sdl", own_loop=True,
    quick=dict(checks=960, shards=4), thorough=dict(checks=24000, shards=16), timeout=dict(quick=600, thorough=3000),
    nt_floor=dict(quick=8400, thorough=200000),
    must_classes=["well-formed", "fuzzed-text-accepted(rechecked)"] + ["rule=R%d" % i for i in range(1, 9)],
    level="exploration",
    technique="generated well-formed schemas + exhaustive catalogue of single-rule mutations per schema (accept/reject oracle naming the offender) + independent re-checker of the rule catalogue over every accepted schema (also mutants and byte-mutated SDL)",
    rule="rapid draws a well-formed schema model (objects, interfaces with conforming implementers incl. covariant narrowing and extra optional"
         " arguments, unions, enums, input objects, custom scalars, directive definitions with arguments/defaults, directive uses at declared"
         " locations with coercible arguments, explicit/implicit schema block, descriptions, defaults, wrappers up to depth 3). (a) it must"
         " load; (b) each of the 52 catalogue mutations that applies (R1 undefined references, R2 duplicate/reserved/ill-formed names, R3"
         " input/output positions also under [[..!]] wrappers, R4 interface conformance, R5 unions, R6 empty composites, R7 directive uses,"
         " R8 directive cycles) is applied to a copy at a drawn site and must be refused with an error containing the offender's name;"
         " (c) every accepted text - the schema, accepted mutants, and 3 byte/token-mutated variants per case - is re-walked through the"
         " public API by an independent re-checker of R1-R8. evaluations counts loads. Non-trivial = >=3 kinds (well-formed) / a nested,"
         " member-level or directive-level violation (mutants) / an accepted fuzzed text.",
    level_text="Mutation kinds are enumerated exhaustively per generated schema, sites and schemas are sampled; the converse direction is checked by re-validation, not proof.",
    level_note="Trusted: the generator's notion of well-formed, the catalogue's expected offender names, recheck.go. Uses of directives on the"
               " arguments of directive definitions are excluded from the location re-check (ggql validates them against INPUT_FIELD_DEFINITION, pinned by TestLocate).",
    assumptions=SDL_ASSUME,
    design_ref="DESIGN.md section 5 C13",
)

PROPS["C15"] = dict(
    pkg="sdl", test="TestC15", engine="sdl",
    quick=dict(checks=9000, shards=4), thorough=dict(checks=320000, shards=16), timeout=dict(quick=600, thorough=3000),
    nt_floor=dict(quick=1680, thorough=60000),
    must_classes=["text-needing-escape", "backslash", "triple-quote-in-description", "has:directive @", "has:schema", "has:union", "has:input", "has:=",
                  "ggqlgen-tool-case", "ggqlgen-files=2", "ggqlgen-input-without-directive-definitions"],
    level="exploration",
    technique="round-trip property testing: generated schemas with hostile descriptions/defaults -> Root.SDL -> fresh root -> canonical description through the public API; print stability; the same through the ggqlgen binary (-w, -e) built from the tree",
    rule="Well-formed schemas of every kind whose descriptions and string defaults / directive-argument strings are drawn from a hostile pool"
         " (quotes, backslashes, newlines, triple quotes, leading/trailing blanks, non-ASCII, control characters, CRLF), numeric defaults of"
         " several lexical forms, nested list/object/enum defaults, directive definitions and uses with arguments, explicit schema blocks;"
         " rendered with single-line or block-string descriptions, with or without commas. Oracle: p1=Root.SDL(false,true) is accepted by a"
         " fresh root; the canonical description (types, members, wrappers, defaults by value, descriptions, directive uses with defaults"
         " filled, union members, interfaces, directives) of the fresh root equals the original's; printing again gives p1; the same for"
         " SDL without descriptions, and for the text put together from what every type and directive prints for itself (Type.SDL); the"
         " root prints again - and must still round-trip - after a later load extending inputs and enums and after one that extends an"
         " interface for only some implementers. One case in 20 also writes the schema to one or two files, runs `ggqlgen -w` and `ggqlgen -e` (binary"
         " built from the working tree) and compares the rewritten files / embedded constants the same way. Non-trivial = a description or"
         " string value needing an escape (schema level) / every tool case.",
    level_text="Round-trip search with an independent canonical reader; exploration.",
    level_note="Trusted: describe.go (reads the loaded schema through exported methods), go/parser for the embedded constant.",
    assumptions=SDL_ASSUME + ["descriptions are compared after ggql's own normalisation (lines trimmed, blank lines dropped), i.e. as stored by the first load"],
    design_ref="DESIGN.md section 5 C15",
)

PROPS["C16"] = dict(
    pkg="sdl", test="TestC16", engine="sdl",
    quick=dict(checks=7200, shards=8), thorough=dict(checks=96000, shards=16), timeout=dict(quick=600, thorough=3000),
    nt_floor=dict(quick=2800, thorough=50000),
    must_classes=["split-into-several-loads", "members-in-extend-blocks", "split+extend", "well-formed-set", "ill-formed-set", "ill-formed-all-rejected", "docs=3", "docs=4"],
    level="exploration",
    technique="metamorphic property testing: one generated definition set rendered in five arrangements (plain, permuted, split into 1-4 successive loads, members moved into extend blocks, both); accept/reject, canonical schema description, introspection and fixed requests must agree",
    rule="A well-formed definition set (or, one case in five, a set with one catalogue violation) is rendered as: the plain document; a"
         " permutation; a partition into up to 4 successive loads in which every reference, directive and extension target is defined in the"
         " same or an earlier load; fields, enum values, union members, input fields, interfaces (with the fields they require) and type-level"
         " directive uses moved into 1-2 extend blocks per type; and both together - such that every interim schema is well-formed (non-empty"
         " bases, literal members pinned to the base). Oracle: all five agree on accepted/rejected; when accepted the canonical description"
         " (members sorted, directive-use defaults filled), the full introspection response (lists sorted) and a fixed set of requests are"
         " identical. The documents of the split arrangement are also read as the files of one directory (ParseFS: one load); a scalar may"
         " be declared twice; names may differ only in case. Non-trivial = an arrangement with a split or an extend block.",
    level_text="Metamorphic search; arrangements are sampled, not enumerated (the space of permutations/partitions is factorial).",
    level_note="Trusted: describe.go; the arrangement generator's notion of a reference-preserving partition.",
    assumptions=SDL_ASSUME + ["extend blocks are written with an explicit body (the form ggql's grammar supports)"],
    design_ref="DESIGN.md section 5 C16",
)

PROPS["C14"] = dict(
    pkg="sdl", test="TestC14", engine="sdl",
    quick=dict(checks=7200, shards=12), thorough=dict(checks=64000, shards=16), timeout=dict(quick=600, thorough=3000),
    nt_floor=dict(quick=2500, thorough=30000),
    must_classes=["failing-load", "successful-load", "failing-load-touches-existing-definitions"] + ["fail-class=" + c for c in
                  ["syntax", "undefined-reference", "duplicate-type", "duplicate-member-by-extend", "extend-missing-target", "extend-kind-mismatch",
                   "validation-rule", "schema-block-then-failure", "reader-fault", "second-extension-fails", "addtypes-duplicate"]],
    level="exploration",
    technique="stateful (history) property-based testing against a model root: generated sequences of succeeding and failing loads with injected failure classes and reader faults; observables compared before/after every failing step and with a fresh root at the end",
    rule="A generated schema is cut into up to 4 reference-preserving documents with extend blocks (the successful loads). Between them rapid"
         " inserts failing loads: valid content that touches existing definitions first (the next valid document and/or synthetic extends of"
         " loaded objects, enums, inputs and unions, a schema block) plus one failure - syntax error, undefined reference, duplicate type,"
         " duplicate member through extend, extension of a missing or different-kind target, a second extension that fails after a first"
         " applied, a validation rule, a schema block followed by a failure, or a reader that fails / short-reads / returns data with the"
         " error at a drawn byte offset - placed before or after the valid content; also Root.AddTypes with a duplicate. Oracle: after every"
         " failing step Root.SDL(true,true), the full introspection response and four fixed requests equal the snapshot taken before the"
         " step; every valid document still loads; at the end all observables equal those of a fresh root that loaded only the successful"
         " documents. Non-trivial = a failing load whose document contains an extend or schema block.",
    level_text="Histories are sampled; each step's oracle is exact (byte-equal observables).",
    level_note="Trusted: the observables listed; ggql itself as the model (a fresh root over the successful documents).",
    assumptions=SDL_ASSUME,
    design_ref="DESIGN.md section 5 C14",
)

PROPS["C17"] = dict(
    pkg="sdl", test="TestC17", engine="sdl", own_loop=True,
    quick=dict(checks=6000, shards=4), thorough=dict(checks=64000, shards=16), timeout=dict(quick=600, thorough=3000),
    nt_floor=dict(quick=1400, thorough=50000),
    must_classes=["root=reflection", "root=resolver", "root=any", "includeDeprecated=true", "includeDeprecated=false", "includeDeprecated=absent",
                  "includeDeprecated=var-true", "includeDeprecated=var-false", "deprecated-member", "interface-with->=2-implementers", "wrapper-depth>=3",
                  "explicit-schema-block", "scalar-default", "non-scalar-default"],
    level="exploration",
    technique="model-based differential testing of introspection: the decoded response to a full introspection query is compared with the generated schema model, for three kinds of application resolvers and five ways of passing includeDeprecated",
    rule="Well-formed schemas of every kind (deep wrappers, deprecations with and without reason on fields and enum values, descriptions,"
         " explicit or implicit schema block with custom root names, mutation/subscription roots, directive definitions with arguments and"
         " defaults) are loaded into a root whose application data is served by reflection, by an object implementing ggql.Resolver, or by"
         " an installed well-behaved AnyResolver; a full introspection query (__schema with types, fields, args, ofType chains 7 deep,"
         " interfaces, possibleTypes, enumValues, inputFields, directives, root types; __type on an unknown name) is sent with"
         " includeDeprecated = true / false / absent / variable true / variable false. Oracle: set of user types with kind, name,"
         " description; per field args (name, type chain, default), type chain, isDeprecated, explicit deprecationReason; interfaces;"
         " possibleTypes; enum values; input fields; directives with locations and args; root type names; deprecated members present iff"
         " includeDeprecated is true; unknown type -> null - all compared with the model. evaluations counts (schema, root kind) pairs."
         " Non-trivial = an interface with >= 2 implementers, wrapper depth >= 3 or a deprecated member.",
    level_text="Differential search against the generator's own model of the schema.",
    level_note="Trusted: the model (generator output) and its SDL printer. Not asserted (statement silent): name/description of wrapper types, the"
               " default deprecation reason text, quoting of string defaults (raw or quoted accepted), [] vs null for empty lists.",
    assumptions=SDL_ASSUME,
    design_ref="DESIGN.md section 5 C17",
)

PROPS["C19"] = dict(
    pkg="sub", test="TestC19", engine="sub",
    quick=dict(checks=30000, shards=4), thorough=dict(checks=320000, shards=16),
    nt_floor=dict(quick=1750, thorough=50000),
    must_classes=["publish-with->=2-matches", "failing-delivery", "failing-delivery-not-last", "unsubscribe-proper-subset", "re-subscribe-after-removal",
                  "events-by=R", "events-by=X", "events-by=A"],
    level="exploration",
    technique="stateful model-based testing: generated histories of subscribe / publish / unsubscribe against an ordered-list model of the live subscribers; delivered payloads compared with the reference executor's result of each subscriber's own selection",
    rule="Histories of 5-40 steps: subscribe = a real `subscription {watch|listen(id) {...}}` request whose selection set (aliases, fragments,"
         " nested objects and lists) is generated, resolved against a schema whose Subscription fields return ggql.NewSubscription with a"
         " harness Subscriber (exact or prefix Match, a plan of which of its deliveries fail); publish = Root.AddEvent(id, event) with events"
         " from a cyclic graph served by Resolver objects, reflection structs or the root resolver; unsubscribe = Root.Unsubscribe(id)."
         " Oracle after every step (model = ordered list of live subscribers): returned count = matching live subscribers; the Send order ="
         " registration order; each matching subscriber got exactly one message equal to its own selection applied to the event (reference"
         " executor); non-matching and removed subscribers got nothing; a failed Send removes the subscriber and err != nil; clean-up runs"
         " exactly once per removed subscriber and never for a live one. Non-trivial = history has a publish with >= 2 matches, a failing"
         " delivery and an unsubscribe of a proper subset.",
    level_text="Histories are sampled; every step is checked exactly against the model.",
    level_note="Trusted: the list model, the reference executor for payloads. One selection in four carries a key whose presence depends on a variable of the subscription request (given or defaulted), the reference applies the selection with that request's variables.",
    assumptions=EXEC_ASSUME + ["one subscription field per subscription request (the registration order of two fields of one request follows Go map order)"],
    design_ref="DESIGN.md section 5 C19",
)

PROPS["C20"] = dict(
    pkg="conc", test="TestC20", engine="conc", race=True, own_loop=True,
    quick=dict(checks=120, shards=2), thorough=dict(checks=16000, shards=8), timeout=dict(quick=900, thorough=3000),
    nt_floor=dict(quick=500, thorough=20000),
    must_classes=["exhaustive-part", "generated-program-enumerated", "generated-program-sampled-schedule", "publish-phases-interleaved", "stress-round(-race)",
                  "workers=2", "workers=3", "workers=4"],
    exhaustive_key="exhaustive_interleavings", extra_max=["exhaustive_interleavings", "exhaustive_programs"],
    level="exploration",
    technique="schedule exploration with a harness-owned scheduler over yield hooks (build tag verif): block interleavings of small concurrent publish/subscribe/unsubscribe programs enumerated exhaustively, larger ones under rapid-drawn schedules; plus unscheduled stress under the Go race detector",
    rule="Workers run programs of 1-3 registry calls (subscribe with exact or prefix match and always-failing or healthy delivery, publish,"
         " unsubscribe), optionally after pre-registered subscribers. ggql.VerifYield parks every worker immediately before each acquisition"
         " of the registry lock (subscribe, unsubscribe, both phases of publish); the harness releases exactly one worker at a time, so a"
         " schedule is a list of choices. Part 1: five canonical programs (two publishers failing on one subscriber; unsubscribe racing the"
         " clean-up phase; publish/unsubscribe/subscribe mixes) - every block interleaving enumerated. Part 2: rapid-generated programs - all"
         " interleavings when <= 8 blocks (up to 3000), one drawn schedule otherwise. Part 3: 30+ rounds of 4-16 free-running goroutines"
         " under -race. Part 4: wide fan-out rounds under -race (66-205 subscribers that stay, behind a few that are removed and re-made"
         " all the time; three publishers): every stable subscriber gets every event exactly once, every publish counts them all, and no"
         " publish that starts after a publish with a failed delivery has returned reaches that subscriber. Oracle on logs stamped with a logical clock: <= 1 delivery per (publish, subscriber); <= 1 clean-up per subscriber;"
         " no delivery after the return of an unsubscribe that matches the subscriber; a publish that starts after a subscription returned"
         " reaches it unless an unsubscribe/failure intervened; deliveries only for matching ids; returned counts within the min..max over"
         " all sequential orders of the calls; no deadlock (decided from the goroutine states: a worker parked on a lock in two samples; the clock only says when to look); no race report. Non-trivial = another worker runs"
         " between the two phases of a publish (or a stress round).",
    level_text="Block interleavings of the listed small programs are exhaustive (exhaustive=true refers to Part 1); everything else is sampled."
               " Completeness at block granularity relies on every registry access sitting inside the hooked critical sections, which the -race part watches.",
    level_note="Trusted: the hooks' placement (add-only lines before each Lock), goroutine identification via runtime.Stack, the logical clock.",
    assumptions=["only one worker runs between two yield points, so the order of registry critical sections equals the schedule",
                 "the oracle stops at the conditions the statement enumerates: a second publisher attempting an already failing subscriber in the gap between the phases is not flagged"],
    design_ref="DESIGN.md section 5 C20",
)

PROPS["C12"] = dict(
    pkg="conc", test="TestC12", engine="conc", race=True,
    quick=dict(checks=1600, shards=8), thorough=dict(checks=32000, shards=16), timeout=dict(quick=900, thorough=3000),
    nt_floor=dict(quick=400, thorough=20000),
    must_classes=["concurrent-goroutines>=2", "strategies=X", "strategies=RX", "strategies=A", "interfaces-and-unions", "yield-jitter", "goroutines=2", "goroutines=32"],
    level="exploration",
    technique="concurrency testing under the Go race detector: generated request mixes released together on a cold root (nothing lazily bound yet), each response compared with the same request run alone; yield hooks add scheduling jitter at the lazy-binding sites",
    rule="Each iteration builds a fresh (cold) root over a universe schema (named Go types with fields and methods, optional interface and"
         " union, bindings by name / @go / RegisterType / RegisterField) served by reflection, by reflection mixed with Resolver objects, or"
         " by the root resolver; 4-24 generated requests (nested selections, fragments, arguments, variables, introspection) are assigned to"
         " 2..2xcores goroutines that start behind one barrier and parse+resolve against the one root. Oracles: the race detector"
         " (GORACE=halt_on_error: a report kills the worker, the driver turns it into a violation with the last case as replay); a"
         " deadlock verdict taken from the goroutine states (all unfinished workers parked on a lock in two samples 3 s apart); each response equals the response of the same request run alone on its own fresh root. Non-trivial = at"
         " least two goroutines actually issue requests.",
    level_text="Schedules are whatever the Go scheduler produces (plus hook jitter): sampled, not enumerated. The race detector only sees accesses that execute.",
    level_note="Trusted: Go race detector; the harness fixtures are themselves race-free (call log and counters are mutex protected).",
    assumptions=["registration (RegisterType/RegisterField) happens before the barrier; the property lists only parsing and resolving as concurrent operations"],
    design_ref="DESIGN.md section 5 C12",
)

PROPS["C03"] = dict(
    pkg="crash", test="TestC03", engine="crash",
    quick=dict(checks=12000, shards=4), thorough=dict(checks=480000, shards=16), timeout=dict(quick=900, thorough=6000),
    nt_floor=dict(quick=2100, thorough=200000),
    must_classes=["target=sdl", "target=exe", "target=value", "target=writer", "kind=exe-adversarial", "kind=exe-mutated", "kind=exe-soup", "kind=exe-valid-badvars",
                  "kind=sdl-mutated", "kind=sdl-soup", "kind=sdl-valid", "kind=value-soup", "kind=bytes", "kind=deep-nesting", "kind=exe-corpus",
                  "sdl-accepted", "sdl-printed-and-introspected", "exe-parsed", "exe-resolved-clean", "exe-resolved-with-errors", "value-parsed",
                  "reader-fault-mode=0", "reader-fault-mode=1", "reader-fault-mode=2", "reader-fault-mode=3", "reader-fault-mode=4"],
    fuzz=[("FuzzExe", 90), ("FuzzSDL", 90), ("FuzzValue", 60)],
    level="exploration",
    technique="robustness fuzzing: grammar-aware generation and mutation (token soup, mutated valid documents, hand-written semantic adversaries, hostile variable maps, failing readers, deep nesting) with a panic / hang / fatal-exit oracle; native coverage-guided go test -fuzz in the thorough tier",
    rule="Four targets, one entry function each: (sdl) Root.ParseReader through a reader that may fail / short-read / return data with the error"
         " / return zero-length reads at a drawn offset, then on success Root.SDL, every Type.SDL and full introspection; (exe)"
         " ParseExecutableReader + Executable.String + ResolveExecutable + ResolveReader against three fresh roots (reflection with methods,"
         " Resolver objects, root resolver) with a generated variable map of every Go kind (NaN, huge ints, structs, typed slices, nil"
         " pointers) and operation names; (value) ParseValue then both writers at three indents; (writer) the writers on arbitrary Go"
         " values and a failing io.Writer. Inputs: token soup over the grammars' tokens and hostile bytes (NUL, 0xFF, BOM, unterminated"
         " strings, bad escapes), 1-3 mutations (truncate, delete, insert token, replace byte, duplicate range, swap bracket) of valid"
         " requests / of generated well-formed schemas, 60 hand-written adversarial requests (fragment cycles, undefined spreads, omitted /"
         " null / mistyped / extra arguments to method-backed fields, missing variable types, ...), raw bytes, nesting up to depth 4000."
         " Oracle: the call returns within the watchdog (20 s, re-confirmed with 60 s) without panicking; a fatal runtime error (stack"
         " overflow, concurrent map write) kills the worker and the driver reports it with the breadcrumb of the last input."
         " Non-trivial = the input got past the first token / was parsed / is a request-shaped text.",
    level_text="Generated-input search with a crash/hang oracle; the thorough tier adds coverage-guided native fuzzing (not pinnable by seed: its saved crasher is the reproducible unit).",
    level_note="Trusted: the watchdog as an approximation of 'bounded time' (inputs are <= a few KiB except the deep-nesting class, whose depth is bounded so"
               " that quadratic indentation in the printers stays far below the watchdog).",
    assumptions=["each case builds fresh roots (lazy reflection binding is state)", "globals reset per case"],
    design_ref="DESIGN.md section 5 C03",
)
