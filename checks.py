"""Per-property configuration of the checks (read by run.py and by tools/mkmanifest.py)."""

PROPS = {}

PROPS["C18"] = dict(
    pkg="value", test="TestC18", engine="value",
    quick=dict(checks=20000, shards=2), thorough=dict(checks=1600000, shards=16),
    nt_floor=dict(quick=3000, thorough=100000),
    must_classes=["indent<0", "indent=0", "indent>0", "sorted", "unsorted", "escape", "adjacent-containers",
                  "empty-container", "symbol", "var", "non-name-key(json-only)", "invalid-utf8(json-only)"],
    fuzz=[("FuzzC18Text", 90)],
    level="exploration",
    technique="property-based round-trip testing (rapid) + differential against encoding/json; native fuzz of the parse/write fixpoint",
    rule="rapid-generated recursive values over {null,bool,int kinds,non-integral finite float64,valid UTF-8 strings from a hostile pool,"
         " Symbol,Var,lists,maps} x indent in {-3,-1,0,1..4} x Sort on/off; SDL round-trip (name keys), JSON re-parse by ggql and by"
         " encoding/json (arbitrary string keys, invalid UTF-8 -> U+FFFD). Non-trivial = (nesting>=2 with a container adjacent to a"
         " sibling) or a string/key needing an escape; distinct = SHA-1 of the case JSON.",
    level_text="Generated-input search over the whole value domain of the statement with three independent oracles (ggql reader,"
               " encoding/json, canonical comparison). It cannot prove absence; it is the right level because the property is a pure"
               " input/output relation of two small functions.",
    level_note="Trusted: encoding/json as the 'standard JSON parser', the harness' canonical comparison; SDL round-trip domain restricted"
               " to GraphQL-name keys (the SDL writer emits keys bare) and symbols/variables that are names.",
    assumptions=["encoding/json is the reference JSON parser", "SDL form: map keys and symbols are GraphQL names, symbols are not true/false/null",
                 "integral floats are outside the stated domain (2.0 prints as 2)"],
    design_ref="DESIGN.md section 5 C18",
)
